"""Regenerates DESIGN.md section 7 tables from known_findings.json + known_findings.d/*.json."""
import glob, json, os, subprocess
HERE = os.path.dirname(os.path.dirname(os.path.abspath(__file__)))
ents = json.load(open(os.path.join(HERE, "known_findings.json")))["findings"]
for f in sorted(glob.glob(os.path.join(HERE, "known_findings.d", "*.json"))):
    ents += json.load(open(f))["findings"]
subj = {}
for l in subprocess.run(["git", "-C", "/repo", "log", "--format=%h %s"], capture_output=True, text=True).stdout.splitlines():
    h, _, s = l.partition(" ")
    subj[h[:7]] = s
fixed, known = {}, []
for e in ents:
    if e["status"] == "fixed":
        c = str(e.get("commit", "?"))[:7]
        fixed.setdefault(c, {"props": [], "keys": [], "what": e["what"]})
        fixed[c]["props"].append(e["property"]); fixed[c]["keys"].append(e["key"])
    elif e["status"] == "known":
        known.append(e)
order = [l.split()[0][:7] for l in subprocess.run(["git", "-C", "/repo", "log", "--reverse", "--format=%h"], capture_output=True, text=True).stdout.splitlines()]
out = ["### 7.1 Repaired (`fix:` commits in /repo, oldest first)\n", "| commit | subject | properties | finding keys |", "|---|---|---|---|"]
listed = set()
for c in order:
    if c in fixed:
        listed.add(c)
        v = fixed[c]
        out.append(f"| {c} | {subj.get(c, '')} | {', '.join(sorted(set(v['props'])))} | {'; '.join('`' + k[:70] + '`' for k in sorted(set(v['keys'])))} |")
for c in order:
    if c not in fixed and subj.get(c, "").startswith("fix:"):
        out.append(f"| {c} | {subj[c]} | (see commit message) | |")
out += ["", "### 7.2 Recorded, not repaired (`status: known`; the check prints KNOWN-FINDING and exits 0)\n", "| property | key | failing input / why not repaired |", "|---|---|---|"]
for e in sorted(known, key=lambda e: (e["property"], e["key"])):
    w = e["what"].replace("|", "/").replace("\n", " ")
    out.append(f"| {e['property']} | `{e['key'][:80]}` | {w[:520]} |")
text = "\n".join(out) + "\n"
p = os.path.join(HERE, "DESIGN.md")
s = open(p).read()
B, E = "<!-- FINDINGS-BEGIN -->", "<!-- FINDINGS-END -->"
if B not in s:
    a = s.index("### 7.1 Repaired")
    b = s.index("## 8. False alarms")
    s = s[:a] + B + "\n" + E + "\n\n" + s[b:]
s = s[:s.index(B) + len(B)] + "\n" + text + s[s.index(E):]
open(p, "w").write(s)
print(len(fixed), "fix commits with entries;", len(known), "known findings")
