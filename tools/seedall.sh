#!/bin/bash
# tools/seedall.sh [names...] : evaluate seeded changes one after another
cd /verif
names="$@"; [ -z "$names" ] && names=$(ls seeded)
for n in $names; do
  /venv/bin/python tools/seedeval.py seeded/$n 2>&1 | tail -4
done
