#!/bin/bash
# tools/seedsync.sh <outdir> <worktree> : copy finished seeded changes from <outdir> and evaluate the not yet evaluated ones
cd /verif
for d in $1/*/; do n=$(basename $d); [ -f $d/meta.json ] && [ -f $d/patch.diff ] && [ -f $d/demo.py ] && [ ! -d seeded/$n ] && cp -r $d seeded/$n; done
todo=$(python3 - ${3:-0/1} <<'PY'
import json,glob,os
out=[]
for f in sorted(glob.glob('/verif/seeded/*/meta.json')):
    m=json.load(open(f))
    if not m.get('evaluations'): out.append(os.path.basename(os.path.dirname(f)))
import sys
k,n=(int(x) for x in (sys.argv[1] if len(sys.argv)>1 else '0/1').split('/'))
print(' '.join(o for i,o in enumerate(out) if i%n==k))
PY
)
echo "TODO: $todo"
for n in $todo; do SEED_WT=$2 /venv/bin/python tools/seedeval.py seeded/$n 2>&1 | tail -3; done
