"""tools/seedeval.py <seed_dir> [--checks C02,C08] [--tier quick]

Validate one seeded change (patch.diff + demo.py + meta.json) in a scratch
worktree of /repo and run the checks against it:
  1. patch applies to /repo HEAD, 2. the 911 tests still pass with it,
  3. demo.py exits 1 with the patch and 0 without, 4. which checks report a VIOLATION.
Writes the results into <seed_dir>/meta.json under "evaluation"."""
import json
import os
import subprocess
import sys
import time

WT = os.environ.get("SEED_WT", "/tmp/wt_eval")
PY = "/venv/bin/python"


def sh(cmd, **kw):
    return subprocess.run(cmd, capture_output=True, text=True, **kw)


def main():
    d = os.path.abspath(sys.argv[1])
    checks = None
    tier = "quick"
    skip_tests = "--skip-tests" in sys.argv
    for i, a in enumerate(sys.argv):
        if a == "--checks":
            checks = sys.argv[i + 1].split(",")
        if a == "--tier":
            tier = sys.argv[i + 1]
    meta = json.load(open(os.path.join(d, "meta.json")))
    pid = meta["property"]
    checks = checks or [pid]
    head = sh(["git", "-C", "/repo", "rev-parse", "HEAD"]).stdout.strip()
    if not os.path.isdir(WT):
        sh(["git", "-C", "/repo", "worktree", "add", "--detach", WT, head])
    sh(["git", "-C", WT, "reset", "--hard", "-q"])
    sh(["git", "-C", WT, "checkout", "-q", "--detach", head])
    sh(["git", "-C", WT, "reset", "--hard", "-q"])
    sh(["git", "-C", WT, "clean", "-fdq"])
    env = dict(os.environ, PYTHONPATH=os.path.join(WT, "src"), PYTHONDONTWRITEBYTECODE="1")
    ev = {"repo_head": head[:7], "when": time.strftime("%Y-%m-%d %H:%M")}
    # demo without patch
    r0 = sh([PY, os.path.join(d, "demo.py")], cwd=WT, env=env, timeout=600)
    ev["demo_exit_without_patch"] = r0.returncode
    ap = sh(["git", "-C", WT, "apply", "--whitespace=nowarn", os.path.join(d, "patch.diff")])
    ev["patch_applies"] = ap.returncode == 0
    if ap.returncode != 0:
        ap = sh(["git", "-C", WT, "apply", "--3way", "--whitespace=nowarn", os.path.join(d, "patch.diff")])
        unmerged = sh(["git", "-C", WT, "diff", "--name-only", "--diff-filter=U"]).stdout.strip()
        ev["patch_applies_3way"] = ap.returncode == 0 and not unmerged
        if ap.returncode != 0 or unmerged:
            ev["error"] = "patch does not apply to current HEAD: " + (ap.stderr[-300:] or unmerged)
            sh(["git", "-C", WT, "reset", "--hard", "-q"])
            return finish(d, meta, ev)
        sh(["git", "-C", WT, "reset", "-q"])
    try:
        r1 = sh([PY, os.path.join(d, "demo.py")], cwd=WT, env=env, timeout=600)
        ev["demo_exit_with_patch"] = r1.returncode
        ev["demo_output_with_patch"] = (r1.stdout + r1.stderr)[-600:]
        if not skip_tests:
            t = sh([PY, "-m", "pytest", "-q", "-p", "no:cacheprovider", "-x", "tests"], cwd=WT, env=env, timeout=1800)
            ev["tests_exit_with_patch"] = t.returncode
            ev["tests_tail"] = t.stdout.strip().splitlines()[-1][-200:] if t.stdout.strip() else ""
        ev["checks"] = {}
        for c in checks:
            cenv = dict(os.environ, VT_REPO=WT, VT_NOEVIDENCE="1")
            t0 = time.time()
            r = sh([PY, "-m", "vt.check", c, "--tier", tier], cwd="/verif", env=cenv, timeout=3600)
            lines = [l for l in r.stdout.splitlines() if l.startswith(("VIOLATION", "  key=", "RESULT", "INCONCLUSIVE"))]
            keys = sorted({l.split("key=")[1].split(" what=")[0] for l in lines if l.startswith("  key=")})
            ev["checks"][c] = {"exit": r.returncode, "tier": tier, "keys": keys[:8], "wall_s": round(time.time() - t0, 1),
                               "first": (lines[1][:400] if len(lines) > 1 else (lines[0][:300] if lines else ""))}
    finally:
        sh(["git", "-C", WT, "reset", "--hard", "-q"])
    finish(d, meta, ev)


def finish(d, meta, ev):
    meta.setdefault("evaluations", [])
    meta["evaluations"].append(ev)
    json.dump(meta, open(os.path.join(d, "meta.json"), "w"), indent=1)
    ok = (ev.get("demo_exit_without_patch") == 0 and ev.get("demo_exit_with_patch") not in (0, None)
          and ev.get("tests_exit_with_patch", 0) == 0)
    caught = [c for c, v in ev.get("checks", {}).items() if v["exit"] == 1]
    print(f"{os.path.basename(d)}: valid={ok} demo {ev.get('demo_exit_without_patch')}->{ev.get('demo_exit_with_patch')} "
          f"tests={ev.get('tests_exit_with_patch')} caught_by={caught} "
          f"missed={[c for c, v in ev.get('checks', {}).items() if v['exit'] != 1]}")
    for c, v in ev.get("checks", {}).items():
        print(f"    {c}: exit={v['exit']} keys={v['keys'][:3]} {v['first'][:200]}")


if __name__ == "__main__":
    main()
