"""tools/mut.py <worktree> <CHECK[,CHECK]> <file> <old> <new> : apply a textual mutation in a scratch
worktree, run the quick checks against it, restore. Prints exit codes."""
import subprocess, sys, os
wt, checks, f, old, new = sys.argv[1:6]
p = os.path.join(wt, f)
s = open(p).read()
if s.count(old) < 1:
    print("MUTATION TARGET NOT FOUND"); sys.exit(3)
open(p, 'w').write(s.replace(old, new, 1))
try:
    for c in checks.split(','):
        env = dict(os.environ, VT_REPO=wt, VT_NOEVIDENCE="1")
        r = subprocess.run(['/venv/bin/python', '-m', 'vt.check', c, '--tier', 'quick'], cwd='/verif', env=env,
                           capture_output=True, text=True)
        lines = [l for l in r.stdout.splitlines() if l.startswith(('VIOLATION', 'RESULT', 'INCONCLUSIVE', '  key='))]
        print(f"{c}: exit={r.returncode}", '|', ' || '.join(l[:230] for l in lines[:3]))
finally:
    subprocess.run(['git', '-C', wt, 'checkout', '--', '.'])
