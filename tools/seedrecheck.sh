#!/bin/bash
# tools/seedrecheck.sh <k> <n> <worktree> : re-evaluate (own check, quick tier, tests skipped) every k-th of n
# seeded change against the current /repo HEAD and the current checks; prints one line per change
cd /verif
names=$(ls seeded | grep -v README | awk -v k=$1 -v n=$2 'NR%n==k')
for nm in $names; do
  SEED_WT=$3 /venv/bin/python tools/seedeval.py seeded/$nm --skip-tests 2>&1 | grep -E "^C[0-9]" 
done
