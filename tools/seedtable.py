"""Regenerates the seeded-change table (seeded/README.md and DESIGN.md section 9.1)
from the evaluation records in seeded/*/meta.json (latest evaluation per check wins)."""
import glob
import json
import os

HERE = os.path.dirname(os.path.dirname(os.path.abspath(__file__)))
rows = []
for f in sorted(glob.glob(os.path.join(HERE, "seeded", "*", "meta.json"))):
    m = json.load(open(f))
    name = os.path.basename(os.path.dirname(f))
    per = {}
    valid = None
    neutral = None
    for ev in m.get("evaluations", []):
        if ev.get("demo_exit_with_patch") == 0:
            # on this /repo HEAD the seeded change no longer changes behaviour (a later fix:
            # commit removed or rewrote the code it touches): nothing to catch
            neutral = ev.get("repo_head")
            continue
        if "tests_exit_with_patch" in ev:
            valid = (ev.get("demo_exit_without_patch") == 0 and ev.get("demo_exit_with_patch") not in (0, None)
                     and ev.get("tests_exit_with_patch") == 0)
        for c, v in ev.get("checks", {}).items():
            per[c] = v
    caught = [c for c, v in per.items() if v["exit"] == 1]
    missed = [c for c, v in per.items() if v["exit"] != 1]
    keys = "; ".join(sorted({k for c in caught for k in per[c]["keys"][:1]}))[:110]
    summ = m["summary"].replace("|", "/").replace("\n", " ")[:170]
    if neutral:
        summ += f" [behaviour-neutral since /repo {neutral}; row shows the evaluations before that]"
    rows.append((name, m["property"], summ, valid, caught, missed, keys))
out = ["| seeded change | breaks | what it changes | valid (tests pass, demo 0->1) | caught by (quick tier) | example violation key |", "|---|---|---|---|---|---|"]
for name, pid, summ, valid, caught, missed, keys in rows:
    c = ", ".join(caught) if caught else "**missed**"
    if caught and pid not in caught:
        c += f" (own check {pid}: missed)"
    out.append(f"| {name} | {pid} | {summ} | {'yes' if valid else ('?' if valid is None else 'NO')} | {c} | `{keys}` |")
tot = len(rows)
own = sum(1 for r in rows if r[1] in r[4])
anyc = sum(1 for r in rows if r[4])
summary = f"{tot} seeded changes; {own} caught by the check of the property they target, {anyc} caught by at least one check (quick tier)."
text = summary + "\n\n" + "\n".join(out) + "\n"
open(os.path.join(HERE, "seeded", "README.md"), "w").write("# Seeded changes\n\n" + text)
p = os.path.join(HERE, "DESIGN.md")
s = open(p).read()
B, E = "<!-- SEEDTABLE-BEGIN -->", "<!-- SEEDTABLE-END -->"
if B not in s:
    s += f"\n### 9.1 Table\n\n{B}\n{E}\n"
s = s[:s.index(B) + len(B)] + "\n" + text + s[s.index(E):]
open(p, "w").write(s)
print(summary)
