#!/bin/bash
# tools/sweep.sh <tier> <seed> ID... : run checks one after another, print one line per check
tier=$1; seed=$2; shift 2
for c in "$@"; do
  s=$(date +%s)
  out=$(VERIF_SEED=$seed VT_NOEVIDENCE=1 /venv/bin/python -m vt.check $c --tier $tier 2>&1)
  rc=$?
  echo "== $c tier=$tier seed=$seed exit=$rc wall=$(( $(date +%s) - s ))s"
  echo "$out" | grep -E "^(VIOLATION|INCONCLUSIVE|  key=|RESULT)" | cut -c1-400 | head -12
done
