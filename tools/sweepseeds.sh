#!/bin/bash
# tools/sweepseeds.sh <tier> "<seeds>" ID...
tier=$1; seeds=$2; shift 2
for s in $seeds; do tools/sweep.sh $tier $s "$@"; done
