"""Regenerates DESIGN.md section 6.4 (per-property summary) from the check modules and evidence files."""
import importlib, json, os, sys
HERE = os.path.dirname(os.path.dirname(os.path.abspath(__file__)))
sys.path.insert(0, HERE)
props = [json.loads(l) for l in open(os.path.join(HERE, "properties.jsonl"))]
out = []
for p in props:
    pid = p["id"]
    mod = importlib.import_module("vt.checks." + pid.lower())
    ev = {}
    try:
        ev = json.load(open(os.path.join(HERE, "evidence", pid + ".json")))
    except Exception:
        pass
    cov = ev.get("coverage", {})
    out.append(f"**{pid} - {p['title']}**  \n*Technique:* {getattr(mod, 'TECHNIQUE', '')}  \n*Workload / distinct rule:* {mod.RULE}  \n"
               f"*Assumptions:* {'; '.join(getattr(mod, 'ASSUMPTIONS', [])) or 'none'}  \n"
               f"*Last committed quick evidence:* evaluations={cov.get('evaluations')}, distinct={cov.get('distinct_nontrivial')}, "
               f"known-finding hits={cov.get('known_finding_hits')}, wall={ev.get('wall_s')} s\n")
text = "\n".join(out)
p = os.path.join(HERE, "DESIGN.md")
s = open(p).read()
B, E = "<!-- PROPTABLE-BEGIN -->", "<!-- PROPTABLE-END -->"
if B not in s:
    marker = "## 7. Genuine defects found"
    s = s.replace(marker, f"### 6.4 Per-property summary (generated from the check modules by tools/designtable.py)\n\n{B}\n{E}\n\n" + marker)
s = s[:s.index(B) + len(B)] + "\n" + text + s[s.index(E):]
open(p, "w").write(s)
print("ok", len(out))
