"""Greedy statement-level shrinking of a C03 replay case (debug aid)."""
import json, sys, copy
sys.path.insert(0, '/verif')
from vt import core; core.ensure_repo()
from vt.checks import c03
from vt.gen import jast

def diverges(body, data):
    try:
        mo = c03.model_render(body, dict(data)); eo, src = c03.engine_render(body, dict(data))
    except Exception as e:
        return False
    return c03.agree(mo, eo) is not None

def paths(body, prefix=()):
    out = []
    for i, s in enumerate(body):
        out.append(prefix + (i,))
        k = s[0]
        if k == 'if':
            for j, (c, b) in enumerate(s[1]):
                out += paths(b, prefix + (i, 1, j, 1))
            if s[2]: out += paths(s[2], prefix + (i, 2))
        elif k == 'for':
            out += paths(s[3], prefix + (i, 3))
            if s[4]: out += paths(s[4], prefix + (i, 4))
        elif k in ('setblock', 'with'):
            out += paths(s[2], prefix + (i, 2))
        elif k in ('macro', 'callblock', 'filterblock'):
            out += paths(s[3], prefix + (i, 3))
    return out

def remove(body, path):
    b = copy.deepcopy(body)
    cur = b
    for p in path[:-1]:
        cur = cur[p]
    del cur[path[-1]]
    return b

def hoist(body, path):
    """replace statement by its first body"""
    b = copy.deepcopy(body)
    cur = b
    for p in path[:-1]:
        cur = cur[p]
    s = cur[path[-1]]
    bs = jast.stmt_bodies(s)
    if not bs: return None
    cur[path[-1]:path[-1]+1] = bs[0]
    return b

rec = json.load(open(sys.argv[1]))
body, data = rec['case']['body'], rec['case']['data']
assert diverges(body, data), "does not diverge"
changed = True
while changed:
    changed = False
    for p in sorted(paths(body), key=lambda x: -len(x)):
        for f in (remove, hoist):
            try:
                nb = f(body, p)
            except Exception:
                continue
            if nb is None: continue
            try:
                jast.ps(nb)
            except Exception:
                continue
            if diverges(nb, data):
                body = nb; changed = True; break
        if changed: break
print(jast.ps(body))
print({k: v for k, v in data.items() if k != 'TREE'})
mo = c03.model_render(body, dict(data)); eo, _ = c03.engine_render(body, dict(data))
print('model', mo); print('engine', eo)
