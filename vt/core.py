"""Shared runtime-monitoring harness: shard runner, result accumulation,
known-finding classification and the evidence writer.

A check module (vt/checks/cNN.py) defines

    PID        = "C26"
    LEVEL      = "exploration"            # evidence level category
    RULE       = "..."                    # how cases are made / what is distinct
    ASSUMPTIONS = [...]
    FLOORS     = {"evaluations": 1000, "distinct": 50, "counters": {"x": 10}}
    NSHARDS    = {"quick": 16, "thorough": 16}
    BUDGET_S   = {"quick": 30, "thorough": 600}     # soft per-shard time box
    def run(ctx): ...                     # executes the shard ctx.shard of ctx.nshards
    def replay(case): ...                 # optional: re-execute one recorded case

Verdicts are three-valued: exit 0 held, exit 1 VIOLATION, exit 2 INCONCLUSIVE.
"""
from __future__ import annotations

import hashlib
import json
import os
import random
import subprocess
import sys
import time
import traceback

VERIF = os.path.dirname(os.path.dirname(os.path.abspath(__file__)))
REPO = os.environ.get("VT_REPO", "/repo")
REPO_SRC = os.path.join(REPO, "src")
EVIDENCE = os.path.join(VERIF, "evidence")
REPLAY_DIR = os.path.join(EVIDENCE, "replay")
KNOWN = os.path.join(VERIF, "known_findings.json")
PY = "/venv/bin/python"
DEPS = os.path.join(VERIF, ".deps")


def ensure_repo():
    """Make sure jinja2 is the working tree under /repo/src."""
    if REPO_SRC not in sys.path:
        sys.path.insert(0, REPO_SRC)
    import jinja2

    f = os.path.realpath(jinja2.__file__)
    if not f.startswith(os.path.realpath(REPO_SRC) + os.sep):
        raise SystemExit(f"jinja2 imported from {f}, not from {REPO_SRC}")
    return jinja2


def h8(obj) -> str:
    if not isinstance(obj, (str, bytes)):
        obj = json.dumps(obj, sort_keys=True, default=repr)
    if isinstance(obj, str):
        obj = obj.encode("utf-8", "surrogatepass")
    return hashlib.blake2b(obj, digest_size=8).hexdigest()


def jsonable(o, depth=0):
    """Best-effort conversion of a case to JSON (repr for the rest)."""
    if depth > 80:
        return repr(o)
    if o is None or isinstance(o, (bool, int, str)):
        if isinstance(o, int) and not isinstance(o, bool) and abs(o) > 2**62:
            return repr(o)
        if isinstance(o, str):
            try:
                o.encode("utf-8")
            except UnicodeEncodeError:
                return {"$surrogate": o.encode("utf-8", "surrogatepass").hex()}
        return o
    if isinstance(o, float):
        if o != o or o in (float("inf"), float("-inf")):
            return repr(o)
        return o
    if isinstance(o, (list, tuple)):
        return [jsonable(x, depth + 1) for x in o]
    if isinstance(o, dict):
        return {str(k): jsonable(v, depth + 1) for k, v in o.items()}
    return repr(o)


class Ctx:
    """Per-shard accumulator handed to a check's run()."""

    MAX_SAMPLES = 6
    MAX_VIOL = 40

    def __init__(self, pid, tier, seed, shard, nshards, budget_s):
        self.pid = pid
        self.tier = tier
        self.seed = seed
        self.shard = shard
        self.nshards = nshards
        self.budget_s = budget_s
        self.t0 = time.monotonic()
        self.evaluations = 0
        self.distinct = set()
        self.samples = []
        self.counters = {}
        self.violations = []
        self.nviol = 0
        self.inconclusive = []
        self.exhaustive = None
        self.extra = {}

    # ---- randomness -----------------------------------------------------
    def rng(self, stream="") -> random.Random:
        return random.Random(f"{self.seed}:{self.pid}:{self.shard}:{stream}")

    def rng_global(self, stream="") -> random.Random:
        """Same stream in every shard (for shared case lists)."""
        return random.Random(f"{self.seed}:{self.pid}:{stream}")

    def mine(self, i) -> bool:
        """Static partition of an enumerated space over shards."""
        return i % self.nshards == self.shard

    # ---- time box -------------------------------------------------------
    def elapsed(self):
        return time.monotonic() - self.t0

    def more(self, i, n_max, floor=0):
        """Loop guard: run up to n_max cases; stop at the soft deadline once
        at least `floor` cases have been done."""
        if i >= n_max:
            return False
        if i >= floor and self.elapsed() > self.budget_s:
            self.count("timeboxed_stop")
            return False
        return True

    def out_of_time(self):
        return self.elapsed() > self.budget_s

    # ---- recording ------------------------------------------------------
    def ev(self, n=1):
        self.evaluations += n

    def dist(self, key):
        self.distinct.add(h8(key))

    def sample(self, obj, force=False):
        if force or len(self.samples) < self.MAX_SAMPLES:
            self.samples.append(jsonable(obj))

    def count(self, name, n=1):
        self.counters[name] = self.counters.get(name, 0) + n

    def violation(self, key, what, case):
        """key: mechanism identifier used for known-finding classification."""
        self.nviol += 1
        if len(self.violations) < self.MAX_VIOL or not any(
            v["key"] == key for v in self.violations
        ):
            self.violations.append(
                {"key": key, "what": what, "case": jsonable(case)}
            )

    def inconc(self, reason):
        self.inconclusive.append(str(reason))

    def dump(self):
        return {
            "evaluations": self.evaluations,
            "distinct": sorted(self.distinct),
            "samples": self.samples,
            "counters": self.counters,
            "violations": self.violations,
            "nviol": self.nviol,
            "inconclusive": self.inconclusive,
            "exhaustive": self.exhaustive,
            "extra": self.extra,
            "wall": self.elapsed(),
        }


def load_known():
    out = []
    try:
        with open(KNOWN) as f:
            out.extend(json.load(f).get("findings", []))
    except FileNotFoundError:
        pass
    d = os.path.join(VERIF, "known_findings.d")
    if os.path.isdir(d):
        for fn in sorted(os.listdir(d)):
            if fn.endswith(".json"):
                with open(os.path.join(d, fn)) as f:
                    out.extend(json.load(f).get("findings", []))
    return out


def child_env():
    env = dict(os.environ)
    env["PYTHONDONTWRITEBYTECODE"] = "1"
    env.setdefault("PYTHONHASHSEED", "0")
    pp = [VERIF, REPO_SRC]
    if os.path.isdir(DEPS):
        pp.append(DEPS)
    if env.get("PYTHONPATH"):
        pp.append(env["PYTHONPATH"])
    env["PYTHONPATH"] = os.pathsep.join(pp)
    env["PIP_NO_INDEX"] = "1"
    return env


def run_shards(mod, tier, seed, only_shard=None):
    """Run all shards as child processes (never multiprocessing.Pool) and
    merge their dumps."""
    import tempfile

    nsh = mod.NSHARDS.get(tier, 16) if isinstance(mod.NSHARDS, dict) else mod.NSHARDS
    budget = mod.BUDGET_S[tier]
    hard = getattr(mod, "HARD_TIMEOUT_S", {}).get(tier, budget * 6 + 120)
    par = min(nsh, int(os.environ.get("VT_PAR", os.cpu_count() or 4)))
    tmpd = tempfile.mkdtemp(prefix="vt_")
    pend = list(range(nsh)) if only_shard is None else [only_shard]
    running = {}
    dumps = {}
    problems = []
    try:
        while pend or running:
            while pend and len(running) < par:
                i = pend.pop(0)
                out = os.path.join(tmpd, f"s{i}.json")
                cmd = [PY] + list(getattr(mod, "PYFLAGS", [])) + [
                    "-m", "vt.check", mod.PID, "--tier", tier, "--shard", str(i),
                    "--nshards", str(nsh), "--out", out, "--seed", str(seed),
                ]
                logf = open(os.path.join(tmpd, f"s{i}.log"), "wb")
                p = subprocess.Popen(cmd, cwd=VERIF, env=child_env(),
                                     stdout=logf, stderr=subprocess.STDOUT)
                running[i] = (p, out, logf, time.monotonic())
            time.sleep(0.05)
            for i in list(running):
                p, out, logf, t0 = running[i]
                rc = p.poll()
                if rc is None:
                    if time.monotonic() - t0 > hard:
                        p.kill()
                        p.wait()
                        logf.close()
                        problems.append(f"shard {i}: watchdog after {hard}s")
                        del running[i]
                    continue
                logf.close()
                del running[i]
                try:
                    with open(out) as f:
                        dumps[i] = json.load(f)
                except Exception:
                    with open(os.path.join(tmpd, f"s{i}.log"), "rb") as f:
                        tail = f.read()[-1500:].decode("utf-8", "replace")
                    problems.append(f"shard {i}: rc={rc} no result; log tail: {tail}")
    finally:
        import shutil

        shutil.rmtree(tmpd, ignore_errors=True)
    return nsh, dumps, problems


def merge(dumps):
    m = {
        "evaluations": 0, "distinct": set(), "samples": [], "counters": {},
        "violations": [], "nviol": 0, "inconclusive": [], "exhaustive": None,
        "extra": {},
    }
    ex = []
    for i in sorted(dumps):
        d = dumps[i]
        m["evaluations"] += d["evaluations"]
        m["distinct"].update(d["distinct"])
        for s in d["samples"]:
            if len(m["samples"]) < 8:
                m["samples"].append(s)
        for k, v in d["counters"].items():
            m["counters"][k] = m["counters"].get(k, 0) + v
        m["violations"].extend(d["violations"])
        m["nviol"] += d["nviol"]
        m["inconclusive"].extend(d["inconclusive"])
        ex.append(d["exhaustive"])
        for k, v in d["extra"].items():
            if isinstance(v, (int, float)) and isinstance(m["extra"].get(k, 0), (int, float)):
                m["extra"][k] = m["extra"].get(k, 0) + v
            else:
                m["extra"].setdefault(k, v)
    if ex and all(e is True for e in ex):
        m["exhaustive"] = True
    return m


def finish(mod, tier, seed, m, problems, wall):
    """Classify, write evidence, print verdict lines, return exit code."""
    pid = mod.PID
    known = [k for k in load_known() if k["property"] == pid]
    known_open = {k["key"]: k for k in known if k.get("status") == "known"}
    os.makedirs(REPLAY_DIR, exist_ok=True)
    for fn in os.listdir(REPLAY_DIR):
        if fn.startswith(pid + "_"):
            os.remove(os.path.join(REPLAY_DIR, fn))
    new_viol = []
    hits = {}
    for v in m["violations"]:
        if v["key"] in known_open:
            hits.setdefault(v["key"], v)
        else:
            new_viol.append(v)
    lines = []
    for key, v in sorted(hits.items()):
        lines.append(f"KNOWN-FINDING: property={pid} {key}: {known_open[key]['what'][:260]}")
    seen_keys = set()
    nrep = 0
    for v in new_viol:
        if v["key"] in seen_keys and nrep >= 5:
            continue
        seen_keys.add(v["key"])
        path = os.path.join(REPLAY_DIR, f"{pid}_{nrep}.json")
        with open(path, "w") as f:
            json.dump({"property": pid, "tier": tier, "seed": seed, **v}, f, indent=1)
        lines.append(f"VIOLATION property={pid} replay={path}")
        lines.append(f"  key={v['key']} what={v['what'][:600]}")
        nrep += 1
        if nrep >= 12:
            break
    floors = getattr(mod, "FLOORS", {})
    fl = floors.get(tier, floors) if "quick" in floors else floors
    inconc = list(m["inconclusive"]) + list(problems)
    if m["evaluations"] < fl.get("evaluations", 1):
        inconc.append(f"evaluations {m['evaluations']} < floor {fl.get('evaluations', 1)}")
    if len(m["distinct"]) < fl.get("distinct", 2):
        inconc.append(f"distinct {len(m['distinct'])} < floor {fl.get('distinct', 2)}")
    for k, need in fl.get("counters", {}).items():
        if m["counters"].get(k, 0) < need:
            inconc.append(f"monitor counter {k}={m['counters'].get(k, 0)} < floor {need}")
    cov = {
        "evaluations": m["evaluations"],
        "distinct_nontrivial": len(m["distinct"]),
        "rule": mod.RULE,
        "samples": m["samples"] or ["<none>"],
        "monitor_counters": dict(sorted(m["counters"].items())),
        "known_finding_hits": sorted(hits),
        "inconclusive": inconc,
    }
    if m["exhaustive"]:
        cov["exhaustive"] = True
    cov.update(m["extra"])
    if getattr(mod, "LEVEL", "exploration") == "other":
        cov["explanation"] = mod.RULE
    ev = {
        "property_id": pid,
        "tier": tier,
        "seed": seed,
        "level": getattr(mod, "LEVEL", "exploration"),
        "coverage": cov,
        "assumptions": list(getattr(mod, "ASSUMPTIONS", [])),
        "wall_s": round(wall, 2),
        "violations": len(new_viol),
    }
    evdir = EVIDENCE
    if os.environ.get("VT_NOEVIDENCE"):
        # mutation self-tests against a scratch worktree must not overwrite
        # the evidence of the real tree
        import tempfile
        evdir = tempfile.mkdtemp(prefix="vt_ev_")
    os.makedirs(evdir, exist_ok=True)
    tmp = os.path.join(evdir, f".{pid}.json.tmp")
    with open(tmp, "w") as f:
        json.dump(ev, f, indent=1, sort_keys=True)
        f.write("\n")
    os.replace(tmp, os.path.join(evdir, f"{pid}.json"))
    if evdir != EVIDENCE:
        import shutil
        shutil.rmtree(evdir, ignore_errors=True)
    for ln in lines:
        print(ln)
    if new_viol:
        print(f"RESULT property={pid} violated ({m['nviol']} raw violation records, "
              f"{len(seen_keys)} new mechanism keys)")
        return 1
    if inconc:
        for r in inconc[:10]:
            print(f"INCONCLUSIVE property={pid} reason={r[:800]}")
        return 2
    print(f"RESULT property={pid} held: evaluations={m['evaluations']} "
          f"distinct={len(m['distinct'])} known={len(hits)} wall={wall:.1f}s "
          f"counters={json.dumps(cov['monitor_counters'])[:600]}")
    return 0


def run_worker(mod, tier, seed, shard, nshards, out):
    import faulthandler

    faulthandler.enable()
    ensure_repo()
    ctx = Ctx(mod.PID, tier, seed, shard, nshards, mod.BUDGET_S[tier])
    try:
        mod.run(ctx)
    except BaseException:
        ctx.inconc("worker crashed: " + traceback.format_exc()[-1500:])
    with open(out, "w") as f:
        json.dump(ctx.dump(), f)
