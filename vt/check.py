"""CLI: python -m vt.check <ID> --tier quick|thorough [--replay file]"""
from __future__ import annotations

import argparse
import importlib
import json
import os
import sys
import time

from . import core


def main(argv=None):
    ap = argparse.ArgumentParser()
    ap.add_argument("pid")
    ap.add_argument("--tier", default=os.environ.get("VERIF_TIER", "quick"),
                    choices=["quick", "thorough"])
    ap.add_argument("--seed", type=int, default=None)
    ap.add_argument("--shard", type=int, default=None)
    ap.add_argument("--nshards", type=int, default=None)
    ap.add_argument("--out", default=None)
    ap.add_argument("--replay", default=None)
    ap.add_argument("--inline", action="store_true",
                    help="run shard 0 of 1 in this process (debugging)")
    a = ap.parse_args(argv)
    seed = a.seed if a.seed is not None else int(os.environ.get("VERIF_SEED", "0") or 0)
    pid = a.pid.upper()
    if core.VERIF not in sys.path:
        sys.path.insert(0, core.VERIF)
    if os.path.isdir(core.DEPS) and core.DEPS not in sys.path:
        sys.path.append(core.DEPS)
    mod = importlib.import_module(f"vt.checks.{pid.lower()}")

    if a.replay:
        core.ensure_repo()
        with open(a.replay) as f:
            rec = json.load(f)
        if not hasattr(mod, "replay"):
            print("this check has no single-case replay; re-run with "
                  f"VERIF_SEED={rec.get('seed')} --tier {rec.get('tier')}")
            return 2
        ctx = core.Ctx(pid, rec.get("tier", "quick"), rec.get("seed", 0), 0, 1, 1e9)
        mod.replay(ctx, rec["case"])
        if ctx.violations:
            for v in ctx.violations:
                print(f"VIOLATION property={pid} replay={a.replay}")
                print(f"  key={v['key']} what={v['what'][:2000]}")
            return 1
        print(f"replay: no violation reproduced for property={pid}")
        return 0

    if a.out is not None:  # worker mode
        core.run_worker(mod, a.tier, seed, a.shard, a.nshards, a.out)
        return 0

    t0 = time.monotonic()
    if a.inline:
        core.ensure_repo()
        ctx = core.Ctx(pid, a.tier, seed, 0, 1, mod.BUDGET_S[a.tier])
        mod.run(ctx)
        dumps, problems = {0: json.loads(json.dumps(ctx.dump()))}, []
    else:
        _, dumps, problems = core.run_shards(mod, a.tier, seed, a.shard)
    m = core.merge(dumps)
    return core.finish(mod, a.tier, seed, m, problems, time.monotonic() - t0)


if __name__ == "__main__":
    sys.exit(main())
