"""setup_cmd: offline install of the contract libraries beside the repo's
interpreter (optional: checks degrade to hand-written invariants without
them) and a sanity check that jinja2 comes from /repo/src."""
import os
import subprocess
import sys

from . import core


def main():
    if not os.path.isdir(os.path.join(core.DEPS, "icontract")):
        r = subprocess.run(
            [core.PY, "-m", "pip", "install", "--quiet", "--no-index", "--find-links",
             "/opt/veriftools/wheels", "--target", core.DEPS, "icontract", "asttokens",
             "typing_extensions"],
            capture_output=True, text=True)
        print("pip:", r.returncode, (r.stdout + r.stderr)[-400:])
    j = core.ensure_repo()
    print("jinja2 from", j.__file__)
    os.makedirs(core.EVIDENCE, exist_ok=True)
    return 0


if __name__ == "__main__":
    sys.exit(main())
