"""Helpers shared by checks: environments, outcome capture, comparisons."""
from __future__ import annotations

import asyncio
import math


def make_envs(kinds, **kw):
    """name -> Environment for the requested kinds."""
    import jinja2
    from jinja2.sandbox import ImmutableSandboxedEnvironment, SandboxedEnvironment

    out = {}
    for k in kinds:
        if k == "default":
            out[k] = jinja2.Environment(**kw)
        elif k == "unopt":
            out[k] = jinja2.Environment(optimized=False, **kw)
        elif k == "async":
            out[k] = jinja2.Environment(enable_async=True, **kw)
        elif k == "sandbox":
            out[k] = SandboxedEnvironment(**kw)
        elif k == "immutable":
            out[k] = ImmutableSandboxedEnvironment(**kw)
        elif k == "sandbox_async":
            out[k] = SandboxedEnvironment(enable_async=True, **kw)
        else:
            raise ValueError(k)
    return out


class Outcome:
    """Result of an execution: value or exception."""

    __slots__ = ("ok", "value", "exc")

    def __init__(self, ok, value=None, exc=None):
        self.ok, self.value, self.exc = ok, value, exc

    def __repr__(self):
        if self.ok:
            return f"ok:{self.value!r}"
        return f"exc:{type(self.exc).__name__}:{str(self.exc)[:200]}"

    def exc_names(self):
        return [c.__name__ for c in type(self.exc).__mro__]


def capture(fn, *a, **k):
    try:
        return Outcome(True, fn(*a, **k))
    except RecursionError as e:
        return Outcome(False, exc=e)
    except Exception as e:
        return Outcome(False, exc=e)


def model_exc_name(exc):
    from vt.model.interp import ModelError

    if isinstance(exc, ModelError):
        return exc.cls
    return type(exc).__name__


def same_error(model_exc, engine_exc):
    """Engine exception is of (a subclass of) the class the model names."""
    return model_exc_name(model_exc) in [c.__name__ for c in type(engine_exc).__mro__]


def struct_eq(a, b):
    """Structural equality with type (1 != True, 1 != 1.0)."""
    from vt.model.interp import Undef

    if isinstance(a, Undef):
        a = None
    if isinstance(b, Undef):
        b = None
    ta, tb = type(a), type(b)
    if isinstance(a, str) and isinstance(b, str):
        return str(a) == str(b) and (hasattr(a, "__html__") == hasattr(b, "__html__"))
    if ta is not tb:
        return False
    if isinstance(a, float):
        return a == b or (math.isnan(a) and math.isnan(b))
    if isinstance(a, (list, tuple)):
        return len(a) == len(b) and all(struct_eq(x, y) for x, y in zip(a, b))
    if isinstance(a, dict):
        return list(a.keys()) == list(b.keys()) and all(struct_eq(a[k], b[k]) for k in a)
    try:
        return a == b
    except Exception:
        return a is b


def run_async(coro):
    loop = asyncio.new_event_loop()
    try:
        return loop.run_until_complete(coro)
    finally:
        try:
            loop.run_until_complete(loop.shutdown_asyncgens())
        finally:
            loop.close()
