"""C36 workload: generated template *sets* for async rendering (blocks, extends
chains, includes, imports, macros / call blocks, loop filters, nested and
recursive loops, scoped blocks in loops, set / filter blocks, break / continue)
plus the data object whose callables / iterables suspend, count and fault.

Template data protocol (all are environment globals bound to one ``Data``):

    af(tag)        async callable: one data event, one suspension
    sf(tag)        sync callable: one data event
    ok(x)          sync predicate (data event)      x % 3 != 0
    aok(x)         async predicate (event + suspension)   x != 2
    brk(x, f)      sync predicate used right before {% break %}; f=1 when the
                   innermost enclosing loop has a filter
    xs             list of ints
    mk_axs(n)      sync callable returning a class-based async iterable 1..n
                   (each __anext__: event + suspension)
    agen(n)        *data* async generator 1..n (event + suspension per item)
    tree           nested dicts for recursive loops
    layout, flag   for dynamic / conditional extends
    mk(kind, src)  an iterable of the given KIND over 1..src (int) or over the
                   sequence src (n.kids, pairs, ...); kinds (KINDS below):
                     sgen    sync generator object             (event per item)
                     sit     iterator object (__iter__ -> self, __next__)
                     sobj    object with __iter__ only, returning a list iterator
                     sgobj   object whose __iter__ is a generator function
                     agen    data async generator              (event + suspension)
                     aiter   async iterator, __aiter__ -> self, no aclose()
                     aobj    object whose __aiter__ returns a new async iterator
                     agobj   object whose __aiter__ is an async generator function
                     wgen    sync generator wrapped by user code in an async
                             generator that closes it in a finally
                   every object made is registered in Data.iterables
    pairs          [(1, 2), (3, 4), (5, 6)]
    gpairs(kind)   list of three 2-item iterables of a sync kind (unpacked by
                   ``for a, b in``)
"""
from __future__ import annotations

import asyncio

from .c36_agen import Suspend


class Boom(Exception):
    pass


class _AIter:
    def __init__(self, d, n):
        self.d, self.n, self.i = d, n, 0

    def __aiter__(self):
        return self

    async def __anext__(self):
        self.d._event()
        await self.d._suspend()
        self.i += 1
        if self.i > self.n:
            raise StopAsyncIteration
        return self.i


class _SIter:
    def __init__(self, d, seq):
        self.d, self.it = d, iter(seq)

    def __iter__(self):
        return self

    def __next__(self):
        self.d._event()
        return next(self.it)


class _SObj:
    def __init__(self, d, seq):
        self.d, self.seq = d, seq

    def __iter__(self):
        return iter(self.seq)


class _SGObj:
    def __init__(self, d, seq):
        self.d, self.seq = d, seq

    def __iter__(self):
        g = self._gen()
        self.d.iterables.append(("sgobj.__iter__()", g))
        return g

    def _gen(self):
        for x in self.seq:
            self.d._event()
            yield x


class _AIterSeq:
    def __init__(self, d, seq):
        self.d, self.it = d, iter(seq)

    def __aiter__(self):
        return self

    async def __anext__(self):
        self.d._event()
        await self.d._suspend()
        try:
            return next(self.it)
        except StopIteration:
            raise StopAsyncIteration from None


class _AObj:
    def __init__(self, d, seq):
        self.d, self.seq = d, seq

    def __aiter__(self):
        return _AIterSeq(self.d, self.seq)


class _AGObj:
    def __init__(self, d, seq):
        self.d, self.seq = d, seq

    async def __aiter__(self):
        for x in self.seq:
            self.d._event()
            await self.d._suspend()
            yield x


SYNC_KINDS = ["sgen", "sit", "sobj", "sgobj"]
ASYNC_KINDS = ["agen", "aiter", "aobj", "agobj", "wgen"]
KINDS = SYNC_KINDS + ASYNC_KINDS
KIND_TEXT = {"sgen": "sync-generator", "sit": "sync-iterator", "sobj": "iter-only-object",
             "sgobj": "object-with-generator-__iter__", "sgobj.__iter__()": "sync-generator",
             "agen": "async-generator", "aiter": "async-iterator-without-aclose",
             "aobj": "aiter-only-object", "agobj": "object-with-asyncgen-__aiter__",
             "wgen": "user-wrapped-sync-generator", "wgen.inner": "sync-generator"}


class Data:
    def __init__(self, params):
        self.params = params
        self.on_break = None
        self.reset()

    def reset(self, raise_at=None, cancel_at=None, real=False):
        self.calls = 0
        self.susp = 0
        self.raise_at = raise_at
        self.cancel_at = cancel_at
        self.real = real
        self.boom = None
        self.breaks = 0
        # (kind, object) of every iterable made by mk() in this run; the strong
        # references keep them alive until the next reset (after the census)
        self.iterables = []

    def _event(self):
        self.calls += 1
        if self.calls == self.raise_at:
            self.boom = Boom(self.calls)
            raise self.boom

    async def _suspend(self):
        self.susp += 1
        if self.real and self.susp == self.cancel_at:
            asyncio.current_task().cancel()
        await Suspend()

    # ---- template-visible API
    async def af(self, tag):
        self._event()
        await self._suspend()
        return f"<{tag}>"

    def sf(self, tag):
        self._event()
        return f"({tag})"

    def ok(self, x):
        self._event()
        return x % 3 != 0

    async def aok(self, x):
        self._event()
        await self._suspend()
        return x != 2

    def brk(self, x, filtered):
        self._event()
        r = x >= self.params["brk_at"]
        if r:
            self.breaks += 1
            if filtered and self.on_break is not None:
                self.on_break()
        return r

    def mk_axs(self, n):
        self._event()
        return _AIter(self, n)

    async def agen(self, n):
        for i in range(1, n + 1):
            self._event()
            await self._suspend()
            yield i

    # ---- iterables of every kind
    def _sgen(self, seq):
        for x in seq:
            self._event()
            yield x

    async def _agen(self, seq):
        for x in seq:
            self._event()
            await self._suspend()
            yield x

    async def _wgen(self, g):
        # what user code does to hand a generator to an async consumer
        try:
            for x in g:
                await self._suspend()
                yield x
        finally:
            g.close()

    def mk(self, kind, src):
        seq = list(range(1, src + 1)) if isinstance(src, int) else list(src)
        if kind == "sgen":
            o = self._sgen(seq)
        elif kind == "sit":
            o = _SIter(self, seq)
        elif kind == "sobj":
            o = _SObj(self, seq)
        elif kind == "sgobj":
            o = _SGObj(self, seq)
        elif kind == "agen":
            o = self._agen(seq)
        elif kind == "aiter":
            o = _AIterSeq(self, seq)
        elif kind == "aobj":
            o = _AObj(self, seq)
        elif kind == "agobj":
            o = _AGObj(self, seq)
        elif kind == "wgen":
            g = self._sgen(seq)
            self.iterables.append(("wgen.inner", g))
            o = self._wgen(g)
        else:
            raise AssertionError(kind)
        self.iterables.append((kind, o))
        return o

    def gpairs(self, kind):
        return [self.mk(kind, [i, i + 1]) for i in (1, 3, 5)]

    def globals(self):
        p = self.params
        return {
            "mk": self.mk, "gpairs": self.gpairs, "pairs": [(1, 2), (3, 4), (5, 6)],
            "af": self.af, "sf": self.sf, "ok": self.ok, "aok": self.aok,
            "brk": self.brk, "mk_axs": self.mk_axs, "agen": self.agen,
            "xs": list(range(1, p["n"] + 1)), "tree": p["tree"],
            "layout": p["layout"], "flag": True,
            "incname": "inc.j2", "nonename": "nope.j2",
        }


TREE = [{"v": 1, "kids": [{"v": 2, "kids": []}, {"v": 4, "kids": [{"v": 7, "kids": []}]}]},
        {"v": 3, "kids": []}, {"v": 5, "kids": []}]


class G:
    def __init__(self, rng, loopcontrols=True):
        self.r = rng
        self.n = 0
        self.lc = loopcontrols
        self.budget = 0
        self.has_filter = False
        self.block_n = 0
        self.sites = {}

    # -- iterables: one of every KIND at every iteration site
    def iterable(self, site, src="3", sync_only=False, classic=True):
        """An iterable expression for iteration site ``site`` (counted in
        self.sites as 'site:kind').  classic: the list / range / filter-pipeline
        / agen() / mk_axs() expressions of the original workload."""
        r = self.r
        if classic and r.random() < 0.4:
            pool = ["xs", "range(1, 5)"] if sync_only else \
                ["xs", "xs", "mk_axs(3)", "agen(3)", "range(1, 5)", "xs|reject('even')", "mk_axs(4)"]
            e = r.choice(pool)
            kind = {"xs": "list", "range(1, 5)": "range", "agen(3)": "agen",
                    "xs|reject('even')": "filter-result"}.get(e, "aiter")
        else:
            kind = r.choice(SYNC_KINDS if sync_only else KINDS)
            e = "mk('%s', %s)" % (kind, src)
        k = site + ":" + kind
        self.sites[k] = self.sites.get(k, 0) + 1
        self.sites["kind:" + kind] = self.sites.get("kind:" + kind, 0) + 1
        return e

    def iterating_expr(self):
        """An expression statement whose filters / tests / targets iterate."""
        r = self.r
        c = r.randrange(16)
        anyk = [  # filters with an async variant: every kind
            "{{ IT|map('string')|join(',') }}", "{{ IT|select('odd')|list|length }}",
            "{{ IT|list|sum }}", "{{ IT|sum }}", "{{ IT|first }}", "{{ IT|join('-') }}",
            "{{ IT|unique|list|length }}", "{{ IT|slice(2)|list|length }}",
            "{{ IT|reject('even')|first }}", "{{ IT|map('string')|first }}",
            "{{ IT|select('odd')|map('string')|join }}", "{{ IT|groupby('real')|list|length }}"]
        synck = [  # Python-level iteration: sync kinds only
            "{{ IT|batch(2)|list|length }}", "{{ IT|sort|join }}", "{{ IT|max }}",
            "{{ IT|reverse|list|length }}", "{{ IT|batch(2)|first|length }}"]
        if c <= 5:
            return r.choice(anyk).replace("IT", self.iterable("filter"))
        if c <= 7:
            return r.choice(synck).replace(
                "IT", self.iterable("filter-sync", sync_only=True, classic=False))
        if c <= 9:
            return r.choice(["{{ 2 in IT }}", "{% if 9 in IT %}Y{% else %}N{% endif %}",
                             "{{ 1 not in IT }}"]).replace(
                "IT", self.iterable("in-test", sync_only=True, classic=False))
        if c <= 11:
            return "{% set ua, ub = IT %}{{ ua }}{{ af(ub) }}".replace(
                "IT", self.iterable("unpack-set", "2", sync_only=True, classic=False))
        if c <= 13:
            return "{% for ua, ub in IT %}{{ ua }}{{ af(ub) }}{% endfor %}".replace(
                "IT", self.iterable("unpack-for", "pairs", classic=False))
        if c == 14:
            kind = r.choice(SYNC_KINDS)
            k = "unpack-items:" + kind
            self.sites[k] = self.sites.get(k, 0) + 1
            return "{% for ua, ub in gpairs('" + kind + "') %}{{ af(ua) }}{{ ub }}{% endfor %}"
        return "{% with w = af('" + self.tag() + "') %}{{ w }}{% endwith %}"

    def tag(self):
        self.n += 1
        return f"t{self.n}"

    # -- leaves
    def leaf(self, lv):
        r = self.r
        c = r.randrange(6)
        if c == 0:
            return f"T{self.tag()}"
        if c == 1:
            return "{{ af('%s') }}" % self.tag()
        if c == 2:
            return "{{ sf('%s') }}" % self.tag()
        if c == 3 and lv:
            return "{{ af(%s) }}" % r.choice(lv)
        if c == 4 and lv:
            return "{{ %s }}" % r.choice(lv)
        return "{{ af('%s') }}" % self.tag()

    def body(self, depth, lv, nitems=None, filt=0):
        """A statement list.  ``filt`` tells whether the innermost enclosing
        loop has a filter (for brk())."""
        r = self.r
        out = []
        nitems = nitems if nitems is not None else r.randint(1, 3)
        for _ in range(nitems):
            if self.budget <= 0 or depth <= 0:
                out.append(self.leaf(lv))
                continue
            self.budget -= 1
            c = r.randrange(14)
            if c <= 3:
                out.append(self.forloop(depth, lv))
            elif c == 4:
                out.append(self.recursive())
            elif c == 5:
                out.append("{% if af('" + self.tag() + "') %}" + self.body(depth - 1, lv, 1, filt)
                           + "{% else %}E{% endif %}")
            elif c == 6:
                out.append(self.macro(depth, lv))
            elif c == 7:
                out.append(r.choice(self.includes))
            elif c == 8:
                out.append(r.choice(self.lib_calls) % (r.choice(lv) if lv else 2))
            elif c == 9:
                v = "s" + self.tag()
                out.append("{% set " + v + " %}" + self.body(depth - 1, lv, 1, filt)
                           + "{% endset %}[{{ " + v + " }}]")
            elif c == 10:
                out.append("{% filter upper %}" + self.body(depth - 1, lv, 1, filt)
                           + "{% endfilter %}")
            elif c in (11, 12):
                out.append(self.iterating_expr())
            else:
                out.append(self.leaf(lv))
        return "".join(out)

    def forloop(self, depth, lv):
        r = self.r
        v = f"x{len(lv)}"
        cond = r.choice([f"ok({v})", f"aok({v})", f"{v} is odd", f"{v} != 2",
                         f"ok({v})", f"aok({v})", None, None])
        it = self.iterable("for-if" if cond else "for", r.choice(["3", "4"]))
        filt = 1 if cond else 0
        if cond:
            self.has_filter = True
        brk = "{% if brk(" + v + ", %d) %%}{%% break %%}{%% endif %%}" % filt
        brk_pos = r.choice(["first", "last"]) if (self.lc and r.random() < 0.35) else None
        parts = []
        if self.lc and r.random() < 0.15:
            parts.append("{% if " + v + " == 2 %}{% continue %}{% endif %}")
        if r.random() < 0.4:
            # attributes that look ahead / exhaust the iterable are kept out of
            # loops that break, so that "the loop's own filter generator" is
            # unambiguous for the break bookkeeping of the check
            safe = ["{{ loop.index }}", "{{ loop.first }}", "{{ loop.cycle('a', 'b') }}"]
            peek = ["{{ loop.last }}", "{{ loop.length }}", "{{ loop.revindex0 }}",
                    "{{ loop.nextitem }}"]
            parts.append(r.choice(safe if brk_pos else safe + peek))
        if self.allow_blocks and r.random() < 0.2 and depth >= 1:
            self.block_n += 1
            # a scoped block inside the loop (forces an extended loop)
            parts.append("{% block sc" + str(self.block_n) + self.suffix + " scoped %}"
                         + self.body(0, lv + [v], 1, filt) + "{% endblock %}")
        parts.append(self.body(depth - 1, lv + [v], None, filt))
        if r.random() < 0.3:
            r.shuffle(parts)
        if brk_pos == "first":
            parts.insert(0, brk)
        elif brk_pos == "last":
            parts.append(brk)
        s = "{% for " + v + " in " + it + (" if " + cond if cond else "") + " %}" + "".join(parts)
        if r.random() < 0.25:
            s += "{% else %}none"
            self.sites["for-else"] = self.sites.get("for-else", 0) + 1
        return s + "{% endfor %}"

    def recursive(self):
        r = self.r
        cond = r.choice(["ok(n.v)", "aok(n.v)", "n.v != 4"])
        self.has_filter = True
        inner = r.choice(["{{ af(n.v) }}", "{{ n.v }}", "{{ sf(n.v) }}{{ loop.depth }}"])
        if r.random() < 0.35:
            top, kids = "tree", "n.kids"
            self.sites["recursive:list"] = self.sites.get("recursive:list", 0) + 1
        else:
            top = self.iterable("recursive", "tree", classic=False)
            kids = self.iterable("recursive-kids", "n.kids", classic=False)
        if r.random() < 0.25:
            cond = None
        return ("{% for n in " + top + (" if " + cond if cond else "") + " recursive %}" + inner
                + "{% if n.kids %}({{ loop(" + kids + ") }}){% endif %}{% endfor %}")

    def macro(self, depth, lv):
        r = self.r
        name = "m" + self.tag()
        ab, self.allow_blocks = self.allow_blocks, False
        body = self.body(depth - 1, ["a"], None, 0)
        self.allow_blocks = ab
        src = ("{% macro " + name + "(a) %}" + body
               + "{% if caller %}{{ caller() }}{% endif %}{% endmacro %}")
        arg = r.choice(lv) if lv else str(r.randint(1, 4))
        if r.random() < 0.5:
            return src + "{{ " + name + "(" + arg + ") }}"
        return (src + "{% call " + name + "(" + arg + ") %}" + self.body(depth - 1, lv, 1, 0)
                + "{% endcall %}")

    # -- template set
    def make(self):
        r = self.r
        tpls = {}
        roles = {}
        # include statements: every target form x every modifier combination.
        # Missing targets only together with ``ignore missing`` (otherwise the
        # clean run raises TemplateNotFound and the set is not a case).
        existing = ["'inc.j2'", "'inc.j2'", "'inc2.j2'", "['nope.j2', 'inc.j2']",
                    "['inc.j2', 'nope.j2']", "incname", "[nonename, incname]"]
        missing = ["'nope.j2'", "['nope.j2', 'nope2.j2']", "nonename"]
        ctxmods = ["", "", " with context", " without context"]
        self.includes = []
        for tgt in existing:
            for ign in ("", " ignore missing"):
                for cm in ctxmods:
                    self.includes.append("{% include " + tgt + ign + cm + " %}")
        for tgt in missing:
            for cm in ctxmods:
                self.includes.append("{% include " + tgt + " ignore missing" + cm + " %}")
        self.lib_calls = ["{{ lib.mac(%s) }}", "{{ mac2(%s) }}",
                          "{%% call lib.wrap(%s) %%}{{ af('cw') }}{%% endcall %%}"]

        def fresh(budget, allow_blocks, suffix):
            self.budget = budget
            self.allow_blocks = allow_blocks
            self.suffix = suffix

        # leaf templates first: they must not include/import anything themselves
        saved = (self.includes, self.lib_calls)
        self.includes, self.lib_calls = ["I"], ["L%s"]
        fresh(3, False, "")
        tpls["inc.j2"] = "<i>" + self.body(2, [], 2) + "</i>"
        roles["inc.j2"] = "include"
        # a second include target that itself includes the leaf (nested
        # include streams, each with its own modifier combination)
        self.includes = [saved[0][i] for i in sorted(r.sample(range(len(saved[0])), 3))
                         if "inc2" not in saved[0][i]] or ["J"]
        fresh(2, False, "")
        tpls["inc2.j2"] = "<j>" + self.leaf([]) + self.body(1, [], 1) + r.choice(self.includes) \
            + self.leaf([]) + "</j>"
        roles["inc2.j2"] = "include"
        self.includes = ["I"]
        fresh(4, False, "")
        tpls["lib.j2"] = (
            ("{% set libv = sf('libtop') %}" if r.random() < 0.5 else "")
            + "{% macro mac(a) %}" + self.body(2, ["a"], 2) + "{% endmacro %}"
            + "{% macro mac2(a) %}" + self.body(1, ["a"], 1) + "{% endmacro %}"
            + "{% macro wrap(a) %}[{{ caller() }}{{ a }}]{% endmacro %}"
            + (self.body(1, [], 1) if r.random() < 0.4 else "")
        )
        roles["lib.j2"] = "import"
        self.includes, self.lib_calls = saved

        imports = ("{% import 'lib.j2' as lib %}"
                   + r.choice(["{% from 'lib.j2' import mac2 %}",
                               "{% from 'lib.j2' import mac2 with context %}"]))
        kind = r.choice(["standalone", "extends", "extends", "chain", "dynamic", "conditional"])

        inner = []

        def blk(name, depth, sup):
            s = "{% block " + name + " %}" + self.body(depth, [], None)
            if sup and r.random() < 0.6:
                s += "{{ super() }}"
            if r.random() < 0.3:
                s += "{% block " + name + "in %}" + self.body(1, [], 1) + "{% endblock %}"
                inner.append(name + "in")
            return s + "{% endblock %}"

        if kind == "standalone":
            fresh(7, True, "m")
            tpls["main.j2"] = (imports + "H" + self.body(2, [], 2) + blk("b1", 2, False)
                               + self.body(2, [], 1) + blk("b2", 2, False)
                               + ("{{ self.b1() }}" if r.random() < 0.5 else "") + "F")
        else:
            fresh(5, True, "b")
            tpls["base.j2"] = (imports + "B0" + self.body(1, [], 1) + blk("b1", 2, False) + "|"
                               + blk("b2", 1, False)
                               + ("{{ self.b2() }}" if r.random() < 0.4 else "") + "B9")
            roles["base.j2"] = "parent"
            parent = "base.j2"
            if kind == "chain":
                fresh(3, True, "c")
                tpls["mid.j2"] = ("{% extends 'base.j2' %}" + imports
                                  + blk(r.choice(["b1", "b2"]), 1, True))
                roles["mid.j2"] = "parent"
                parent = "mid.j2"
            fresh(6, True, "m")
            if kind == "dynamic":
                ext = "{% extends layout %}"
            elif kind == "conditional":
                ext = "pre{% if flag %}{% extends '" + parent + "' %}{% endif %}"
            else:
                ext = "{% extends '" + parent + "' %}"
            over = [b for b in ("b1", "b2") if r.random() < 0.7] or ["b1"]
            tpls["main.j2"] = (ext + imports + "".join(blk(b, 2, True) for b in over)
                               + ("{% block b1in %}" + self.body(1, [], 1) + "{% endblock %}"
                                  if r.random() < 0.2 and "b1in" not in inner[-len(over):]
                                  else ""))
            self.layout = parent
        roles["main.j2"] = "main"
        params = {"n": r.randint(3, 5), "brk_at": r.randint(2, 3), "tree": TREE,
                  "layout": getattr(self, "layout", "base.j2")}
        return {"tpls": tpls, "roles": roles, "main": "main.j2", "params": params,
                "kind": kind, "autoescape": r.random() < 0.3, "cold": r.random() < 0.5,
                "has_filter": self.has_filter, "sites": dict(sorted(self.sites.items()))}


def gen_case(rng):
    return G(rng).make()


# a few fixed, minimal cases that pin each mechanism of the property
FIXED = [
    {"name": "filter-plain",
     "main": "{% for x in xs if ok(x) %}{{ af(x) }}{% endfor %}"},
    {"name": "filter-break",
     "main": "{% for x in xs if x != 9 %}{{ af(x) }}{% if brk(x, 1) %}{% break %}{% endif %}{% endfor %}tail{{ af('z') }}"},
    {"name": "filter-extended",
     "main": "{% for x in mk_axs(4) if aok(x) %}{{ loop.index }}{{ af(x) }}{% endfor %}"},
    {"name": "block-include-extends",
     "main": "{% extends 'base.j2' %}{% block b1 %}{{ af('m') }}{{ super() }}{% include 'inc.j2' %}{% endblock %}",
     "base.j2": "a{% block b1 %}{{ af('b') }}x{{ af('c') }}{% endblock %}z{{ af('d') }}",
     "inc.j2": "i{{ af('i') }}j{{ af('k') }}"},
    {"name": "filter-in-block-in-include",
     "main": "{% include 'inc.j2' %}{% block b %}{% for x in agen(3) if ok(x) %}{{ af(x) }}{% endfor %}{% endblock %}",
     "inc.j2": "{% for x in xs if aok(x) %}{{ x }}{{ af(x) }}{% endfor %}"},
    {"name": "include-modifiers",
     "main": "A{% include 'inc.j2' ignore missing %}B{{ af('m') }}"
             "{% include ['nope.j2', 'inc.j2'] ignore missing with context %}C"
             "{% include 'inc.j2' ignore missing without context %}D"
             "{% include 'nope.j2' ignore missing %}{% include incname %}"
             "{% for x in xs if ok(x) %}{% include [nonename, incname] ignore missing %}{% endfor %}Z",
     "inc.j2": "i{{ af('i') }}j{% for x in xs if aok(x) %}{{ x }}{% endfor %}k{{ sf('k') }}l"},
    {"name": "kinds-for-sync-generator",
     "main": "{% for x in mk('sgen', 4) %}{{ af(x) }}{% endfor %}tail{{ af('z') }}"},
    {"name": "kinds-for-break",
     "main": "{% for x in mk('sgen', 4) %}{{ af(x) }}{% if brk(x, 0) %}{% break %}{% endif %}{% endfor %}"
             "{% for x in mk('sgobj', 4) if ok(x) %}{{ af(x) }}{% if brk(x, 1) %}{% break %}{% endif %}"
             "{% endfor %}{% for x in mk('sit', 3) %}{{ loop.index }}{{ af(x) }}{% else %}none{% endfor %}"
             "tail{{ af('z') }}"},
    {"name": "kinds-filters-tests-unpacking",
     "main": "{{ mk('sgen', 3)|first }}{{ mk('sit', 3)|map('string')|join(',') }}"
             "{{ mk('agobj', 3)|select('odd')|first }}{{ af('e') }}{{ 2 in mk('sgen', 3) }}"
             "{% set ua, ub = mk('sgen', 2) %}{{ ub }}{{ mk('wgen', 3)|list|sum }}"
             "{% for ua, ub in gpairs('sgen') %}{{ af(ua) }}{% endfor %}"
             "{% for ua, ub in mk('aobj', pairs) %}{{ af(ub) }}{% endfor %}{{ mk('sobj', 4)|batch(2)|list|length }}"},
    {"name": "kinds-recursive",
     "main": "{% for n in mk('sgen', tree) if ok(n.v) recursive %}{{ af(n.v) }}"
             "{% if n.kids %}({{ loop(mk('wgen', n.kids)) }}){% endif %}{% endfor %}"
             "{% for n in mk('agobj', tree) recursive %}{{ af(n.v) }}"
             "{% if n.kids %}({{ loop(mk('sgobj', n.kids)) }}){% endif %}{% endfor %}"},
    {"name": "kinds-in-block-include-extends",
     "main": "{% extends 'base.j2' %}{% block b1 %}{% for x in mk('sgen', 3) if aok(x) %}{{ af(x) }}"
             "{% include 'inc.j2' %}{% endfor %}{{ super() }}{% endblock %}",
     "base.j2": "a{% block b1 %}{% for x in mk('aiter', 3) %}{{ af(x) }}{% endfor %}{% endblock %}z{{ af('d') }}",
     "inc.j2": "i{% for y in mk('sgobj', 2) %}{{ af(y) }}{% endfor %}j"},
    {"name": "import-macro-filter",
     "main": "{% import 'lib.j2' as lib %}{{ lib.mac(2) }}{{ af('e') }}",
     "lib.j2": "{% macro mac(a) %}{% for x in xs if ok(x) %}{{ af(a) }}{% endfor %}{% endmacro %}{{ af('top') }}"},
]


def fixed_cases():
    out = []
    for f in FIXED:
        tpls = {"main.j2": f["main"]}
        roles = {"main.j2": "main"}
        for k, role in (("base.j2", "parent"), ("inc.j2", "include"), ("lib.j2", "import")):
            if k in f:
                tpls[k] = f[k]
                roles[k] = role
        out.append({"tpls": tpls, "roles": roles, "main": "main.j2",
                    "params": {"n": 4, "brk_at": 2, "tree": TREE, "layout": "base.j2"},
                    "kind": "fixed:" + f["name"], "autoescape": False, "cold": True,
                    "has_filter": "for" in f["main"] or any("for" in v for v in tpls.values()),
                    "sites": {}})
    return out
