"""C37 workload: every built-in filter in several ARGUMENT FORMS, used by
concurrently rendered templates before and after their await points.

A filter that keeps anything outside its call frame (environment policies, the
environment's filter / test tables, caches at environment or module level) is
only dangerous in the argument forms that touch it, and those are the rarely
used ones: tojson(indent=), truncate(leeway=), urlize(extra_schemes=, target=,
rel=), sort(case_sensitive=), wordwrap(break_long_words=), indent(first=,
blank=) ...  The table below gives, per filter name of ``Environment.filters``,
the expressions of its plain form(s) and of its rare forms over the per-task
data of ``data()``.  A use is printed as ``[F:<filter>/<form>=...]`` and
announces itself to the harness through the ``fuse`` global, so the harness
knows in which order the tasks' uses happened.
"""
from __future__ import annotations

import re

# filter -> ([plain expressions], {rare form name: expression})
TABLE = {
    "abs": (["(0 - xs[0])|abs"], {}),
    "attr": (["(name|attr('upper'))()"], {}),
    "batch": (["xs|batch(2)|list"],
              {"fill_with": "xs|batch(2, fill_with='-')|list",
               "linecount_kw": "xs|batch(linecount=2, fill_with=0)|list"}),
    "capitalize": (["text|capitalize"], {}),
    "center": (["name|center(11)"], {"width_kw": "name|center(width=9)"}),
    "count": (["xs|count"], {}),
    "d": (["nope|d('x')"], {"boolean_positional": "0|d(name, true)"}),
    "default": (["nope|default('x')", "nope|default"],
                {"boolean": "''|default(name, boolean=true)",
                 "default_value_kw": "nope|default(default_value='q', boolean=false)"}),
    "dictsort": (["cnt|dictsort"],
                 {"case_sensitive": "cnt|dictsort(case_sensitive=true)",
                  "by_value": "cnt|dictsort(by='value')",
                  "reverse": "cnt|dictsort(reverse=true)",
                  "positional": "cnt|dictsort(true, 'value', true)"}),
    "e": (["name|e"], {}),
    "escape": (["name|escape"], {}),
    "filesizeformat": (["(xs[0] * 1500)|filesizeformat"],
                       {"binary": "(xs[0] * 1500)|filesizeformat(binary=true)",
                        "binary_positional": "(xs[0] * 2500000)|filesizeformat(true)"}),
    "first": (["xs|first"], {}),
    "float": (["'1.5'|float"], {"default": "'x'|float(default=2.5)"}),
    "forceescape": (["(name|safe)|forceescape"], {}),
    "format": (["'%s-%s'|format(name, 1)"], {"kwargs": "'%(a)s+%(b)s'|format(a=name, b=2)"}),
    "groupby": (["recs|groupby('k')|map('first')|join(',')"],
                {"case_sensitive": "recs|groupby('k', case_sensitive=true)|map('first')|join(',')",
                 "default": "recs|groupby(attribute='q', default='none')|map('first')|join(',')"}),
    "indent": (["ml|indent"],
               {"first": "ml|indent(first=true)", "blank": "ml|indent(blank=true)",
                "width_string": "ml|indent(width='>>')", "positional": "ml|indent(2, true, true)"}),
    "int": (["'12'|int"], {"base": "'0x1f'|int(base=16)", "default": "'z'|int(default=7)"}),
    "items": (["cnt|items|list"], {}),
    "join": (["xs|join(',')", "xs|join"],
             {"attribute": "recs|join('/', attribute='k')",
              "markup_operands": "[name, name|safe]|join(d='+')"}),
    "last": (["xs|last"], {}),
    "length": (["xs|length"], {}),
    "list": (["name|list"], {}),
    "lower": (["name|lower"], {}),
    "map": (["xs|map('string')|join('-')"],
            {"attribute_default": "recs|map(attribute='q', default='?')|join('|')",
             "filter_arguments": "xs|map('center', 3)|join('|')"}),
    "max": (["xs|max"], {"case_sensitive": "ws|max(case_sensitive=true)",
                         "attribute": "(recs|max(attribute='n')).k"}),
    "min": (["xs|min"], {"case_sensitive": "ws|min(case_sensitive=true)",
                         "attribute": "(recs|min(attribute='n')).k"}),
    "pprint": (["doc|pprint"], {}),
    "random": (["[name]|random"], {}),
    "reject": (["xs|reject('odd')|list"],
               {"no_test": "[0, 1, '', name]|reject|list",
                "test_arguments": "xs|reject('divisibleby', 2)|list"}),
    "rejectattr": (["recs|rejectattr('n', 'odd')|map(attribute='k')|join"],
                   {"no_test": "recs|rejectattr('q')|list|length"}),
    "replace": (["name|replace('&', '+')"], {"count": "'aaaa'|replace('a', name, count=2)"}),
    "reverse": (["xs|reverse|list", "name|reverse"], {}),
    "round": (["2.567|round"], {"method": "2.567|round(2, 'floor')",
                                "keywords": "2.567|round(precision=1, method='ceil')"}),
    "safe": (["name|safe"], {}),
    "select": (["xs|select('odd')|list"],
               {"no_test": "[0, 1, '', name]|select|list",
                "test_arguments": "xs|select('divisibleby', 2)|list"}),
    "selectattr": (["recs|selectattr('n', 'gt', 1)|map(attribute='k')|join"],
                   {"no_test": "recs|selectattr('q')|list|length"}),
    "slice": (["xs|slice(2)|list"], {"fill_with": "xs|slice(2, fill_with=0)|list"}),
    "sort": (["ws|sort"],
             {"case_sensitive": "ws|sort(case_sensitive=true)", "reverse": "ws|sort(reverse=true)",
              "attribute": "recs|sort(attribute='k,n')|map(attribute='n')|list"}),
    "string": (["xs[0]|string"], {}),
    "striptags": (["('<b>' ~ name ~ '</b> &amp;  y')|striptags"], {}),
    "sum": (["xs|sum"], {"attribute_start": "recs|sum(attribute='n', start=10)"}),
    "title": (["text|title"], {}),
    "tojson": (["doc|tojson"], {"indent": "doc|tojson(indent=2)",
                                "indent_positional": "doc|tojson(1)"}),
    "trim": (["('  ' ~ name ~ ' ')|trim"], {"chars": "name|trim(chars='<>')"}),
    "truncate": (["text|truncate(30)"],
                 {"leeway": "text|truncate(30, leeway=0)",
                  "positional": "text|truncate(30, true, '~', 2)",
                  "killwords": "text|truncate(length=40, killwords=true)"}),
    "unique": (["ws|unique|list"],
               {"case_sensitive": "ws|unique(case_sensitive=true)|list",
                "attribute": "recs|unique(attribute='k')|map(attribute='n')|list"}),
    "upper": (["name|upper"], {}),
    "urlencode": (["name|urlencode"], {"mapping": "{'a': name, 'b': 1}|urlencode",
                                      "pairs": "[('x', name), ('y', 2)]|urlencode"}),
    "urlize": (["text|urlize"],
               {"extra_schemes": "text|urlize(extra_schemes=['ftp:'])",
                "target": "text|urlize(target='_blank')", "rel": "text|urlize(rel='me')",
                "trim_nofollow": "text|urlize(12, true)"}),
    "wordcount": (["text|wordcount"], {}),
    "wordwrap": (["text|wordwrap(30)"],
                 {"break_long_words": "text|wordwrap(30, break_long_words=false)",
                  "wrapstring": "text|wordwrap(width=20, wrapstring='|')",
                  "break_on_hyphens": "text|wordwrap(30, break_on_hyphens=false)"}),
    "xmlattr": (["{'k': name, 'c': 1}|xmlattr"],
                {"autospace": "{'k': name}|xmlattr(autospace=false)"}),
}

ALL = sorted(TABLE)
WITH_RARE = sorted(f for f in TABLE if TABLE[f][1])
PLAIN = "plain"
SLICE = 8       # filters per forced pair of fragments

# environment-specific policy values a case may configure (fresh objects per environment)
POLICY_VARIANTS = [
    None,       # the defaults (objects shared by every environment of the process)
    {"json.dumps_kwargs": {"sort_keys": True}},
    {"json.dumps_kwargs": {"sort_keys": True}, "truncate.leeway": 2, "urlize.rel": "noopener nofollow"},
    {"json.dumps_kwargs": {"sort_keys": False}, "urlize.target": "_top",
     "urlize.extra_schemes": ["ftp:"]},
]

_USE = re.compile(r"\[F:([a-z]+)/([a-z_]+)=")


def data(name, xs):
    """Per-task template variables the table's expressions read."""
    return {
        "doc": {"b": [1, 2], "a": name, "c": {"z": xs[0], "y": None}},
        "text": ("lorem ipsum dolor-sit http://ex.org/a?b=1&c=2 ftp://h.example/p " + name
                 + " mailto:x@y.org verylongwordwithoutanybreakpointsatallinit end"),
        "ml": "l1 " + name + "\n\n  l3\nl4",
        "recs": [{"k": "b", "n": 2, "q": name}, {"k": "A", "n": 1}, {"k": "a", "n": 3}],
        "cnt": {"b": 2, "A": 3, "a": 1},
        "ws": ["b", "A", "a", "B"],
    }


def use(filt, form, rng=None):
    """Source of one use: announces itself, then prints the expression."""
    plain, rare = TABLE[filt]
    if form == PLAIN:
        expr = plain[0] if rng is None or len(plain) == 1 else rng.choice(plain)
    else:
        expr = rare[form]
    return ("[F:" + filt + "/" + form + "={{ fuse('" + filt + "', '" + form + "') }}{{ "
            + expr + " }}]")


def pair_slice(offset, available=None):
    """The filters of the offset-th forced pair: consecutive names of those that have
    rare forms (cyclic), so that every such filter is paired regardless of the seed."""
    names = [f for f in WITH_RARE if available is None or f in available]
    start = (offset * SLICE) % len(names)
    return [names[(start + j) % len(names)] for j in range(min(SLICE, len(names)))]


def last_use(text, start, end):
    """-> (filter, form) of the last use marker in text[start:end], or None."""
    m = None
    for m in _USE.finditer(text, start, end):
        pass
    return (m.group(1), m.group(2)) if m else None


def sandwiches(events):
    """events: [(task id, filter, form)] in execution order.  -> sorted filters for
    which some task made a plain use, then ANOTHER task used a rare form, then the
    first task made a plain use again."""
    out = set()
    state = {}      # (filter, task) -> 1 = plain seen, 2 = foreign rare form seen after it
    for tid, filt, form in events:
        if form == PLAIN:
            if state.get((filt, tid)) == 2:
                out.add(filt)
            state.setdefault((filt, tid), 1)
        else:
            for (f, t), st in list(state.items()):
                if f == filt and t != tid and st == 1:
                    state[(f, t)] = 2
    return sorted(out)
