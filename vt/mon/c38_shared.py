"""C38 workload, part 2: state that OUTLIVES a render combined with constructs
that temporarily modify shared state around a fault point, and probes that can
SEE such state afterwards.

(a) long-lived state: the module of a template imported / from-imported /
    included-through-an-importer WITHOUT context is cached per environment
    together with its Context (and eval context); ``Template.module`` hands the
    same module to Python callers.
(b) scoped constructs inside the macros of such a module whose body touches
    probe data: autoescape blocks (constant / data dependent / nested / around
    caller() / around loops left by break + continue / around trans, filter,
    set and with blocks / around calls of sibling macros), scoped eval-context
    modifiers made by an extension (nodes.ScopedEvalContextModifier), a module
    level namespace and a module level cycler that the macro (re)initialises
    before it touches data.  The ``zone`` global tells the harness in which
    construct a fault fired.
(c) sentinels: a ``sense`` macro in every cached module renders eval-context
    sensitive expressions over constant data (join / replace / xmlattr with
    Markup + text operands, a harness filter and a harness function that
    report eval_ctx.autoescape, a sibling macro call, new-style gettext); the
    template ``zprobe.j2`` calls the sentinels of all cached modules and is
    rendered after every fault.
"""
from __future__ import annotations

SEG = "\x1f"

LT = "'<a&b> x.org'"
MK = "'<i>'|safe"
SENSE_CALL = "sense(" + LT + ", " + MK + ")"


def sense_macros(newstyle_gettext):
    g = "|G{{ gettext('<g> %(v)s', v=a) }}" if newstyle_gettext else ""
    return ("{% macro sense_in(a) %}<{{ a }}>{% endmacro %}"
            "{% macro sense(a, m) %}J{{ [a, m]|join(',') }}|R{{ a|replace('&', m) }}"
            "|X{{ {'k': a}|xmlattr }}|E{{ a|ectx }}|C{{ ectxf() }}"
            "|M{{ sense_in(a) }}" + g + "{% endmacro %}")


# guarded macros of slib.j2: (name, params, source, needs) ; needs in
# {None, "async", "i18n"}; @AE@ = autoescape constant chosen per case and macro;
# @Z:name@ = enter zone, @Z@ = leave zone
GUARDED = [
    ("ae_call", "f", "@Z:autoescape-block@{% autoescape @AE@ %}{{ f() }}-{{ f() }}"
                     "{% endautoescape %}@Z@", None),
    ("ae_data", "p, s", "@Z:autoescape-block@{% autoescape @AE@ %}{{ p.a }}{{ s }}{{ p.sub.d }}"
                        "{{ [s, p.b]|join('+') }}{% endautoescape %}@Z@", None),
    ("ae_iter", "xs", "@Z:autoescape-block@{% autoescape @AE@ %}{% for x in xs %}{{ x }},"
                      "{% endfor %}{% endautoescape %}@Z@", None),
    ("ae_dyn", "flag, f, s", "@Z:autoescape-block@{% autoescape flag %}{{ s }}{{ f() }}{{ s|ectx }}"
                             "{{ [s, '<']|join }}{% endautoescape %}@Z@", None),
    ("ae_nested", "f, s", "@Z:autoescape-block@{% autoescape true %}{{ s }}{% autoescape false %}"
                          "{{ f() }}{% endautoescape %}{{ s }}{{ f() }}{% endautoescape %}@Z@", None),
    ("ae_caller", "", "@Z:autoescape-block@{% autoescape @AE@ %}[{{ caller() }}]"
                      "{% endautoescape %}@Z@", None),
    ("ae_expr", "f", "@Z:autoescape-block@{% autoescape f() is string %}<x>{{ f() }}"
                     "{% endautoescape %}@Z@", None),
    ("ae_loopctl", "xs, f", "{% for x in xs %}@Z:autoescape-block+loopcontrol@{% autoescape @AE@ %}"
                            "{{ x }}{% if loop.index is even %}{% continue %}{% endif %}{{ f() }}"
                            "{% if loop.index >= 3 %}{% break %}{% endif %};{% endautoescape %}"
                            "{% endfor %}@Z@", None),
    ("ae_trans", "s, f", "@Z:autoescape-block@{% autoescape @AE@ %}{% trans v=s %}T<{{ v }}>"
                         "{% endtrans %}{{ f() }}{% endautoescape %}@Z@", "i18n"),
    ("ae_blocks", "s, f", "@Z:autoescape-block@{% autoescape @AE@ %}{% filter upper %}{{ s }}"
                          "{% endfilter %}{% set v %}{{ f() }}{% endset %}{{ v }}"
                          "{% with w = f() %}{{ w }}{% endwith %}{% endautoescape %}@Z@", None),
    ("ae_inner", "p", "@Z:autoescape-block@{% autoescape @AE@ %}{{ sense_in(p.b) }}"
                      "{{ sense_in(p) }}{% endautoescape %}@Z@", None),
    ("sc_ext", "f, s", "@Z:scoped-evalctx-block@{% evalctx autoescape=@AE@ %}{{ s }}{{ f() }}"
                       "{% endevalctx %}@Z@", None),
    ("sc_dyn", "flag, f, s", "@Z:scoped-evalctx-block@{% evalctx autoescape=flag %}{{ s }}{{ f() }}"
                             "{{ s|ectx }}{% endevalctx %}@Z@", None),
    ("ns_guard", "f, v", "{% set NS.cur = v %}@Z:module-namespace@{{ f() }}{{ NS.cur }}@Z@", None),
    ("cy_guard", "f", "{{ CY.reset() }}@Z:module-cycler@{{ CY.next() }}{{ f() }}{{ CY.next() }}"
                      "{{ CY.current }}@Z@", None),
    ("ae_await", "af", "@Z:autoescape-block@{% autoescape @AE@ %}{{ af() }}{{ af()|upper }}"
                       "{% endautoescape %}@Z@", "async"),
    ("ae_aiter", "ait", "@Z:autoescape-block@{% autoescape @AE@ %}{% for x in ait %}{{ x }},"
                        "{% endfor %}{% endautoescape %}@Z@", "async"),
]

# fragments of the main templates that drive them: (label, source, needs)
SHARED_FRAGS = [
    ("shared-ae-call", "{{ sl.ae_call(fn) }}{{ sl.ae_call(rec.f) }}", None),
    ("shared-ae-data", "{{ sl.ae_data(rec, s) }}{{ sl.ae_data(rec, h) }}", None),
    ("shared-ae-iter", "{{ sl.ae_iter(it) }}{{ sl.ae_iter(rec.sub.lst) }}", None),
    ("shared-ae-dyn", "{{ sl.ae_dyn(rec.a is odd, fn, s) }}{{ sl.ae_dyn(b, rec.f, h) }}", None),
    ("shared-ae-nested", "{{ sl.ae_nested(fn, s) }}", None),
    ("shared-ae-caller", "{% call sl.ae_caller() %}{{ s }}{{ fn() }}{{ rec.a }}{% endcall %}", None),
    ("shared-ae-expr", "{{ sl.ae_expr(fn) }}", None),
    ("shared-ae-loopctl", "{{ sl.ae_loopctl(it, fn) }}{{ sl.ae_loopctl(itl, rec.f) }}", None),
    ("shared-ae-trans", "{{ sl.ae_trans(s, fn) }}{{ sl.ae_trans(h, rec.f) }}", "i18n"),
    ("shared-ae-blocks", "{{ sl.ae_blocks(s, fn) }}", None),
    ("shared-ae-inner", "{{ sl.ae_inner(rec) }}", None),
    ("shared-scoped-ext", "{{ sl.sc_ext(fn, s) }}{{ sl.sc_dyn(rec.a is odd, rec.f, h) }}", None),
    ("shared-module-namespace", "{{ sl.ns_guard(fn, rec.a) }}", None),
    ("shared-module-cycler", "{{ sl.cy_guard(fn) }}", None),
    ("shared-from-import", "{% from 'slib.j2' import ae_call as ac_A, ae_data as ad_A, sense as se_A %}"
                           "{{ ac_A(rec.f) }}{{ ad_A(rec, s) }}{{ se_A(" + LT + ", " + MK + ") }}",
     None),
    ("shared-include-importer", "{% include 'sinc.j2' %}", None),
    ("shared-ae-await", "{{ sl.ae_await(afn) }}{{ sl.ae_aiter(ait) }}", "async"),
]

SINC = ("{% import 'slib.j2' as q %}{{ mark('shared-include-importer') }}{{ q.ae_data(rec, s) }}"
        "{{ q.ae_call(fn) }}{{ q." + SENSE_CALL + " }}")

# eval-context sensitive expressions over probe data in the main templates themselves
# (appended to the ordinary fragment pool)
MAIN_FRAGS = [
    ("evalctx-filters", "{{ [s, h, '<l>']|join(',') }}{{ s|replace('x', h) }}"
                        "{{ {'k': s, 'c': h}|xmlattr }}{{ s|string|urlize }}{{ s ~ h }}"
                        "{{ s|ectx }}", 0),
    ("autoescape-main", "{% autoescape true %}{{ s }}{{ fn() }}{{ [h, s]|join }}{% endautoescape %}"
                        "{% autoescape false %}{{ h }}{{ rec.f() }}{% endautoescape %}{{ s|ectx }}"
                        "{% autoescape rec.a is odd %}{{ s }}{{ h }}{% endautoescape %}", 0),
]

# calls made through Template.module from Python (sync environments): (macro, args);
# an arg is a data variable name or "=<literal>" / "=M<markup literal>" / "=T" / "=F"
MODCALLS = [
    ("ae_call", ["fn"]), ("ae_data", ["rec", "s"]), ("ae_iter", ["it"]),
    ("ae_dyn", ["=T", "fn", "s"]), ("ae_dyn", ["=F", "fn", "h"]), ("ae_nested", ["fn", "s"]),
    ("ae_expr", ["fn"]), ("ae_loopctl", ["it", "fn"]), ("ae_blocks", ["s", "fn"]),
    ("ae_inner", ["rec"]), ("sc_ext", ["fn", "s"]), ("sc_dyn", ["=T", "fn", "h"]),
    ("ns_guard", ["fn", "=7"]), ("cy_guard", ["fn"]),
]
MOD_SENSE = ("sense", ["=<a&b> x.org", "=M<i>"])
MODULE_TARGET = "@module:slib.j2"
PROBE = "zprobe.j2"


def _expand(src, ae):
    out = src.replace("@AE@", ae).replace("@Z@", "{{ zone('') }}")
    while "@Z:" in out:
        i = out.index("@Z:")
        j = out.index("@", i + 3)
        out = out[:i] + "{{ zone('" + out[i + 3:j] + "') }}" + out[j + 1:]
    return out


def gen_slib(rng, is_async, i18n, env_autoescape):
    """slib.j2: every applicable guarded macro, a module level namespace + cycler,
    the sentinels.  The autoescape constants follow one of three patterns (all the
    opposite of the environment default, so a leak is visible; alternating; all
    equal to it): few distinct sources, so the compiled code is shared by the
    environments of a shard."""
    pattern = rng.choice([0, 0, 0, 1, 2])
    opposite = "false" if env_autoescape else "true"
    same = "true" if env_autoescape else "false"
    macros = []
    for i, (name, params, src, needs) in enumerate(GUARDED):
        if needs == "async" and not is_async:
            continue
        if needs == "i18n" and not i18n:
            continue
        ae = opposite if pattern == 0 or (pattern == 1 and i % 2 == 0) else same
        macros.append("{% macro " + name + "(" + params + ") %}" + _expand(src, ae)
                      + "{% endmacro %}")
    head = "{% set NS = namespace(cur='-') %}{% set CY = cycler('p', 'q', 'r') %}"
    return head + "".join(macros) + sense_macros(bool(i18n and i18n["newstyle"]))


def gen_probe(has_glib_sense=True):
    """zprobe.j2: the sentinels of every cached module, one segment per module."""
    segs = [
        "slib.j2(import)={% import 'slib.j2' as sl %}{{ sl." + SENSE_CALL + " }}",
        "slib.j2(from-import)={% from 'slib.j2' import sense as s2 %}"
        "{{ s2('x<&', '<u>'|safe) }}",
        "lib.j2(import)={% import 'lib.j2' as lib %}{{ lib." + SENSE_CALL + " }}",
        "slib.j2(import-inside-an-included-template)={% include 'sincp.j2' %}",
    ]
    if has_glib_sense:
        segs.append("glib.j2(import)={% import 'glib.j2' as G %}{{ G." + SENSE_CALL + " }}")
    return SEG.join(segs)


SELFCHECK = "zself.j2"


def gen_selfcheck(newstyle_gettext):
    return (sense_macros(newstyle_gettext)
            + "{% autoescape true %}{{ " + SENSE_CALL + " }}{% endautoescape %}" + SEG
            + "{% autoescape false %}{{ " + SENSE_CALL + " }}{% endautoescape %}")


SINCP = "{% import 'slib.j2' as q %}{{ q." + SENSE_CALL + " }}"


def gen_modcalls(rng):
    k = rng.randint(3, 5)
    calls = [list(c) for c in rng.sample(MODCALLS, k)]
    out = []
    for c in calls:
        out.append(c)
        if rng.random() < 0.4:
            out.append(list(MOD_SENSE))
    out.append(list(MOD_SENSE))
    return [[m, list(a)] for m, a in out]


def resolve_arg(spec, data):
    if not spec.startswith("="):
        return data[spec]
    if spec == "=T":
        return True
    if spec == "=F":
        return False
    if spec.startswith("=M"):
        from markupsafe import Markup
        return Markup(spec[2:])
    lit = spec[1:]
    return int(lit) if lit.isdigit() else lit


_EXT = []


def harness_extension():
    """{% evalctx key=expr, ... %}body{% endevalctx %} -> the documented
    nodes.ScopedEvalContextModifier (extension-made scoped eval-context change)."""
    if _EXT:
        return _EXT[0]
    from jinja2 import nodes
    from jinja2.ext import Extension

    class EvalCtxExtension(Extension):
        tags = {"evalctx"}

        def parse(self, parser):
            lineno = next(parser.stream).lineno
            opts = []
            while parser.stream.current.type != "block_end":
                if opts:
                    parser.stream.expect("comma")
                key = parser.stream.expect("name").value
                parser.stream.expect("assign")
                opts.append(nodes.Keyword(key, parser.parse_expression(), lineno=lineno))
            body = parser.parse_statements(("name:endevalctx",), drop_needle=True)
            return nodes.ScopedEvalContextModifier(opts, body, lineno=lineno)

    _EXT.append(EvalCtxExtension)
    return EvalCtxExtension


def sentinel_callables():
    """-> (ectx filter, ectxf global): report the eval context they are handed
    (documented: pass_eval_context / pass_context + context.eval_ctx.autoescape)."""
    from jinja2 import pass_context, pass_eval_context

    @pass_eval_context
    def ectx(eval_ctx, value):
        return "A1" if eval_ctx.autoescape else "A0"

    @pass_context
    def ectxf(context):
        return "a1" if context.eval_ctx.autoescape else "a0"

    return ectx, ectxf


def first_diff_segment(clean, got):
    a, b = clean.split(SEG), got.split(SEG)
    if len(a) != len(b):
        return "structure"
    for x, y in zip(a, b):
        if x != y:
            return x.split("=", 1)[0]
    return "none"
