"""C37 workload: KINDS of values that flow through the engine's "await it if it
is awaitable" wrapper (call results, attribute and item values, filter results,
the per-item results of |map) in concurrently rendered templates.

Awaitable kinds resolve to the string ``<task name>.<tag>`` (most of them by
delegating to the task's gated data function, so they contain an await point
the scheduler controls); plain kinds are printed / iterated.  Several kinds
share one *type family* (the same Python type, an equal class name, one class
hierarchy) but differ in awaitability, so two tasks can put values of the same
family through the engine in either order.
"""
from __future__ import annotations

import asyncio
import functools
import types

# kind -> (awaitable?, type family, consumer: "str" printed | "iter" iterated)
KINDS = {
    "co": (1, "coroutine", "str"),               # native coroutine object
    "gco": (1, "generator", "str"),              # @types.coroutine generator-based coroutine
    "pgen": (0, "generator", "iter"),            # plain generator object
    "awo": (1, "class-named-Val", "str"),        # instance with __await__
    "pval": (0, "class-named-Val", "str"),       # instance of ANOTHER class of the same name
    "asub": (1, "Base-hierarchy", "str"),        # awaitable subclass of a plain class
    "pbase": (0, "Base-hierarchy", "str"),       # the plain base class
    "awb": (1, "AwBase-hierarchy", "str"),       # awaitable base class
    "noaw": (0, "AwBase-hierarchy", "str"),      # subclass that sets __await__ = None
    "fut": (1, "Future-hierarchy", "str"),       # finished asyncio.Future
    "tsk": (1, "Future-hierarchy", "str"),       # asyncio.Task running the data function
    "iter": (0, "list_iterator", "iter"),
    "rng": (0, "range", "iter"),
    "lst": (0, "list", "iter"),
}
AWAITABLE = sorted(k for k, v in KINDS.items() if v[0])
PLAIN = sorted(k for k, v in KINDS.items() if not v[0])
CHANNELS = ("call", "fn", "part", "obj", "attr", "item", "filter", "map")


def _classes():
    class Val:
        def __init__(self, s):
            self.s = s

        def __str__(self):
            return self.s

    plain_val = Val

    class Val:  # noqa: F811 - same name on purpose
        def __init__(self, mk):
            self.mk = mk

        def __await__(self):
            return self.mk().__await__()

    aw_val = Val
    aw_val.__qualname__ = plain_val.__qualname__ = "Val"

    class Base:
        def __init__(self, s):
            self.s = s

        def __str__(self):
            return self.s

    class ASub(Base):
        def __init__(self, mk):
            self.mk = mk

        def __await__(self):
            return self.mk().__await__()

    class AwBase:
        def __init__(self, mk):
            self.mk = mk

        def __await__(self):
            return self.mk().__await__()

    class NoAw(AwBase):
        __await__ = None

        def __init__(self, s):
            self.s = s

        def __str__(self):
            return self.s

    return plain_val, aw_val, Base, ASub, AwBase, NoAw


PVal, AVal, Base, ASub, AwBase, NoAw = _classes()


class _CallObj:
    def __init__(self, make, kind):
        self._make, self._kind = make, kind

    def __call__(self, tag):
        return self._make(self._kind, tag)


class _ByKind:
    """k.fn.<kind> / k.part.<kind> / k.obj.<kind>: a plain function, a
    functools.partial, a callable object that returns a value of that kind."""

    def __init__(self, make, how):
        self._make, self._how = make, how

    def __getattr__(self, kind):
        if kind not in KINDS:
            raise AttributeError(kind)
        make = self._make
        if self._how == "fn":
            def fn(tag):
                return make(kind, tag)
            return fn
        if self._how == "part":
            return functools.partial(make, kind)
        return _CallObj(make, kind)


class _ByName:
    """k.at.<kind>_<tag> (attribute) / k.it['<kind>_<tag>'] (item)."""

    def __init__(self, make):
        self._make = make

    def _get(self, name, exc):
        kind, _, tag = str(name).partition("_")
        if kind not in KINDS or not tag:
            raise exc(name)
        return self._make(kind, tag)

    def __getattr__(self, name):
        return self._get(name, AttributeError)

    def __getitem__(self, name):
        return self._get(name, KeyError)


class Kinds:
    """Template variable ``k`` of one task.  g: the task's async data function
    (counts its calls, may wait at a gate); note(family, awaitable): harness
    bookkeeping of what went through the engine in which order."""

    def __init__(self, name, g, note):
        self._name, self._g, self._note = name, g, note
        self.fn = _ByKind(self.mk, "fn")
        self.part = _ByKind(self.mk, "part")
        self.obj = _ByKind(self.mk, "obj")
        self.at = _ByName(self.mk)
        self.it = _ByName(self.mk)

    def note(self, family, aw):
        self._note(family, bool(aw), "engine")
        return ""

    def mk(self, kind, tag):
        aw, family, _ = KINDS[kind]
        self._note(family, bool(aw), kind)
        g, val = self._g, "%s.%s" % (self._name, tag)
        if kind == "co":
            return g(tag)
        if kind == "gco":
            @types.coroutine
            def gco():
                return (yield from g(tag).__await__())
            return gco()
        if kind == "awo":
            return AVal(lambda: g(tag))
        if kind == "asub":
            return ASub(lambda: g(tag))
        if kind == "awb":
            return AwBase(lambda: g(tag))
        if kind == "fut":
            f = asyncio.get_running_loop().create_future()
            f.set_result(val)
            return f
        if kind == "tsk":
            return asyncio.ensure_future(g(tag))
        if kind == "pgen":
            def pgen():
                yield val
                yield "p"
                yield "q"
            return pgen()
        if kind == "pval":
            return PVal(val)
        if kind == "pbase":
            return Base(val)
        if kind == "noaw":
            return NoAw(val)
        if kind == "iter":
            return iter([val, "i", "j"])
        if kind == "rng":
            return range(3)
        if kind == "lst":
            return [val, "l"]
        raise KeyError(kind)


def mk_filter(k, kind, tag):
    """Environment filter ``mk``: the filter RESULT is a value of the kind."""
    return k.mk(kind, tag)
