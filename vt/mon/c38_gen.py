"""C38 workload: template sets made of labelled fragments that touch probe data
through every channel the property names (calls, iteration, attribute / item
access, string conversion) in loops, macros, call blocks, includes, blocks,
set / filter blocks, tests and filters with attribute arguments."""
from __future__ import annotations

# (label, source, needs_async)
FRAGS = [
    ("attr-access", "{{ rec.a }}{{ rec.sub.c }}{{ rec.b }}{{ rec.sub.d }}", 0),
    ("item-access", "{{ rec['k'] }}{{ rec[0] }}{{ rec['a'] }}{{ rec.k }}", 0),
    ("missing-lookup", "{{ rec.missing|default('dflt') }}{{ rec['zzz'] is defined }}"
                       "{{ rec.zzz is undefined }}[{{ rec.missing }}]", 0),
    ("for-iter", "{% for x in it %}{{ x }}{{ loop.index }}{% endfor %}", 0),
    ("for-iter-len", "{% for x in itl %}{{ loop.length }}{{ loop.last }}{{ x }}"
                     "{% else %}empty{% endfor %}", 0),
    ("for-attr-iter", "{% for x in rec.sub.lst if x is odd %}{{ x }}{{ loop.index }}"
                      "{% endfor %}", 0),
    ("for-recs", "{% for r in recs %}{{ r.name }}={{ r.n }}{% if not loop.last %};{% endif %}"
                 "{% endfor %}", 0),
    ("nested-for", "{% for r in recs %}{% for x in it %}{{ r.n * x }},{% endfor %}{% endfor %}", 0),
    ("calls", "{{ fn() }}{{ fn2()|join(',') }}{{ rec.f() }}{{ fn(1, k=2) }}", 0),
    ("str-conv", "{{ s }}{{ s ~ '!' }}{{ s|string|upper }}{{ '%s' % s }}{{ s|e }}"
                 "{{ [s, s]|join('-') }}", 0),
    ("str-conv2", "{{ s|upper }}{{ s|replace('x', 'y') }}{{ s|trim|length }}{{ rec }}"
                  "{{ s|center(9) }}{{ s|string|truncate(3) }}", 0),
    ("html", "{{ h }}{{ h|e }}{{ h|string }}{{ h ~ s }}{{ [h]|join(',') }}", 0),
    ("truth", "{% if b %}T{% else %}F{% endif %}{{ b and 1 }}{{ not nb }}"
              "{{ 'x' if nb else 'y' }}{% if itl %}nonempty{% endif %}"
              "{{ [b, nb]|select|list|length }}{{ b|default('z', true) }}", 0),
    ("sort-attribute", "{{ recs|sort(attribute='n')|map(attribute='name')|join(',') }}"
                       "{{ recs|sort(attribute='grp,n', reverse=true)|map(attribute='n')|join }}", 0),
    ("map-sum", "{{ recs|map(attribute='n')|sum }}{{ recs|sum(attribute='n') }}"
                "{{ recs|map(attribute='sub.c')|list|join('+') }}"
                "{{ recs|map(attribute='zzz', default='?')|join }}", 0),
    ("groupby", "{% for g in recs|groupby('grp') %}{{ g.grouper }}:"
                "{{ g.list|map(attribute='n')|join('+') }};{% endfor %}"
                "{% for k, l in recs|groupby(attribute='n') %}{{ k }}{{ l|length }}{% endfor %}", 0),
    ("selectattr", "{{ recs|selectattr('n', 'gt', 1)|map(attribute='name')|list|join }}"
                   "{{ recs|rejectattr('n', 'odd')|list|length }}"
                   "{{ recs|selectattr('missing')|list|length }}", 0),
    ("join-attribute", "{{ recs|join(',', attribute='name') }}{{ recs|join('/') }}"
                       "{{ recs|map('string')|join }}", 0),
    ("minmax-unique", "{{ (recs|max(attribute='n')).name }}{{ recs|min(attribute='n') }}"
                      "{{ recs|unique(attribute='grp')|map(attribute='grp')|join }}"
                      "{{ recs|first }}{{ (recs|last).n }}", 0),
    ("iter-filters", "{{ it|list|length }}{{ it|batch(2)|list|length }}{{ it|first }}"
                     "{{ itl|length }}{{ it|map('string')|join(':') }}{{ it|sum }}"
                     "{{ it|select('odd')|list }}{{ 1 in itl }}{{ it|reverse|list }}"
                     "{{ rec.items_list|length }}{{ itl|list|sort }}", 0),
    ("tests", "{{ rec.a is defined }}{{ rec.zzz is defined }}{{ cap is sequence }}"
              "{{ cap is iterable }}{{ s is string }}{{ fn is callable }}{{ rec is mapping }}"
              "{{ rec.a is number }}{{ rec.sub.c is divisibleby 3 }}{{ capit is iterable }}", 0),
    ("macro", "{% macro m_A(p, q=fn()) %}{{ p.a }}{{ q }}{{ fn() }}{{ s }}{% endmacro %}"
              "{{ m_A(rec) }}{{ m_A(rec, 1) }}", 0),
    ("call-block", "{% macro m_B(p) %}[{{ caller(p.sub) }}{{ p.b }}]{% endmacro %}"
                   "{% call(u) m_B(rec) %}{{ u.c }}{{ s }}{{ fn() }}{% endcall %}", 0),
    ("set-block", "{% set v_A %}{{ rec.a }}{{ s }}{% endset %}{{ v_A }}{% set w_A = rec.sub %}"
                  "{{ w_A.c }}{% set x_A, y_A = fn2() %}{{ x_A }}{{ y_A }}", 0),
    ("filter-block", "{% filter upper %}{{ s }}{{ rec.b }}{% for x in it %}{{ x }}{% endfor %}"
                     "{% endfilter %}", 0),
    ("include", "{% include 'inc.j2' %}", 0),
    ("include-nocontext", "{% include 'incnc.j2' without context %}{{ rec.a }}", 0),
    ("import-macro", "{{ lib.show(rec) }}{{ lib.each(it) }}{% call lib.wrap() %}{{ s }}"
                     "{% endcall %}", 0),
    ("with", "{% with p = rec.sub, q = fn() %}{{ p.c }}{{ q }}{{ p.d }}{% endwith %}", 0),
    ("conditional-expr", "{{ rec.a if rec.b else rec.sub.c }}{{ (rec.a, rec.sub.c)|max }}"
                         "{{ rec.a + rec.sub.c }}{{ rec.a > rec.sub.c }}", 0),
    ("recursive-loop", "{% for r in recs recursive %}{{ r.name }}{% if loop.depth < 2 %}"
                       "({{ loop([r]) }}){% endif %}{% endfor %}", 0),
    ("async-call", "{{ afn() }}{{ afn()|upper }}{% if afn() %}y{% endif %}", 1),
    ("async-iter", "{% for x in ait %}{{ x }}{{ loop.index }}{% endfor %}{{ ait|list|length }}"
                   "{{ ait|map('string')|join(',') }}"
                   "{% for x in ait if x is odd %}{{ x }}{% endfor %}", 1),
    ("async-iter-len", "{% for x in ait %}{{ loop.length }}{{ loop.last }}{% endfor %}"
                       "{{ ait|first }}{{ ait|sum }}", 1),
]

LIB = ("{% macro show(p) %}<{{ p.a }}|{{ p.sub.d }}>{% endmacro %}"
       "{% macro each(xs) %}{% for x in xs %}{{ x }};{% endfor %}{% endmacro %}"
       "{% macro wrap() %}({{ caller() }}){% endmacro %}")
INC = "{{ mark('inc') }}{{ rec.b }}{% for x in it %}{{ x }}{% endfor %}{{ fn() }}{{ s }}"
INCNC = "static{{ 1 + 1 }}"
BASE = ("{% import 'lib.j2' as lib %}<base>{% block body %}{{ mark('base-block') }}{{ rec.a }}"
        "{% endblock %}|{% block foot %}{{ mark('base-foot') }}{{ s }}{{ fn() }}{% endblock %}"
        "{{ mark('self-block') }}{{ self.foot() }}</base>")


def gen_case(rng, is_async):
    pool = [f for f in FRAGS if is_async or not f[2]]
    tpls = {"lib.j2": LIB, "inc.j2": INC, "incnc.j2": INCNC, "base.j2": BASE}
    mains = []
    labels = {}
    for mi in range(3):
        nf = rng.randint(2, 4)
        frags = [rng.choice(pool) for _ in range(nf)]
        # unique macro / variable names per use
        body = ""
        labs = []
        for fi, (lab, src, _) in enumerate(frags):
            suffix = "%d_%d" % (mi, fi)
            body += "{{ mark('%s') }}" % lab + src.replace("_A", "_A" + suffix).replace("_B", "_B" + suffix)
            labs.append(lab)
        name = "m%d.j2" % mi
        if rng.random() < 0.35:
            src = ("{% extends 'base.j2' %}{% block body %}" + body
                   + ("{{ mark('super') }}{{ super() }}" if rng.random() < 0.6 else "")
                   + "{% endblock %}")
            labs += ["base-foot", "self-block"]
        else:
            src = "{% import 'lib.j2' as lib %}" + body
        tpls[name] = src
        mains.append(name)
        labels[name] = labs
    return {"tpls": tpls, "mains": mains, "labels": labels, "is_async": bool(is_async),
            "autoescape": rng.random() < 0.5}
