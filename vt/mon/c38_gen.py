"""C38 workload: template sets made of labelled fragments that touch probe data
through every channel the property names (calls, iteration, attribute / item
access, string conversion) in loops, macros, call blocks, includes, blocks,
set / filter blocks, tests and filters with attribute arguments."""
from __future__ import annotations

from vt.mon import c38_deferred as DF
from vt.mon import c38_shared as SH

# (label, source, needs_async)
FRAGS = [
    ("attr-access", "{{ rec.a }}{{ rec.sub.c }}{{ rec.b }}{{ rec.sub.d }}", 0),
    ("item-access", "{{ rec['k'] }}{{ rec[0] }}{{ rec['a'] }}{{ rec.k }}", 0),
    ("missing-lookup", "{{ rec.missing|default('dflt') }}{{ rec['zzz'] is defined }}"
                       "{{ rec.zzz is undefined }}[{{ rec.missing }}]", 0),
    ("for-iter", "{% for x in it %}{{ x }}{{ loop.index }}{% endfor %}", 0),
    ("for-iter-len", "{% for x in itl %}{{ loop.length }}{{ loop.last }}{{ x }}"
                     "{% else %}empty{% endfor %}", 0),
    ("for-attr-iter", "{% for x in rec.sub.lst if x is odd %}{{ x }}{{ loop.index }}"
                      "{% endfor %}", 0),
    ("for-recs", "{% for r in recs %}{{ r.name }}={{ r.n }}{% if not loop.last %};{% endif %}"
                 "{% endfor %}", 0),
    ("nested-for", "{% for r in recs %}{% for x in it %}{{ r.n * x }},{% endfor %}{% endfor %}", 0),
    ("calls", "{{ fn() }}{{ fn2()|join(',') }}{{ rec.f() }}{{ fn(1, k=2) }}", 0),
    ("str-conv", "{{ s }}{{ s ~ '!' }}{{ s|string|upper }}{{ '%s' % s }}{{ s|e }}"
                 "{{ [s, s]|join('-') }}", 0),
    ("str-conv2", "{{ s|upper }}{{ s|replace('x', 'y') }}{{ s|trim|length }}{{ rec }}"
                  "{{ s|center(9) }}{{ s|string|truncate(3) }}", 0),
    ("format-conv", "{{ '{}|{:>4}'.format(fm, fm) }}{{ '%s' % fm }}{{ '%s-%s'|format(fm, s) }}"
                    "{{ fm }}{{ fm|string|length }}", 0),
    ("html", "{{ h }}{{ h|e }}{{ h|string }}{{ h ~ s }}{{ [h]|join(',') }}", 0),
    ("truth", "{% if b %}T{% else %}F{% endif %}{{ b and 1 }}{{ not nb }}"
              "{{ 'x' if nb else 'y' }}{% if itl %}nonempty{% endif %}"
              "{{ [b, nb]|select|list|length }}{{ b|default('z', true) }}", 0),
    ("sort-attribute", "{{ recs|sort(attribute='n')|map(attribute='name')|join(',') }}"
                       "{{ recs|sort(attribute='grp,n', reverse=true)|map(attribute='n')|join }}", 0),
    ("map-sum", "{{ recs|map(attribute='n')|sum }}{{ recs|sum(attribute='n') }}"
                "{{ recs|map(attribute='sub.c')|list|join('+') }}"
                "{{ recs|map(attribute='zzz', default='?')|join }}", 0),
    ("groupby", "{% for g in recs|groupby('grp') %}{{ g.grouper }}:"
                "{{ g.list|map(attribute='n')|join('+') }};{% endfor %}"
                "{% for k, l in recs|groupby(attribute='n') %}{{ k }}{{ l|length }}{% endfor %}", 0),
    ("selectattr", "{{ recs|selectattr('n', 'gt', 1)|map(attribute='name')|list|join }}"
                   "{{ recs|rejectattr('n', 'odd')|list|length }}"
                   "{{ recs|selectattr('missing')|list|length }}", 0),
    ("join-attribute", "{{ recs|join(',', attribute='name') }}{{ recs|join('/') }}"
                       "{{ recs|map('string')|join }}", 0),
    ("minmax-unique", "{{ (recs|max(attribute='n')).name }}{{ recs|min(attribute='n') }}"
                      "{{ recs|unique(attribute='grp')|map(attribute='grp')|join }}"
                      "{{ recs|first }}{{ (recs|last).n }}", 0),
    ("iter-filters", "{{ it|list|length }}{{ it|batch(2)|list|length }}{{ it|first }}"
                     "{{ itl|length }}{{ it|map('string')|join(':') }}{{ it|sum }}"
                     "{{ it|select('odd')|list }}{{ 1 in itl }}{{ it|reverse|list }}"
                     "{{ rec.items_list|length }}{{ itl|list|sort }}", 0),
    ("tests", "{{ rec.a is defined }}{{ rec.zzz is defined }}{{ cap is sequence }}"
              "{{ cap is iterable }}{{ s is string }}{{ fn is callable }}{{ rec is mapping }}"
              "{{ rec.a is number }}{{ rec.sub.c is divisibleby 3 }}{{ capit is iterable }}", 0),
    ("macro", "{% macro m_A(p, q=fn()) %}{{ p.a }}{{ q }}{{ fn() }}{{ s }}{% endmacro %}"
              "{{ m_A(rec) }}{{ m_A(rec, 1) }}", 0),
    ("call-block", "{% macro m_B(p) %}[{{ caller(p.sub) }}{{ p.b }}]{% endmacro %}"
                   "{% call(u) m_B(rec) %}{{ u.c }}{{ s }}{{ fn() }}{% endcall %}", 0),
    ("set-block", "{% set v_A %}{{ rec.a }}{{ s }}{% endset %}{{ v_A }}{% set w_A = rec.sub %}"
                  "{{ w_A.c }}{% set x_A, y_A = fn2() %}{{ x_A }}{{ y_A }}", 0),
    ("filter-block", "{% filter upper %}{{ s }}{{ rec.b }}{% for x in it %}{{ x }}{% endfor %}"
                     "{% endfilter %}", 0),
    ("include", "{% include 'inc.j2' %}", 0),
    ("include-nocontext", "{% include 'incnc.j2' without context %}{{ rec.a }}", 0),
    ("import-macro", "{{ lib.show(rec) }}{{ lib.each(it) }}{% call lib.wrap() %}{{ s }}"
                     "{% endcall %}", 0),
    ("with", "{% with p = rec.sub, q = fn() %}{{ p.c }}{{ q }}{{ p.d }}{% endwith %}", 0),
    ("conditional-expr", "{{ rec.a if rec.b else rec.sub.c }}{{ (rec.a, rec.sub.c)|max }}"
                         "{{ rec.a + rec.sub.c }}{{ rec.a > rec.sub.c }}", 0),
    ("recursive-loop", "{% for r in recs recursive %}{{ r.name }}{% if loop.depth < 2 %}"
                       "({{ loop([r]) }}){% endif %}{% endfor %}", 0),
    ("async-call", "{{ afn() }}{{ afn()|upper }}{% if afn() %}y{% endif %}", 1),
    ("async-iter", "{% for x in ait %}{{ x }}{{ loop.index }}{% endfor %}{{ ait|list|length }}"
                   "{{ ait|map('string')|join(',') }}"
                   "{% for x in ait if x is odd %}{{ x }}{% endfor %}", 1),
    ("async-iter-len", "{% for x in ait %}{{ loop.length }}{{ loop.last }}{% endfor %}"
                       "{{ ait|first }}{{ ait|sum }}", 1),
]

# Fragments that reach templates whose TOP-LEVEL BODY touches probe data: imported
# / included without context (module cached per environment; data only through the
# environment globals g_*) and imported with context (fresh module per render; data
# through the render context).  "@@" = re-mark the fragment label after the
# statement that may have run a module body.
MOD_FRAGS = [
    ("import-module-body", "{% import 'glib.j2' as G_A %}@@{{ G_A.head() }}{{ G_A.title }}"
                           "{{ G_A.total }}{{ G_A.foot() }}", 0),
    ("from-import-module-body", "{% from 'glib.j2' import head as h_A, label as l_A, flag as f_A %}"
                                "@@{{ h_A(rec.a) }}{{ l_A }}{{ f_A }}", 0),
    ("include-nocontext-body", "{% include 'incg.j2' without context %}@@{{ rec.a }}", 0),
    ("include-nocontext-body", "{% include ['nope.j2', 'incg.j2'] ignore missing without context %}"
                               "@@{{ fn() }}", 0),
    ("import-with-context-body", "{% import 'libctx.j2' as C_A with context %}@@{{ C_A.cm() }}"
                                 "{{ C_A.cv }}{{ C_A.cf }}", 0),
    ("from-import-with-context-body", "{% from 'libctx.j2' import cm as cm_A, cv as cv_A with context %}"
                                      "@@{{ cm_A() }}{{ cv_A }}", 0),
    ("include-importer", "{% include 'incimp.j2' %}@@{{ s }}", 0),
]

# i18n fragments (only in environments with the i18n extension).  style: None =
# both gettext styles, "new" / "old" = needs that calling convention.
I18N_FRAGS = [
    ("trans-var", "{% trans who=s %}Hello {{ who }}!{% endtrans %}"
                  "{% trans %}Hi {{ s }} 100% sure{% endtrans %}", None),
    ("trans-html", "{% trans u=h, w=s %}x {{ u }} y {{ w }}{% endtrans %}", None),
    ("trans-plural", "{% trans n=rec.a, who=s %}{{ who }} has {{ n }} item{% pluralize %}"
                     "{{ who }} has {{ n }} items{% endtrans %}"
                     "{% trans num=rec.sub.c %}{{ num }} a{% pluralize %}{{ num }} as{% endtrans %}",
     None),
    ("trans-plural-var", "{% trans who=rec, k=rec.k %}{{ who }} one {{ k }}{% pluralize k %}"
                         "{{ who }} many {{ k }}{% endtrans %}", None),
    ("trans-context", "{% trans \"menu\" trimmed who=s %}  Open {{ who }}\n   now {% endtrans %}"
                      "{% trans \"m2\" n=rec.a %}{{ n }} x{% pluralize %}{{ n }} xs{% endtrans %}",
     None),
    ("trans-format-obj", "{% trans v=fm %}f {{ v }}{% endtrans %}", None),
    ("trans-novars", "{% trans %}plain & 100% text{% endtrans %}{{ _('direct') }}", None),
    ("gettext-call-new", "{{ gettext('signed %(who)s', who=s) }}"
                         "{{ _('by %(w)s and %(u)s', w=s, u=h) }}"
                         "{{ ngettext('%(num)d of %(w)s', '%(num)d off %(w)s', rec.a, w=s) }}"
                         "{{ pgettext('c', 'p %(w)s', w=fm) }}{{ gettext('no vars 100%%') }}"
                         "{{ npgettext('c', '%(num)d q %(r)s', '%(num)d qs %(r)s', rec.sub.c, r=rec) }}",
     "new"),
    ("gettext-call-old", "{{ gettext('signed %(who)s') % {'who': s} }}"
                         "{{ _('by %(w)s')|format(w=s) }}"
                         "{{ ngettext('%(n)s a', '%(n)s as', rec.a) % {'n': rec.a} }}"
                         "{{ _('x %s')|format(h) }}{{ pgettext('c', 'p %(w)s') % {'w': fm} }}",
     "old"),
]

LIB = ("{% macro show(p) %}<{{ p.a }}|{{ p.sub.d }}>{% endmacro %}"
       "{% macro each(xs) %}{% for x in xs %}{{ x }};{% endfor %}{% endmacro %}"
       "{% macro wrap() %}({{ caller() }}){% endmacro %}")
INC = "{{ mark('inc') }}{{ rec.b }}{% for x in it %}{{ x }}{% endfor %}{{ fn() }}{{ s }}"
INCNC = "static{{ 1 + 1 }}"
BASE = ("{% import 'lib.j2' as lib %}{% import 'slib.j2' as sl %}{% import 'dlib.j2' as dl %}<base>{% block body %}{{ mark('base-block') }}{{ rec.a }}"
        "{% endblock %}|{% block foot %}{{ mark('base-foot') }}{{ s }}{{ fn() }}{% endblock %}"
        "{{ mark('self-block') }}{{ self.foot() }}</base>")


LIBCTX = ("{{ mark('mod:libctx') }}{% set cv = rec.a %}{% set cf = fn() %}"
          "{% macro cm() %}{{ cv }}{{ cf }}{{ s }}{% endmacro %}{{ rec.b }}")
INCIMP = ("{% from 'glib.j2' import head, title %}{{ mark('include-importer') }}{{ head(rec.a) }}"
          "{{ title }}")


def gen_modlib(rng, is_async):
    """glib.j2: a library whose top-level body reads probe data through the
    environment globals (variables title/total/label/flag/item, macros head/foot
    that use them), statements in random order."""
    sets = ["{% set title = g_fn() %}", "{% set total = g_it|sum %}",
            "{% set label = g_rec.a ~ '/' ~ g_s %}", "{% set flag = 'on' if g_b else 'off' %}",
            "{% set item = g_rec['k'] %}"]
    if is_async:
        sets[0] = "{% set title = g_afn() %}"
    rng.shuffle(sets)
    extra = ["{% macro head(p='') %}<{{ title }}|{{ total }}|{{ label }}|{{ p }}>{% endmacro %}",
             "{% macro foot() %}[{{ flag }}{{ item }}{{ g_fn() }}]{% endmacro %}",
             "{{ g_rec.b }}"]
    if rng.random() < 0.4:
        extra.append("{% import 'lib.j2' as inner %}")
    if rng.random() < 0.4:
        extra.append("{% for x in g_it %}{{ x }}{% endfor %}")
    # scoped eval-context changes around data events of the module body itself
    if rng.random() < 0.5:
        extra.append(rng.choice([
            "{% autoescape true %}{{ g_s }}{{ g_fn() }}{% endautoescape %}",
            "{% autoescape false %}{% set ae_v = g_rec.a ~ g_s %}{{ g_rec.b }}{% endautoescape %}",
            "{% autoescape g_rec.a is odd %}{% for x in g_it %}{{ x }}{% endfor %}{% endautoescape %}",
            "{% evalctx autoescape=true %}{{ [g_s, g_rec.b]|join(',') }}{% endevalctx %}"]))
    parts = list(sets)
    for e in extra:
        parts.insert(rng.randint(0, len(parts)), e)
    return "{{ mark('mod:glib') }}" + "".join(parts)


def gen_modinc(rng, is_async):
    """incg.j2: included WITHOUT context, body output built from global probes."""
    pool = ["{{ g_fn() }}", "{{ g_rec.a }}", "{% for x in g_it %}{{ x }},{% endfor %}", "{{ g_s }}",
            "{% if g_b %}T{% endif %}", "{{ g_rec['k'] }}",
            "{% import 'glib.j2' as GI %}{{ mark('mod:incg') }}{{ GI.head() }}{{ GI.item }}",
            "{% autoescape true %}{{ g_s }}{{ g_fn() }}{{ [g_s, '<']|join }}{% endautoescape %}",
            "{% autoescape false %}{{ g_rec.b }}{% endautoescape %}{{ g_s|ectx }}"]
    if is_async:
        pool.append("{{ g_afn() }}")
    k = rng.randint(3, len(pool))
    picked = rng.sample(pool, k)
    return "{{ mark('mod:incg') }}pre" + "".join(picked) + "post"


def gen_i18n(rng):
    if rng.random() < 0.4:
        return None
    return {"newstyle": rng.random() < 0.6,
            "callables": rng.choice(["null", "custom", "custom", "lazy"])}


def gen_case(rng, is_async):
    i18n = gen_i18n(rng)
    pool = [f for f in FRAGS + SH.MAIN_FRAGS if is_async or not f[2]]
    ipool = []
    if i18n:
        style = "new" if i18n["newstyle"] else "old"
        ipool = [(lab, src, 0) for lab, src, st in I18N_FRAGS if st in (None, style)]
    autoescape = rng.random() < 0.5
    # sentinels (eval-context sensitive expressions over constants) in every module
    # that is cached per environment
    sense = SH.sense_macros(bool(i18n and i18n["newstyle"]))
    dlib, dvariant = DF.gen_dlib(rng, i18n, autoescape)
    tpls = {"dlib.j2": dlib, "lib.j2": LIB + sense, "inc.j2": INC, "incnc.j2": INCNC, "base.j2": BASE,
            "glib.j2": gen_modlib(rng, is_async) + sense, "incg.j2": gen_modinc(rng, is_async),
            "libctx.j2": LIBCTX, "incimp.j2": INCIMP,
            "slib.j2": SH.gen_slib(rng, is_async, i18n, autoescape), "sinc.j2": SH.SINC,
            "sincp.j2": SH.SINCP,
            SH.PROBE: SH.SEG.join([SH.gen_probe()] + DF.PROBE_SEGS),
            SH.SELFCHECK: SH.gen_selfcheck(bool(i18n and i18n["newstyle"]))}
    spool = [(lab, src, 0) for lab, src, needs in SH.SHARED_FRAGS
             if needs is None or (needs == "async" and is_async) or (needs == "i18n" and i18n)]
    # macros / call blocks defined inside scoped constructs of the cached dlib.j2 and
    # called after those constructs ended
    dpool = DF.frags(dvariant, is_async)
    mains = []
    labels = {}
    for mi in range(3):
        nf = rng.randint(2, 4)
        frags = []
        for _ in range(nf):
            c = rng.random()
            if ipool and c < 0.36:
                frags.append(rng.choice(ipool))
            elif c > 0.86:
                frags.append(rng.choice(MOD_FRAGS))
            elif c > 0.56:
                deferred = rng.random() < 0.4
                lab, src, _ = rng.choice(dpool if deferred else spool)
                if rng.random() < 0.5:
                    # the sentinel right behind the guarded macros, in the same template
                    src += "{{ " + ("dl." if deferred else "sl.") + SH.SENSE_CALL + " }}"
                frags.append((lab, src, 0))
            else:
                frags.append(rng.choice(pool))
        # unique macro / variable names per use
        body = ""
        labs = []
        for fi, (lab, src, _) in enumerate(frags):
            suffix = "%d_%d" % (mi, fi)
            mk = "{{ mark('%s') }}" % lab
            body += mk + src.replace("_A", "_A" + suffix).replace("_B", "_B" + suffix) \
                .replace("@@", mk)
            labs.append(lab)
        name = "m%d.j2" % mi
        if rng.random() < 0.35:
            src = ("{% extends 'base.j2' %}{% block body %}" + body
                   + ("{{ mark('super') }}{{ super() }}" if rng.random() < 0.6 else "")
                   + "{% endblock %}")
            labs += ["base-foot", "self-block"]
        else:
            src = ("{% import 'lib.j2' as lib %}{% import 'slib.j2' as sl %}"
                   "{% import 'dlib.j2' as dl %}" + body)
        tpls[name] = src
        mains.append(name)
        labels[name] = labs
    case = {"tpls": tpls, "mains": mains, "labels": labels, "is_async": bool(is_async),
            "autoescape": autoescape, "i18n": i18n, "probes": [SH.PROBE]}
    if not is_async:
        # Template.module is the same cached module, reached from Python
        case["modcalls"] = SH.gen_modcalls(rng) + DF.modcalls(rng, dvariant)
    return case
