"""Deterministic line-level thread scheduler built on sys.monitoring.

Real threads run the real code; only the thread holding the baton executes.
Every LINE event in one of the watched code objects is a pre-emption point at
which the scheduler decides (from a choice prefix, default "keep running")
which thread continues.  Locks of the object under test are replaced by
cooperative locks so that a blocked acquirer yields instead of deadlocking
the baton protocol.  A stateless DFS over choice prefixes enumerates all
schedules up to a pre-emption bound.
"""
from __future__ import annotations

import sys
import threading

TOOL = 3  # sys.monitoring tool id (0..5); 3 is unused by debuggers/coverage
_mon = sys.monitoring


class Deadlock(Exception):
    pass


class CoopLock:
    """Drop-in for threading.Lock under the scheduler."""

    def __init__(self, sched):
        self.sched = sched
        self.owner = None
        self.acquisitions = 0

    def acquire(self, blocking=True, timeout=-1):
        s = self.sched
        idx = s.me()
        if idx is None:  # unmanaged thread (setup/teardown): plain semantics
            assert self.owner is None
            self.owner = -1
            return True
        while self.owner is not None:
            if not blocking:
                return False
            s.block(idx, self)
        self.owner = idx
        self.acquisitions += 1
        return True

    def release(self):
        self.owner = None
        self.sched.unblock(self)

    def locked(self):
        return self.owner is not None

    __enter__ = acquire

    def __exit__(self, *a):
        self.release()


class Sched:
    def __init__(self, codes, prefix=(), on_point=None):
        self.codes = list(codes)
        self.prefix = list(prefix)
        self.trace = []  # (enabled tuple, chosen, current_or_None, loc)
        self.idents = {}
        self.n = 0
        self.finished = []
        self.blocked = []
        self.sems = []
        self.current = None
        self.done = threading.Event()
        self.error = None
        self.points = 0
        self.locked_points = 0
        self.locks = []
        self.on_point = on_point

    def me(self):
        return self.idents.get(threading.get_ident())

    # -- choice ----------------------------------------------------------
    def _enabled(self):
        return tuple(i for i in range(self.n)
                     if not self.finished[i] and self.blocked[i] is None)

    def _choose(self, cur, loc):
        en = self._enabled()
        if not en:
            return None
        step = len(self.trace)
        if len(en) == 1:
            ch = en[0]
        elif step < len(self.prefix) and self.prefix[step] in en:
            ch = self.prefix[step]
        elif cur is not None and cur in en:
            ch = cur
        else:
            ch = en[0]
        self.trace.append((en, ch, cur if (cur is not None and cur in en) else None, loc))
        return ch

    def _switch(self, idx, ch):
        if ch == idx:
            return
        self.current = ch
        self.sems[ch].release()
        self.sems[idx].acquire()

    # -- scheduling points ----------------------------------------------
    def point(self, idx, loc):
        self.points += 1
        if any(l.owner is not None for l in self.locks):
            self.locked_points += 1
        ch = self._choose(idx, loc)
        self._switch(idx, ch)

    def block(self, idx, lock):
        self.blocked[idx] = lock
        ch = self._choose(None, ("block", idx))
        if ch is None:
            self.error = Deadlock(f"all threads blocked; thread {idx} waits for a lock")
            self.blocked[idx] = None
            self.done.set()
            raise self.error
        self._switch(idx, ch)

    def unblock(self, lock):
        for j in range(self.n):
            if self.blocked[j] is lock:
                self.blocked[j] = None

    def _finish(self, idx):
        self.finished[idx] = True
        ch = self._choose(None, ("finish", idx))
        if ch is None:
            self.done.set()
            return
        self.current = ch
        self.sems[ch].release()

    # -- driver ----------------------------------------------------------
    def _line(self, code, lineno):
        idx = self.idents.get(threading.get_ident())
        if idx is not None:
            self.point(idx, (code.co_name, lineno))

    def run(self, fns, timeout=20.0):
        self.n = len(fns)
        self.finished = [False] * self.n
        self.blocked = [None] * self.n
        self.sems = [threading.Semaphore(0) for _ in fns]
        excs = [None] * self.n

        def body(i):
            self.idents[threading.get_ident()] = i
            self.sems[i].acquire()
            try:
                fns[i]()
            except BaseException as e:  # recorded by the harness too
                excs[i] = e
            finally:
                self._finish(i)

        ths = [threading.Thread(target=body, args=(i,), daemon=True) for i in range(self.n)]
        _mon.use_tool_id(TOOL, "vt.sched")
        try:
            _mon.register_callback(TOOL, _mon.events.LINE, self._line)
            for c in self.codes:
                _mon.set_local_events(TOOL, c, _mon.events.LINE)
            for t in ths:
                t.start()
            first = self._choose(None, ("start",))
            self.current = first
            self.sems[first].release()
            ok = self.done.wait(timeout)
            for t in ths:
                t.join(1.0)
        finally:
            for c in self.codes:
                _mon.set_local_events(TOOL, c, 0)
            _mon.register_callback(TOOL, _mon.events.LINE, None)
            _mon.free_tool_id(TOOL)
        if not ok:
            raise TimeoutError("scheduler watchdog")
        return excs


def preemptions(trace_or_choices):
    return sum(1 for en, ch, cur, loc in trace_or_choices if cur is not None and ch != cur)


def explore(run_one, bound, max_runs=None):
    """Stateless DFS.  run_one(prefix) -> trace (list of (enabled, chosen,
    cur, loc)).  Yields each executed trace.  Alternatives at position p are
    the other enabled threads; a schedule is kept when its number of
    pre-emptions (switching away from a still-enabled current thread) stays
    within `bound`."""
    stack = [[]]
    runs = 0
    while stack:
        prefix = stack.pop()
        trace = run_one(prefix)
        runs += 1
        yield prefix, trace
        if max_runs is not None and runs >= max_runs:
            return
        # children: deviate at positions >= len(prefix)
        base_pre = 0
        for p, (en, ch, cur, loc) in enumerate(trace):
            if p >= len(prefix):
                for alt in en:
                    if alt == ch:
                        continue
                    cost = base_pre + (1 if (cur is not None and alt != cur) else 0)
                    if cost <= bound:
                        stack.append([t[1] for t in trace[:p]] + [alt])
            if cur is not None and ch != cur:
                base_pre += 1
