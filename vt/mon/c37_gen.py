"""C37 workload: template sets whose main templates are lists of *labelled
fragments* (so an output difference can be attributed to a construct), per-task
data with an async gate function ``g``, and the enumeration of gate-release
orders.

Output layout of a main template: fragments separated by ``\\x1f``; each
fragment starts with ``<label>\\x1e``.
"""
from __future__ import annotations

import math

from vt.mon import c37_filters as FF
from vt.mon import c37_kinds as KN

SEP = "\x1f"
LAB = "\x1e"

LIB = (
    "{% set K = 7 %}"
    "{% macro row(f, x) %}<{{ x }}:{{ f(x) }}:{{ K }}>{% endmacro %}"
    "{% macro wrap(f, t) %}[{{ caller() }}|{{ f(t) }}|{{ caller() }}]{% endmacro %}"
    "{% macro acc(f, xs) %}{% set ns = namespace(s=0) %}{% for x in xs %}"
    "{% set ns.s = ns.s + x %}{{ f(x) }}{% endfor %}={{ ns.s }}{% endmacro %}"
    "{% macro acc0(f, xs) %}{% set ns = namespace() %}{% set ns.n = 0 %}{% set ns.acc = 'L' %}"
    "{% for x in xs %}{% set ns.n = ns.n + x %}{{ f(x) }}{% set ns.acc = ns.acc ~ x %}{% endfor %}"
    "={{ ns.n }}{{ ns.acc }}{% endmacro %}"
    "{% macro accd(f, xs, d) %}{% set ns = namespace(d) %}{% for x in xs %}"
    "{% set ns.n = ns.n + x %}{{ f(x) }}{% set ns.acc = ns.acc ~ x %}{% endfor %}"
    "={{ ns.n }}{{ ns.acc }}{% endmacro %}"
    "{% macro cyc(f, xs) %}{% set c = cycler('a', 'b', 'c') %}{% set j = joiner(',') %}"
    "{% for x in xs %}{{ j() }}{{ c.next() }}{{ f(x) }}{% endfor %}{{ c.current }}{% endmacro %}"
    "{% macro dflt(f, a, b='d' ~ K) %}{{ a }}{{ f(a) }}{{ b }}{% endmacro %}"
    "{% macro rec(f, n) %}{{ n }}{% if n > 0 %}{{ f(n) }}{{ rec(f, n - 1) }}{% endif %}{% endmacro %}"
)

# Macros of the cached library that modify its eval context for the duration of a
# block which contains an await point (zone() tells the harness when a task is
# inside), and probes whose output depends on the eval context they are handed:
# join / replace / xmlattr / urlize with text + Markup operands, a sibling macro
# call, a harness function reporting eval_ctx.autoescape.
LIB_EVALCTX = (
    "{% macro aeon(f, t, a, m) %}{{ zone('autoescape-block') }}{% autoescape true %}{{ a }}"
    "{{ f(t) }}{{ [a, m]|join(',') }}{{ a }}{% endautoescape %}{{ zone('') }}{% endmacro %}"
    "{% macro aeoff(f, t, a, m) %}{{ zone('autoescape-block') }}{% autoescape false %}{{ a }}"
    "{{ f(t) }}{{ a|replace('&', m) }}{{ a }}{% endautoescape %}{{ zone('') }}{% endmacro %}"
    "{% macro aedyn(f, t, a, flag) %}{{ zone('autoescape-block') }}{% autoescape flag %}{{ a }}"
    "{{ f(t) }}{{ {'k': a}|xmlattr }}{{ ectx() }}{{ a }}{% endautoescape %}{{ zone('') }}{% endmacro %}"
    "{% macro aenest(f, t, a) %}{{ zone('autoescape-block') }}{% autoescape true %}{{ a }}"
    "{% autoescape false %}{{ f(t) }}{{ a }}{% endautoescape %}{{ f(t ~ 'n') }}{{ a|urlize }}"
    "{% endautoescape %}{{ zone('') }}{% endmacro %}"
    "{% macro aecall(f, t) %}{{ zone('autoescape-block') }}{% autoescape true %}[{{ caller() }}"
    "{{ f(t) }}{{ caller() }}]{% endautoescape %}{{ zone('') }}{% endmacro %}"
    "{% macro sin(a) %}<{{ a }}>{% endmacro %}"
    "{% macro sense0(a, m) %}J{{ [a, m]|join(',') }}|R{{ a|replace('&', m) }}|X{{ {'k': a}|xmlattr }}"
    "|U{{ a|urlize }}|E{{ ectx() }}|M{{ sin(a) }}{% endmacro %}"
    "{% macro sense(f, t, a, m) %}{{ sense0(a, m) }}~{{ f(t) }}~{{ sense0(m, a) }}{% endmacro %}"
)
LIB = LIB + LIB_EVALCTX

# TEMPLATE-LEVEL GLOBALS: names the cached library reads but never defines.  They come
# from the globals of whatever template imports the library (Environment.get_template(
# name, globals=...)); an importer that has such globals gets a module of its own, the
# others share the cached one.  The values are plain alphanumeric strings and the
# macros print nothing else, so what they render does not depend on the eval context.
TG_NAMES = ("SITE", "TG2")
LIB_TG = (
    "{% set SV = 'sv-' ~ SITE|default('nosite') %}"
    "{% macro site0() %}({{ SITE|default('nosite') }}:{{ TG2|default('no2') }}:{{ K }}){% endmacro %}"
)
LIB = LIB + LIB_TG
# included WITHOUT context: sees neither the includer's variables nor its template-level
# globals; imports the same cached library
TGINC = "{% import 'lib.j2' as tl %}inc{{ tl.site0() }}{{ tl.SV }}{{ SITE|default('nosite') }}"
# per main template (m0, m1): the globals it is loaded with (None: none)
TG_VARIANTS = [
    ({"SITE": "SA"}, None),
    (None, {"SITE": "SB", "TG2": "TB"}),
    ({"SITE": "SA"}, {"SITE": "SB"}),
    ({"TG2": "TA"}, {"SITE": "SB"}),
    ({"SITE": "SA", "TG2": "TA"}, None),
    (None, {"TG2": "TB"}),
]
TG_LABELS = ("import-macro-template-globals", "from-import-template-globals",
             "late-import-template-globals", "include-without-context-template-globals",
             "template-globals")

# type families with an awaitable and a plain member
PAIR_FAMILIES = ["generator", "class-named-Val", "Base-hierarchy", "AwBase-hierarchy"]

ALL_LABELS = (
    "loop", "nested-loop", "namespace", "namespace-bare", "namespace-dict", "import-macro",
    "import-call-block", "import-macro-namespace", "import-macro-cycler", "autoescape-const",
    "autoescape-dynamic", "local-macro", "local-call-block", "include", "set-block",
    "cycler-joiner", "with", "recursive-loop", "async-filters", "loop-filter", "assign",
    "import-with-context", "import-macro-autoescape", "import-macro-evalctx-probe",
    "awaitable-kinds", "filter-forms", "base", "base2", "super") + TG_LABELS

# labels of fragments that run code of the cached library lib.j2 (whose Context and
# eval context are shared by every task that imports it)
LIB_USING_LABELS = frozenset([
    "import-macro", "import-call-block", "import-macro-namespace", "import-macro-cycler",
    "namespace-dict", "autoescape-dynamic", "include", "import-macro-autoescape",
    "import-macro-evalctx-probe"])

# library imported "with context": sees the importing render's variables
LIBCTX = (
    "{% macro who(t) %}{{ name }}/{{ g(t) }}/{{ name }}{% endmacro %}"
    "{% set cname = name %}"
)

INC = [
    "{{ name }}{{ g('i1') }}{% for x in xs %}{{ loop.index }}{{ g(x) }}{{ name }}{% endfor %}",
    "{% set iv = name ~ '!' %}{{ g('i2') }}{{ iv }}{% import 'lib.j2' as l2 %}{{ l2.row(g, 1) }}",
    "{% set ns = namespace(c=0) %}{% for x in xs %}{% set ns.c = ns.c + 1 %}{{ g(x) }}{% endfor %}{{ ns.c }}{{ name }}",
    "{% set ns = namespace() %}{% set ns.n = 0 %}{% set ns.acc = name %}{% for x in xs %}"
    "{% set ns.n = ns.n + 1 %}{{ g(x) }}{% set ns.acc = ns.acc ~ ns.n %}{% endfor %}{{ ns.n }}{{ ns.acc }}",
]


class FG:
    """Fragment generator; every fragment contains at least one ``g()`` call."""

    def __init__(self, rng, filters=None, with_filter_forms=False):
        self.r = rng
        self.n = 0
        # filter-forms fragments are part of the alphabet of the pair cases only: the
        # generated-template cases keep their composition (and random stream)
        self.with_filter_forms = with_filter_forms
        # names of the environment's filters the filter-forms fragments may use
        self.fnames = [f for f in FF.ALL if filters is None or f in filters]

    def t(self):
        self.n += 1
        return f"'q{self.n}'"

    def frag(self):
        r = self.r
        makers = [self.loop, self.loop2, self.namespace, self.namespace_bare, self.namespace_dict, self.imp_macro, self.imp_call,
                  self.imp_acc, self.imp_cyc, self.autoescape, self.autoescape_dyn,
                  self.local_macro, self.include, self.setblock, self.cycler, self.with_,
                  self.recursive, self.filters, self.loopfilter, self.assign, self.ctx_import,
                  self.callblock_local, self.autoescape_dyn, self.namespace_bare,
                  self.imp_autoescape, self.imp_autoescape, self.imp_evalctx_probe,
                  self.imp_evalctx_probe, self.kinds, self.kinds, self.kinds, self.kinds]
        if self.with_filter_forms and r.random() < 0.4:
            return self.filter_forms()
        return r.choice(makers)()

    def ft(self):
        """Tag of a g() call the gate chooser prefers (the await points around which the
        forced filter-form pairs are built)."""
        self.n += 1
        return "'ff%d'" % self.n

    def filter_forms(self, role=None, names=None):
        """Uses of built-in filters in plain and rare argument forms around g() calls.
        role None: 2-4 uses of random filters in random forms.  role 'plain-sandwich':
        the plain form of every filter in names, a g() call, the plain forms again
        (optionally a second round).  role 'rare-between': a g() call, one rare form of
        every filter in names, a g() call (optionally the plain forms afterwards)."""
        r = self.r
        if role is None:
            uses = []
            for _ in range(r.randint(2, 4)):
                f = r.choice(self.fnames)
                rare = sorted(FF.TABLE[f][1])
                form = r.choice(rare) if rare and r.random() < 0.5 else FF.PLAIN
                uses.append(FF.use(f, form, r))
            uses.insert(r.randint(0, len(uses)), "{{ g(" + self.t() + ") }}")
            if r.random() < 0.5:
                uses.insert(r.randint(0, len(uses)), "{{ g(" + self.t() + ") }}")
            return ("filter-forms", "".join(uses))
        plain = "".join(FF.use(f, FF.PLAIN) for f in names)
        if role == "plain-sandwich":
            src = plain + "{{ g(" + self.ft() + ") }}" + plain
            if r.random() < 0.25:
                src += "{{ g(" + self.ft() + ") }}" + plain
            return ("filter-forms", src)
        rare = "".join(FF.use(f, r.choice(sorted(FF.TABLE[f][1]))) for f in names)
        src = "{{ g(" + self.ft() + ") }}" + rare + "{{ g(" + self.ft() + ") }}"
        c = r.random()
        if c < 0.25:
            src += plain
        elif c < 0.5:
            src = plain + src
        return ("filter-forms", src)

    # engine-made lazy results that pass through the await-if-awaitable wrapper as
    # filter results: (name, type family noted for the harness, source)
    LAZY = [
        ("batch", "generator", "{% for c in xs|batch(2) %}{{ c|join('+') }};{% endfor %}"),
        ("slice", "generator", "{% for c in xs|slice(2) %}{{ c|join('+') }};{% endfor %}"),
        ("unique", "generator", "{{ xs|unique|join('-') }}"),
        ("map", "async_generator", "{{ xs|map('string')|join('-') }}"),
        ("select", "async_generator", "{{ xs|select('odd')|list|length }}"),
        ("reverse", "reverse-iterator", "{{ xs|reverse|join('-') }}"),
        ("batch-map", "generator", "{{ xs|batch(2)|map('join', '+')|join(';') }}"),
    ]

    def kind_use(self, kind=None, chan=None):
        """One value of a kind reaching the template through a channel, printed as
        ``[channel.kind=...]``."""
        r = self.r
        kind = kind or r.choice(sorted(KN.KINDS))
        chan = chan or r.choice(KN.CHANNELS)
        tag = self.t()
        if chan == "call":
            expr = "k.mk('%s', %s)" % (kind, tag)
        elif chan in ("fn", "part", "obj"):
            expr = "k.%s.%s(%s)" % (chan, kind, tag)
        elif chan == "attr":
            expr = "k.at.%s_%s" % (kind, tag.strip("'"))
        elif chan == "item":
            expr = "k.it['%s_%s']" % (kind, tag.strip("'"))
        elif chan == "filter":
            expr = "(k|mk('%s', %s))" % (kind, tag)
        else:
            expr = "([k]|map('mk', '%s', %s)|first)" % (kind, tag)
        if KN.KINDS[kind][2] == "str":
            body = "{{ " + expr + " }}"
        else:
            body = r.choice(["{{ " + expr + "|join('/') }}",
                             "{% for v in " + expr + " %}{{ v }}/{% endfor %}",
                             "{{ " + expr + "|list|length }}"])
        return "[" + chan + "." + kind + "=" + body + "]"

    def lazy_use(self, which=None):
        name, family, src = which or self.r.choice(self.LAZY)
        return "[lazy." + name + "={{ k.note('" + family + "', 0) }}" + src + "]"

    def kinds(self, first=None, family=None):
        """2-5 values of different kinds; first: 'plain' / 'awaitable' forces what the
        fragment starts with (a plain value before its first await point / an awaitable
        behind it), family: of which type family."""
        r = self.r
        uses = []
        fams = PAIR_FAMILIES if family == "*" else [family]
        if first == "plain":
            for fam in fams:
                fam_kinds = [k for k in sorted(KN.KINDS) if fam in (None, KN.KINDS[k][1])]
                opts = [(self.kind_use, k) for k in fam_kinds if not KN.KINDS[k][0]]
                opts += [(self.lazy_use, z) for z in self.LAZY if fam in (None, z[1])]
                f, a = r.choice(opts)
                uses.append(f(a))
            uses.append("{{ g(" + self.t() + ") }}")
        elif first == "awaitable":
            uses.append("{{ g(" + self.t() + ") }}")
            for fam in fams:
                fam_kinds = [k for k in sorted(KN.KINDS) if fam in (None, KN.KINDS[k][1])]
                uses.append(self.kind_use(r.choice([k for k in fam_kinds if KN.KINDS[k][0]])))
        for _ in range(r.randint(2, 4)):
            c = r.random()
            uses.append(self.lazy_use() if c < 0.25 else self.kind_use())
        uses.insert(r.randint(1, len(uses)), "{{ g(" + self.t() + ") }}")
        return ("awaitable-kinds", "".join(uses))

    def loop(self):
        a = self.r.choice(["{{ loop.index }}/{{ loop.length }}", "{{ loop.revindex }}",
                           "{{ loop.first }}{{ loop.last }}", "{{ loop.cycle('x', 'y') }}",
                           "{{ loop.previtem }}>{{ loop.nextitem }}",
                           "{% if loop.changed(x % 2) %}c{% endif %}"])
        return ("loop", "{% for x in xs %}" + a + ":{{ g(x) }}" + a
                + "{% if not loop.last %},{% endif %}{% endfor %}")

    def loop2(self):
        return ("nested-loop",
                "{% for x in xs %}{% set outer = loop %}{% for y in ys %}{{ outer.index }}."
                "{{ loop.index }}{{ g(y) }}{{ outer.index0 }}{% endfor %}{{ g(x) }}{{ loop.index }};"
                "{% endfor %}")

    def namespace(self):
        return ("namespace",
                "{% set ns = namespace(n=0, acc='') %}{% for x in xs %}{% set ns.n = ns.n + x %}"
                "{{ g(x) }}{% set ns.acc = ns.acc ~ x %}{% endfor %}{{ ns.n }}|{{ ns.acc }}")

    def namespace_bare(self):
        # namespace() without arguments, attributes initialised by later
        # assignments (optionally created before / inside / after a g() call,
        # optionally a second namespace alive at the same time)
        r = self.r
        init = r.choice(["{% set ns.n = 0 %}{% set ns.acc = name %}",
                         "{% set ns.acc = name %}{{ g(" + self.t() + ") }}{% set ns.n = 0 %}",
                         "{% set ns.n, ns.acc = 0, name %}"])
        second = r.random() < 0.4
        return ("namespace-bare",
                "{% set ns = namespace() %}" + init
                + ("{% set other = namespace() %}{% set other.n = 100 %}{% set other.acc = '' %}"
                   if second else "")
                + "{% for x in xs %}{% set ns.n = ns.n + x %}{{ g(x) }}"
                + ("{% set other.n = other.n + 1 %}{% set other.acc = other.acc ~ name %}"
                   if second else "")
                + "{% set ns.acc = ns.acc ~ x %}{% endfor %}{{ ns.n }}|{{ ns.acc }}"
                + ("|{{ other.n }}|{{ other.acc }}" if second else ""))

    def namespace_dict(self):
        # namespace(mapping from data): a per-render dict, a dict shared by the
        # concurrently rendering tasks, a dict literal, mapping + keywords
        arg = self.r.choice(["init", "shared_init", "shared_init", "{'n': 0, 'acc': name}",
                             "init, acc='k'", "shared_init, n=1", "dict(shared_init)"])
        if self.r.random() < 0.3:
            return ("namespace-dict", "{{ lib.accd(g, xs, "
                    + self.r.choice(["init", "shared_init", "{'n': 0, 'acc': name}"]) + ") }}")
        return ("namespace-dict",
                "{% set ns = namespace(" + arg + ") %}{% for x in xs %}{% set ns.n = ns.n + x %}"
                "{{ g(x) }}{% set ns.acc = ns.acc ~ x %}{% endfor %}{{ ns.n }}|{{ ns.acc }}")

    def imp_macro(self):
        return ("import-macro", "{{ lib.row(g, " + self.t() + ") }}{{ name }}"
                "{{ lib.dflt(g, 'z') }}{{ lib.rec(g, 2) }}")

    def imp_call(self):
        return ("import-call-block",
                "{% call lib.wrap(g, " + self.t() + ") %}{{ name }}{{ g('cb') }}{% endcall %}")

    def imp_acc(self):
        m = self.r.choice(["acc", "acc0"])
        return ("import-macro-namespace", "{{ lib." + m + "(g, xs) }}")

    def imp_cyc(self):
        return ("import-macro-cycler", "{{ lib.cyc(g, xs) }}")

    def imp_autoescape(self):
        # a macro of the cached library awaits inside an autoescape block
        k = self.r.choice(["aeon", "aeoff", "aedyn", "aenest", "aecall", "aeon", "aeoff"])
        if k in ("aeon", "aeoff"):
            body = "{{ lib." + k + "(g, " + self.t() + ", name, name|safe) }}"
        elif k == "aedyn":
            body = "{{ lib.aedyn(g, " + self.t() + ", name, ae) }}{{ lib.aedyn(g, 'd2', name, not ae) }}"
        elif k == "aenest":
            body = "{{ lib.aenest(g, " + self.t() + ", name) }}"
        else:
            body = ("{% call lib.aecall(g, " + self.t() + ") %}{{ name }}{{ g('cb') }}"
                    "{{ [name, name|safe]|join('+') }}{% endcall %}")
        return ("import-macro-autoescape", body + "{{ name }}")

    def imp_evalctx_probe(self):
        # eval-context sensitive output produced inside the cached library
        if self.r.random() < 0.5:
            return ("import-macro-evalctx-probe",
                    "{{ lib.sense(g, " + self.t() + ", name, name|safe) }}")
        return ("import-macro-evalctx-probe",
                "{{ lib.sense0(name, name|safe) }}{{ g(" + self.t() + ") }}"
                "{{ lib.sense0('<k&' ~ name, '<i>'|safe) }}{{ g(" + self.t() + ") }}"
                "{{ lib.sense0(name|safe, name) }}")

    def autoescape(self):
        v = self.r.choice(["true", "false"])
        return ("autoescape-const",
                "{% autoescape " + v + " %}{{ name }}{{ g(" + self.t() + ") }}{{ name }}"
                "{% endautoescape %}{{ name }}")

    def autoescape_dyn(self):
        return ("autoescape-dynamic",
                "{{ name }}{% autoescape ae %}{{ name }}{{ g(" + self.t() + ") }}{{ name }}"
                "{{ lib.row(g, name) }}{% endautoescape %}{{ name }}{{ g(" + self.t() + ") }}"
                "{{ name }}")

    def local_macro(self):
        self.n += 1
        m = "m%d" % self.n
        return ("local-macro",
                "{% macro " + m + "(a, b=name) %}{{ a }}{{ g(a) }}{{ b }}{{ name }}{% endmacro %}"
                "{{ " + m + "(1) }}{{ " + m + "(2, 'k') }}")

    def callblock_local(self):
        self.n += 1
        m = "c%d" % self.n
        return ("local-call-block",
                "{% macro " + m + "(a) %}({{ caller(a) }}{{ g(a) }}{{ caller(name) }}){% endmacro %}"
                "{% call(v) " + m + "(" + self.t() + ") %}{{ v }}{{ g('k') }}{{ name }}{% endcall %}")

    def include(self):
        i = self.r.randrange(len(INC))
        return ("include", "{% include 'inc" + str(i) + ".j2' %}{{ name }}")

    def setblock(self):
        self.n += 1
        v = "cap%d" % self.n
        return ("set-block",
                "{% set " + v + " %}{{ g(" + self.t() + ") }}{{ name }}{% endset %}{{ " + v
                + "|upper }}{% filter lower %}{{ name }}{{ g('fb') }}{% endfilter %}")

    def cycler(self):
        return ("cycler-joiner",
                "{% set c = cycler(1, 2, 3) %}{% set j = joiner('|') %}{% for x in xs %}{{ j() }}"
                "{{ c.next() }}{{ g(x) }}{% endfor %}{{ c.current }}")

    def with_(self):
        return ("with", "{% with a = g(" + self.t() + "), b = name %}{{ a }}{{ b }}{{ g('w2') }}"
                "{{ a }}{{ b }}{% endwith %}")

    def recursive(self):
        return ("recursive-loop",
                "{% for n in tree recursive %}{{ n.v }}{{ g(n.v) }}{{ loop.depth }}"
                "{% if n.kids %}({{ loop(n.kids) }}){% endif %}{% endfor %}")

    def filters(self):
        return ("async-filters",
                "{{ xs|map('string')|join('-') }}{{ g(" + self.t() + ") }}"
                "{% for x in xs|select('odd') %}{{ g(x) }}{{ loop.index }}{% endfor %}"
                "{{ xs|sum }}")

    def loopfilter(self):
        return ("loop-filter",
                "{% for x in xs if x != skip %}{{ loop.index }}{{ g(x) }}{{ loop.length }}"
                "{% else %}none{% endfor %}")

    def assign(self):
        self.n += 1
        v = "v%d" % self.n
        return ("assign", "{% set " + v + " = name ~ g(" + self.t() + ") %}{{ g('p') }}{{ " + v
                + " }}")

    def tglobals(self, kind=None):
        """A fragment whose output depends on the template-level globals of the main
        template: through macros / exported variables of the cached library (imported at
        the head of the template, by a from-import, by an import behind an await point,
        by a template included without context) or read directly."""
        k = self.r.randrange(5) if kind is None else kind % 5
        if k == 0:
            return (TG_LABELS[0], "{{ lib.site0() }}{{ g(" + self.t() + ") }}{{ lib.SV }}"
                    "{{ lib.site0() }}")
        if k == 1:
            return (TG_LABELS[1], "{% from 'lib.j2' import site0 as s0, SV as sv0 %}{{ s0() }}"
                    "{{ g(" + self.t() + ") }}{{ sv0 }}{{ s0() }}")
        if k == 2:
            return (TG_LABELS[2], "{{ g(" + self.t() + ") }}{% import 'lib.j2' as latelib %}"
                    "{{ latelib.site0() }}{{ latelib.SV }}{{ g(" + self.t() + ") }}"
                    "{{ latelib.site0() }}")
        if k == 3:
            return (TG_LABELS[3], "{{ g(" + self.t() + ") }}{% include 'tginc.j2' without context %}"
                    "{{ g(" + self.t() + ") }}{{ lib.site0() }}")
        return (TG_LABELS[4], "{{ SITE|default('nosite') }}{{ g(" + self.t() + ") }}"
                "{{ TG2|default('no2') }}{% set q = SITE|default('n') ~ lib.SV %}"
                "{{ g(" + self.t() + ") }}{{ q }}")

    def ctx_import(self):
        return ("import-with-context",
                "{% from 'libctx.j2' import who, cname with context %}{{ who(" + self.t()
                + ") }}{{ cname }}")


def render_frags(frags):
    return SEP.join(lab + LAB + src for lab, src in frags)


def gen_case(rng, force_evalctx=False, force_kinds=False, all_families=False, rng2=None):
    """rng2: stream for the environment policy values of the case (None: defaults).
    force_kinds: both main templates get a fragment with values of several kinds,
    one starting with a plain / engine-made lazy value, the other with an awaitable
    one behind its first await point; tasks 0 / 1 render main 0 / 1.
    force_evalctx: main 0 gets a fragment whose imported macro awaits inside an
    autoescape block, main 1 an eval-context probe inside the same cached library, and
    tasks 0 / 1 render main 0 / 1."""
    fg = FG(rng)
    tpls = {"lib.j2": LIB, "libctx.j2": LIBCTX, "tginc.j2": TGINC}
    for i, s in enumerate(INC):
        tpls["inc%d.j2" % i] = s
    # parent with blocks
    tpls["base.j2"] = ("{% import 'lib.j2' as lib %}"
                       + "base" + LAB + "{{ name }}{% block b1 %}{{ g('b1') }}{{ name }}{% endblock %}"
                       + SEP + "base2" + LAB + "{% block b2 %}{{ name }}{% endblock %}{{ self.b1() }}")
    mains = []
    # type families with an awaitable and a plain member
    kfam = rng.choice(PAIR_FAMILIES + ["generator"]) if force_kinds else None
    for mi in range(2):
        nf = rng.randint(1, 3)
        frags = [fg.frag() for _ in range(nf)]
        if force_kinds and all_families:
            # first fragment of the template: every family, plain resp. awaitable member
            frags.insert(0, fg.kinds("plain" if mi == 0 else "awaitable", "*"))
        elif force_kinds:
            frags.insert(rng.randint(0, len(frags)),
                         fg.kinds("plain" if mi == 0 else "awaitable", kfam))
        if force_evalctx:
            extra = fg.imp_autoescape() if mi == 0 else fg.imp_evalctx_probe()
            frags.insert(rng.randint(0, len(frags)), extra)
            if rng.random() < 0.5:
                frags.insert(rng.randint(0, len(frags)),
                             fg.imp_evalctx_probe() if mi == 0 else fg.imp_autoescape())
        body = render_frags(frags)
        head = "{% import 'lib.j2' as lib %}"
        name = "m%d.j2" % mi
        if rng.random() < 0.35:
            src = ("{% extends 'base.j2' %}" + head + "{% block b1 %}" + body
                   + SEP + "super" + LAB + "{{ super() }}{% endblock %}"
                   + ("{% block b2 %}{{ g('ob2') }}{{ name }}{% endblock %}"
                      if rng.random() < 0.5 else ""))
        else:
            src = head + body
        tpls[name] = src
        mains.append(name)
    ntasks = rng.choice([2, 2, 3])
    names = ["<A&1>", "B\"2'", "C>3<"]
    tasks = []
    for t in range(ntasks):
        n = rng.randint(2, 3)
        xs = [rng.randint(1, 9) for _ in range(n)]
        tasks.append({
            "main": mains[t] if (force_evalctx or force_kinds) and t < 2 else rng.choice(mains),
            "name": names[t],
            "xs": xs,
            "ys": [t + 1, t + 4],
            "skip": rng.choice(xs),
            "ae": rng.random() < 0.5,
            "tree": [{"v": t + 1, "kids": [{"v": t + 5, "kids": []}]}, {"v": t + 3, "kids": []}],
            "gate_picks": [rng.random() for _ in range(4)],
        })
    # make sure there is contrast where it matters
    if ntasks >= 2 and tasks[0]["ae"] == tasks[1]["ae"]:
        tasks[1]["ae"] = not tasks[0]["ae"]
    return {"tpls": tpls, "tasks": tasks, "autoescape": rng.random() < 0.3,
            "policies": gen_policies(rng2) if rng2 is not None else None}


def assign_tglobals(rng, tasks, mains, offset=None):
    """Template-level globals are a property of the (cached) main template: tasks that
    render the same main template get the same ones.  offset: selects the variant
    (None: random)."""
    if offset is None:
        variant = rng.choice(TG_VARIANTS)
        flip = rng.random() < 0.5
    else:
        variant = TG_VARIANTS[offset % len(TG_VARIANTS)]
        flip = (offset // len(TG_VARIANTS)) % 2 == 1
    if flip:
        variant = variant[::-1]
    per_main = {m: variant[i % 2] for i, m in enumerate(mains)}
    for t in tasks:
        t["tglobals"] = dict(per_main[t["main"]]) if per_main[t["main"]] else None


def gen_policies(rng):
    """Environment-specific policy values (fresh objects per environment; 3 of 4 cases)
    or None = the default policy objects."""
    return rng.choice(FF.POLICY_VARIANTS + FF.POLICY_VARIANTS[1:] + [None])


def gen_pair_case(rng, offset, filters=None):
    """A small case built around one pair of filter-form fragments: main 0 = a g() call,
    one rare argument form of each of 8 built-in filters, a g() call; main 1 = the plain
    forms of the same filters, a g() call, the plain forms again; each next to 0-2 other
    fragments (40% of them 2-4 uses of random filters in random forms around g() calls,
    the others drawn from the general alphabet); tasks 0 / 1 render main 0 / 1, an
    optional third task either.
    offset selects the filters (consecutive slices of those that have rare forms).  The
    g() calls of the pair are always gates; <= 3 gates per task besides the start."""
    fg = FG(rng, filters, with_filter_forms=True)
    names = FF.pair_slice(offset, filters)
    tpls = {"lib.j2": LIB, "libctx.j2": LIBCTX}
    for i, s in enumerate(INC):
        tpls["inc%d.j2" % i] = s
    mains = []
    for mi in range(2):
        frags = [fg.filter_forms("rare-between" if mi == 0 else "plain-sandwich", names)]
        for _ in range(rng.choice([0, 1, 1, 2])):
            frags.insert(rng.randint(0, len(frags)), fg.frag())
        name = "m%d.j2" % mi
        tpls[name] = "{% import 'lib.j2' as lib %}" + render_frags(frags)
        mains.append(name)
    names3 = ["<A&1>", "B\"2'", "C>3<"]
    tasks = []
    for t in range(rng.choice([2, 2, 2, 3])):
        n = rng.randint(2, 3)
        xs = [rng.randint(1, 9) for _ in range(n)]
        tasks.append({
            "main": mains[t] if t < 2 else rng.choice(mains), "name": names3[t], "xs": xs,
            "ys": [t + 1, t + 4], "skip": rng.choice(xs), "ae": t % 2 == 0,
            "tree": [{"v": t + 1, "kids": [{"v": t + 5, "kids": []}]}, {"v": t + 3, "kids": []}],
            "gate_picks": [rng.random() for _ in range(4)],
        })
    return {"tpls": tpls, "tasks": tasks, "autoescape": rng.random() < 0.3,
            "policies": gen_policies(rng), "ff_pair": names, "maxg": 3}


def gen_tg_case(rng, offset):
    """A small case around TEMPLATE-LEVEL GLOBALS (rides along with every generated-template
    case, like the filter-form pair cases): main 0 / main 1 import the cached library at
    their head, hold 1-2 fragments whose output depends on the template-level globals of
    the main template (offset rotates through the five kinds) next to 0-1 fragments of the
    general alphabet, and are loaded with different template-level globals (offset rotates
    through TG_VARIANTS and their mirror images); tasks 0 / 1 render main 0 / 1, an
    optional third task either (sharing that main's globals); <= 3 gates per task
    besides the start."""
    fg = FG(rng)
    tpls = {"lib.j2": LIB, "libctx.j2": LIBCTX, "tginc.j2": TGINC}
    for i, s in enumerate(INC):
        tpls["inc%d.j2" % i] = s
    mains = []
    for mi in range(2):
        frags = [fg.tglobals(offset + 2 * mi)]
        if rng.random() < 0.5:
            frags.insert(rng.randint(0, len(frags)), fg.tglobals())
        if rng.random() < 0.5:
            frags.insert(rng.randint(0, len(frags)), fg.frag())
        name = "m%d.j2" % mi
        tpls[name] = "{% import 'lib.j2' as lib %}" + render_frags(frags)
        mains.append(name)
    names3 = ["<A&1>", "B\"2'", "C>3<"]
    tasks = []
    for t in range(rng.choice([2, 2, 3])):
        n = rng.randint(2, 3)
        xs = [rng.randint(1, 9) for _ in range(n)]
        tasks.append({
            "main": mains[t] if t < 2 else rng.choice(mains), "name": names3[t], "xs": xs,
            "ys": [t + 1, t + 4], "skip": rng.choice(xs), "ae": t % 2 == 0,
            "tree": [{"v": t + 1, "kids": [{"v": t + 5, "kids": []}]}, {"v": t + 3, "kids": []}],
            "gate_picks": [rng.random() for _ in range(4)],
        })
    assign_tglobals(rng, tasks, mains, offset)
    return {"tpls": tpls, "tasks": tasks, "autoescape": rng.random() < 0.3,
            "policies": gen_policies(rng), "tg_case": True, "maxg": 3}


def choose_gates(picks, ncalls, maxg, prefer=()):
    """Deterministically choose up to maxg distinct call indices (1-based); the first
    two of `prefer` (call indices) are always among them."""
    if ncalls <= 0:
        return []
    k = min(maxg, ncalls, len(picks))
    chosen = [i for i in prefer if 1 <= i <= ncalls][:2]
    avail = [i for i in range(1, ncalls + 1) if i not in chosen]
    for p in picks[:k - len(chosen)]:
        if not avail:
            break
        chosen.append(avail.pop(int(p * len(avail)) % len(avail)))
    return sorted(chosen)


def n_orders(counts):
    tot = math.factorial(sum(counts))
    for c in counts:
        tot //= math.factorial(c)
    return tot


def all_orders(counts):
    """Every distinct sequence over task ids with task i appearing counts[i]
    times (lexicographic)."""
    left = list(counts)
    cur = []
    total = sum(counts)

    def rec():
        if len(cur) == total:
            yield tuple(cur)
            return
        for i in range(len(left)):
            if left[i]:
                left[i] -= 1
                cur.append(i)
                yield from rec()
                cur.pop()
                left[i] += 1

    return rec()


def random_order(rng, counts):
    seq = [i for i, c in enumerate(counts) for _ in range(c)]
    rng.shuffle(seq)
    return tuple(seq)


# ---------------------------------------------------------------------------
# module-body races: 2-3 tasks import the SAME template for the first time in a
# brand-new environment; the imported template's top-level body awaits a gated
# async environment global (``mg``) before / between / after its macro and
# variable definitions, so a task can be suspended INSIDE the module body while
# another task reaches its own import of that module.
#
# ``mg`` returns a value that does not depend on the calling task: the module
# of an import without context is cached per environment by documented design,
# so whichever task evaluates the body, the exported names are the same.
MLIB2 = "{% set w = 'W' ~ mg('w') %}{% macro z(x) %}({{ x }}{{ w }}){% endmacro %}"


def gen_modlib(rng, max_gates, nested):
    """-> source of mlib.j2: definitions m1, m2 (macros), v1, v2 (variables) in
    this order with 1..max_gates gate calls placed before / between / after."""
    gated_v1 = rng.random() < 0.5
    gated_v2 = rng.random() < 0.5
    defs = [
        "{% set v1 = 'V' ~ mg('v1') %}" if gated_v1 else "{% set v1 = 'V1' %}",
        "{% macro m1(x) %}[{{ x }}|{{ v1 }}]{% endmacro %}",
        ("{% macro m2(x, y='d') %}<{{ Z.z(x) }}{{ y }}>{% endmacro %}" if nested
         else "{% macro m2(x, y='d') %}<{{ x }}{{ y }}>{% endmacro %}"),
        "{% set v2 = mg('v2') ~ 'v' %}" if gated_v2 else "{% set v2 = 'V2' %}",
        # eval-context modifying macro (awaits the task's gate inside the block) + probe
        "{% macro ma(f, a) %}{{ zone('autoescape-block') }}{% autoescape true %}{{ a }}{{ f('ma') }}"
        "{{ [a, a|safe]|join(',') }}{% endautoescape %}{{ zone('') }}{% endmacro %}"
        "{% macro ms(a) %}J{{ [a, a|safe]|join(',') }}|R{{ a|replace('&', a|safe) }}|E{{ ectx() }}"
        "{% endmacro %}",
    ]
    ngates = int(gated_v1) + int(gated_v2)
    slots = [[] for _ in range(len(defs) + 1)]
    if nested:
        slots[rng.randint(0, 2)].append("{% import 'mlib2.j2' as Z %}")
        ngates += 1
    k = 0
    while ngates < 1 or (ngates < max_gates and rng.random() < 0.5):
        k += 1
        slots[rng.randint(0, len(defs))].append("{{ mg('b%d') }}" % k)
        ngates += 1
    out = []
    for i, d in enumerate(defs):
        out.extend(slots[i])
        out.append(d)
    out.extend(slots[-1])
    return "".join(out), ngates


MOD_USES = {
    "import": ("{% import 'mlib.j2' as L %}",
               ["{{ L.m1(name) }}", "{{ L.v1 }}", "{{ L.m2(name) }}", "{{ L.v2 }}",
                "{{ L.m2(1, y=L.v1) }}", "{{ L.v1 is defined }}{{ L.m1 is defined }}",
                "{{ L.ma(g, name) }}", "{{ L.ms(name) }}"]),
    "from-import": ("{% from 'mlib.j2' import m1, m2 as mm, v1, v2, ma, ms %}",
                    ["{{ m1(name) }}", "{{ v1 }}", "{{ mm(name) }}", "{{ v2 }}",
                     "{{ mm(2, y=v2) }}", "{{ v2 is defined }}{{ mm is defined }}",
                     "{{ ma(g, name) }}", "{{ ms(name) }}"]),
}


def gen_modmain(rng, tpls, idx):
    """-> (label, source) of one main template that imports mlib.j2."""
    form = rng.choice(["import", "from-import", "include-importer", "include-importer",
                       "import", "from-import", "import-in-block"])
    how = rng.choice(["import", "from-import"]) if form in ("include-importer", "import-in-block") \
        else form
    head, uses = MOD_USES[how]
    picked = [u for u in uses if rng.random() < 0.6] or [uses[0]]
    # a task gate between the uses: the task is suspended while holding the module
    if rng.random() < 0.6:
        picked.insert(rng.randint(0, len(picked)), "{{ g('a') }}")
    pre = "{{ name }}{{ g('pre') }}" if rng.random() < 0.5 else "{{ name }}"
    if form == "include-importer":
        inc = "minc%d.j2" % idx
        tpls[inc] = head + "".join(picked)
        body = pre + "{% include '" + inc + "' %}" + "{{ g('post') }}{{ name }}"
    elif form == "import-in-block":
        body = pre + "{% block b %}" + head + "".join(picked) + "{% endblock %}{{ name }}"
    else:
        body = pre + head + "".join(picked) + "{{ name }}"
    label = "module-race-" + form + ("(" + how + ")" if how != form else "")
    return label, body


# template-level globals in the module-body races: the library reads SITE / TG2 in a
# macro and in an exported variable; the uses are printed as [TG=...] (alphanumeric
# values only, independent of the eval context)
MLIB_TG = ("{% macro mt() %}{{ SITE|default('nosite') }}/{{ TG2|default('no2') }}{% endmacro %}"
           "{% set v3 = 'S' ~ SITE|default('nosite') %}")
MOD_TG_USES = {
    "{% import 'mlib.j2' as L %}":
        "{% import 'mlib.j2' as L %}[TG={{ L.mt() }}{{ L.v3 }}]",
    "{% from 'mlib.j2' import m1, m2 as mm, v1, v2, ma, ms %}":
        "{% from 'mlib.j2' import m1, m2 as mm, v1, v2, ma, ms, mt, v3 %}[TG={{ mt() }}{{ v3 }}]",
}


def gen_modcase(rng, rng_tg=None, offset=None):
    """rng_tg: stream of its own for template-level globals (None: none): the library
    additionally reads names it never defines, every import of it in the case is
    followed by a use of them, and the main templates are loaded with different
    template-level globals (tasks sharing a main template share them; offset selects
    the variant); such a case is marked 'small' (lower cap on the number of orders)."""
    case = _gen_modcase(rng)
    if rng_tg is not None:
        case["small"] = True
        tpls = case["tpls"]
        tpls["mlib.j2"] += MLIB_TG
        for name in sorted(tpls):
            if name != "mlib.j2":
                for old, new in MOD_TG_USES.items():
                    tpls[name] = tpls[name].replace(old, new)
        mains = sorted({t["main"] for t in case["tasks"]})
        if len(mains) == 1:
            # all tasks share one main template: the last task gets a copy of it under
            # another name, which can be loaded with globals of its own
            tpls["mmcopy.j2"] = tpls[mains[0]]
            case["tasks"][-1]["main"] = "mmcopy.j2"
            mains.append("mmcopy.j2")
        assign_tglobals(rng_tg, case["tasks"], mains, offset)
    return case


def _gen_modcase(rng):
    ntasks = rng.choice([2, 2, 2, 3])
    nested = ntasks == 2 and rng.random() < 0.3
    lib, ngates = gen_modlib(rng, 3 if ntasks == 2 else 2, nested)
    tpls = {"mlib.j2": lib}
    if nested:
        tpls["mlib2.j2"] = MLIB2
    mains = []
    for mi in range(rng.randint(1, ntasks)):
        lab, src = gen_modmain(rng, tpls, mi)
        name = "mm%d.j2" % mi
        tpls[name] = lab + LAB + src
        mains.append(name)
    names = ["<A&1>", "B\"2'", "C>3<"]
    tasks = []
    for t in range(ntasks):
        tasks.append({"main": mains[t] if t < len(mains) else rng.choice(mains), "name": names[t]})
    return {"kind": "modrace", "tpls": tpls, "tasks": tasks, "autoescape": rng.random() < 0.3,
            "module_gates": ngates}
