"""C17 monitors: probe data objects that log every attribute fetch together
with the kind of the calling frame, tracer values that log every operation
performed on them, and a recording wrapper for env.is_safe_attribute.

Event log entries (lists, in order of occurrence):
  ["fetch",   probe_label, name, caller_kind, value_id]
  ["consult", obj_label,   name, verdict,     value_id]
  ["tracer",  origin,      operation]
  ["sink",    classification, detail]
  ["danger",  channel, value_kind, detail]   (value oracle, see danger_kind)
caller_kind: "template" (code object whose file is not on disk), "sandbox"
(jinja2/sandbox.py), "engine" (other jinja2 / markupsafe file), "harness"
(under /verif), "other" (stdlib ...).
"""
from __future__ import annotations

import os
import sys

VERIF = os.path.dirname(os.path.dirname(os.path.dirname(os.path.abspath(__file__))))

_kind_cache = {}
_dirs = {}


def _engine_dirs():
    if not _dirs:
        import jinja2
        import markupsafe

        _dirs["jinja"] = os.path.dirname(os.path.realpath(jinja2.__file__)) + os.sep
        _dirs["markupsafe"] = os.path.dirname(os.path.realpath(markupsafe.__file__)) + os.sep
    return _dirs


def frame_kind(filename):
    k = _kind_cache.get(filename)
    if k is None:
        if not os.path.isfile(filename):
            k = "template"
        else:
            rp = os.path.realpath(filename)
            d = _engine_dirs()
            if rp.startswith(VERIF + os.sep):
                k = "harness"
            elif rp.startswith(d["jinja"]):
                k = "sandbox" if os.path.basename(rp) == "sandbox.py" else "engine"
            elif rp.startswith(d["markupsafe"]):
                k = "engine"
            else:
                k = "other"
        _kind_cache[filename] = k
    return k


class Log:
    def __init__(self):
        self.events = []
        self.labels = {}        # id(obj) -> label, for objects we know
        self.keep = []          # keep probes/tracers alive so ids stay unique
        self.value_checks = 0   # values classified by the value oracle

    def label(self, obj):
        return self.labels.get(id(obj)) or f"<{type(obj).__name__}>"

    def fetch(self, label, name, kind, value):
        self.events.append(["fetch", label, name, kind, id(value)])

    def consult(self, obj, name, verdict, value):
        self.events.append(["consult", self.label(obj), name, bool(verdict), id(value)])

    def tracer(self, origin, op):
        self.events.append(["tracer", origin, op])

    def sink(self, cls, detail):
        self.events.append(["sink", cls, detail])

    def danger(self, channel, kind, detail):
        self.events.append(["danger", channel, kind, detail])


TOKEN = "TRACERLEAK"


class Tracer:
    """Stands for the value of a private attribute.  Whatever is done with it
    is logged.  Attribute *lookup* of ordinary names on the class is not
    intercepted (so isinstance()/type machinery stays silent); only names that
    are missing go through __getattr__."""

    def __init__(self, log, origin):
        d = object.__getattribute__(self, "__dict__")
        d["_vt_log"] = log
        d["_vt_origin"] = origin
        log.keep.append(self)

    def _vt(self, op):
        d = object.__getattribute__(self, "__dict__")
        d["_vt_log"].tracer(d["_vt_origin"], op)
        return d["_vt_origin"]

    def _vt_child(self, suffix):
        d = object.__getattribute__(self, "__dict__")
        return Tracer(d["_vt_log"], d["_vt_origin"] + suffix)

    def __str__(self):
        return f"{TOKEN}[{self._vt('__str__')}]"

    def __repr__(self):
        return f"{TOKEN}[{self._vt('__repr__')}]"

    def __html__(self):
        return f"{TOKEN}[{self._vt('__html__')}]"

    def __format__(self, spec):
        return f"{TOKEN}[{self._vt('__format__')}]"

    def __call__(self, *a, **k):
        self._vt("__call__")
        return self._vt_child("()")

    def __iter__(self):
        self._vt("__iter__")
        return iter([self._vt_child("[i]")])

    def __aiter__(self):
        self._vt("__aiter__")

        async def gen():
            yield self._vt_child("[ai]")
        return gen()

    def __len__(self):
        self._vt("__len__")
        return 1

    def __bool__(self):
        self._vt("__bool__")
        return True

    def __getattr__(self, name):
        self._vt("getattr:" + name)
        if name.startswith("__") and name.endswith("__"):
            raise AttributeError(name)
        return self._vt_child("." + name)

    def __getitem__(self, key):
        self._vt("__getitem__")
        return self._vt_child("[k]")

    def __contains__(self, x):
        self._vt("__contains__")
        return True

    def __eq__(self, other):
        self._vt("__eq__")
        return True

    def __ne__(self, other):
        self._vt("__ne__")
        return False

    def __lt__(self, other):
        self._vt("__lt__")
        return False

    __gt__ = __le__ = __ge__ = __lt__

    def __hash__(self):
        self._vt("__hash__")
        return 7

    def __add__(self, other):
        self._vt("__add__")
        return self

    __radd__ = __mod__ = __rmod__ = __mul__ = __rmul__ = __sub__ = __rsub__ = __add__

    def __int__(self):
        self._vt("__int__")
        return 1

    def __index__(self):
        self._vt("__index__")
        return 1

    def __float__(self):
        self._vt("__float__")
        return 1.0


#: names on a probe that answer with a Tracer (all start with an underscore)
PRIVATE_NAMES = [
    "_secret", "_x", "_", "__", "___", "_Probe__mangled", "__dict__", "__init__",
    "__globals__", "__mro__", "__subclasses__", "__code__", "__closure__", "__func__",
    "__self__", "__module__", "__builtins__", "__getattribute__", "__reduce__",
    "__reduce_ex__", "__wrapped__", "__doc__", "__bases__", "__base__", "__weakref__",
    "__setattr__", "__private", "_gi_frame", "__dunder_custom__",
]
PUBLIC_NAMES = ["pub", "child", "kids", "meth", "label"]

#: names the engine itself may look up on data objects as part of Python /
#: Jinja protocols; fetches of these are not attributed to the template
PROTOCOL_NAMES = frozenset([
    "__class__", "__html__", "__call__", "__aiter__", "__anext__", "__await__", "__iter__",
    "__next__", "__len__", "__getitem__",
    "__contains__", "__bool__", "__str__", "__format__", "__hash__", "__eq__",
    "jinja_pass_arg", "unsafe_callable", "alters_data", "jinja_async_variant",
])


class _State:
    __slots__ = ("log", "label", "depth", "cache")


class Probe:
    """Data object handed to templates.  Every attribute fetch that does not
    come from a harness frame is logged with the kind of the caller."""

    def __init__(self, log, label, depth=0):
        st = _State()
        st.log, st.label, st.depth, st.cache = log, label, depth, {}
        object.__setattr__(self, "_vt_state", st)
        log.labels[id(self)] = label
        log.keep.append(self)

    def __getattribute__(self, name):
        kind = frame_kind(sys._getframe(1).f_code.co_filename)
        if kind == "harness":
            return object.__getattribute__(self, name)
        st = object.__getattribute__(self, "_vt_state")
        value = _lookup(self, st, name)      # AttributeError propagates unlogged
        st.log.fetch(st.label, name, kind, value)
        return value

    # sequence protocol (type slots: not seen by __getattribute__)
    def __getitem__(self, key):
        st = object.__getattribute__(self, "_vt_state")
        if isinstance(key, int) and not isinstance(key, bool):
            if 0 <= key < 2 and st.depth < 3:
                return _lookup(self, st, "kids")[key]
            raise IndexError(key)
        raise KeyError(key)

    def __repr__(self):
        return "PROBE(" + object.__getattribute__(self, "_vt_state").label + ")"

    __str__ = __repr__


def _lookup(self, st, name):
    c = st.cache
    if name in c:
        return c[name]
    if name == "__class__":
        return type(self)
    if name in PRIVATE_NAMES:
        v = Tracer(st.log, f"{st.label}.{name}")
    elif name == "pub":
        v = "PUBVAL-" + st.label
    elif name == "label":
        v = st.label
    elif name == "child" and st.depth < 3:
        v = Probe(st.log, st.label + ".child", st.depth + 1)
    elif name == "kids" and st.depth < 3:
        v = [Probe(st.log, f"{st.label}.kids[{i}]", st.depth + 1) for i in range(2)]
    elif name == "meth" and st.depth < 3:
        kid = Probe(st.log, st.label + ".meth()", st.depth + 1)

        def meth(*a, **k):
            return kid
        v = meth
    else:
        # everything else behaves like a plain object without that attribute
        return object.__getattribute__(self, name)
    c[name] = v
    return v


def wrap_is_safe_attribute(env, log):
    """Instance-level recording wrapper around the environment's verdict."""
    orig = env.is_safe_attribute

    def is_safe_attribute(obj, attr, value):
        verdict = orig(obj, attr, value)
        log.consult(obj, attr, verdict, value)
        return verdict

    env.is_safe_attribute = is_safe_attribute
    return orig


def contains_tracer(v, depth=0):
    if isinstance(v, Tracer):
        return True
    if depth < 4 and isinstance(v, (list, tuple, set, frozenset)):
        return any(contains_tracer(x, depth + 1) for x in v)
    if depth < 4 and isinstance(v, dict):
        return any(contains_tracer(x, depth + 1) for x in list(v.keys()) + list(v.values()))
    return False


# ------------------------------------------------------------ value oracle
# Independent of any name classification: what KIND of value is it that the
# sandbox hands over?  Interpreter internals must never reach a template,
# whatever attribute name the template used to ask for them.
import builtins as _builtins
import types as _types


def danger_kind(v, exempt=(), depth=0):
    """-> None, or the kind of interpreter-internal value v is (or contains,
    for list/tuple/set values up to two levels): 'frame', 'code', 'traceback',
    'globals-dict' (a function's __globals__ / the __builtins__ dict),
    'module-dict' (the __dict__ of a module), 'class' (a type object, as
    reached through __class__ / __mro__ / __bases__ / __subclasses__()).
    Objects in `exempt` (the context values themselves) are not reported."""
    for o in exempt:
        if v is o:
            return None
    if isinstance(v, _types.FrameType):
        return "frame"
    if isinstance(v, _types.CodeType):
        return "code"
    if isinstance(v, _types.TracebackType):
        return "traceback"
    if isinstance(v, type):
        return "class"
    if type(v) is dict:
        if v is _builtins.__dict__ or "__builtins__" in v:
            return "globals-dict"
        if "__name__" in v and ("__spec__" in v or "__loader__" in v):
            return "module-dict"
        return None
    if depth < 2 and type(v) in (list, tuple, set, frozenset):
        for x in v:
            k = danger_kind(x, exempt, depth + 1)
            if k:
                return k
    return None


def install_value_hooks(env, log, exempt):
    """Harness-side probes on the environment instance: every value returned by
    env.getattr / env.getitem (generated code, attribute filters and the format
    field lookups all go through them) and every value for which
    env.is_safe_attribute answers True is classified.  Returns an uninstaller."""
    orig_getattr, orig_getitem = env.getattr, env.getitem

    def getattr_(obj, attribute):
        rv = orig_getattr(obj, attribute)
        log.value_checks += 1
        k = danger_kind(rv, exempt)
        if k:
            log.danger("env.getattr", k, f"{type(obj).__name__}.{attribute}")
        return rv

    def getitem_(obj, argument):
        rv = orig_getitem(obj, argument)
        log.value_checks += 1
        k = danger_kind(rv, exempt)
        if k:
            log.danger("env.getitem", k, f"{type(obj).__name__}[{argument!r}]")
        return rv

    env.getattr = getattr_
    env.getitem = getitem_

    def uninstall():
        # instance attributes shadowing the class methods: remove them again
        env.__dict__.pop("getattr", None)
        env.__dict__.pop("getitem", None)
    return uninstall
