"""C36 helpers: async-generator tracker (asyncgen hooks, open-frame census,
warning / unraisable capture) and manual coroutine / async-generator steppers.

Nothing in here imports jinja2; the tracker classifies generators only by
where their code object comes from:

* ``template``  — ``ag_code.co_filename`` is not a file on disk (compiled
  template code: root render functions, blocks, loop-filter generators);
* ``filter``    — a file under the repository's ``src`` directory that defines
  registered filters / tests (given by the caller as ``value_files``): async
  generators RETURNED by filters such as map / select, values like the data's;
* ``engine``    — any other file under the repository's ``src`` directory
  (iteration helpers, ``Undefined.__aiter__``, generate_async ...);
* ``data``      — any other file (generators provided by the harness' data).
"""
from __future__ import annotations

import asyncio
import gc
import os
import sys
import warnings

_isfile_cache: dict = {}


def _isfile(fn):
    r = _isfile_cache.get(fn)
    if r is None:
        r = _isfile_cache[fn] = os.path.isfile(fn)
    return r


class Rec:
    __slots__ = ("ag", "origin", "filename", "name", "code", "mark", "seq")

    def __init__(self, ag, origin, seq):
        self.ag = ag
        self.origin = origin
        self.code = ag.ag_code
        self.filename = ag.ag_code.co_filename
        self.name = ag.ag_code.co_name
        self.mark = None
        self.seq = seq

    def open(self):
        return self.ag is not None and self.ag.ag_frame is not None


class Tracker:
    """Registers every async generator on first iteration.

    ``manual()`` — context manager installing plain hooks (no event loop
    running).  ``chained()`` — to be entered *inside* a running event loop:
    keeps the loop's own hooks working (they are called after ours), because
    ``run_forever`` replaces whatever hooks were installed before it started.
    """

    def __init__(self, repo_src, value_files=()):
        self.repo_src = os.path.realpath(repo_src) + os.sep
        self.value_files = frozenset(value_files)
        self.recs: list[Rec] = []
        self.final_calls: list = []   # (origin, filename, name, was_open)
        self._chain = None
        self._old = None
        self.seq = 0

    # -- classification ----------------------------------------------------
    def origin(self, code):
        fn = code.co_filename
        if not _isfile(fn):
            return "template"
        rp = os.path.realpath(fn)
        if rp.startswith(self.repo_src):
            return "filter" if rp in self.value_files else "engine"
        return "data"

    # -- hooks ---------------------------------------------------------------
    def _first(self, ag):
        self.seq += 1
        self.recs.append(Rec(ag, self.origin(ag.ag_code), self.seq))
        if self._chain is not None and self._chain.firstiter is not None:
            self._chain.firstiter(ag)

    def _final(self, ag):
        self.final_calls.append(
            (self.origin(ag.ag_code), ag.ag_code.co_filename, ag.ag_code.co_name,
             ag.ag_frame is not None)
        )
        if self._chain is not None and self._chain.finalizer is not None:
            self._chain.finalizer(ag)
            return
        # no loop: be tidy ourselves, synchronously
        try:
            c = ag.aclose()
            for _ in range(1000):
                c.send(None)
        except BaseException:
            pass

    class _Ctx:
        def __init__(self, tr, chained):
            self.tr = tr
            self.chained = chained

        def __enter__(self):
            tr = self.tr
            tr._old = sys.get_asyncgen_hooks()
            tr._chain = tr._old if self.chained else None
            sys.set_asyncgen_hooks(firstiter=tr._first, finalizer=tr._final)
            return tr

        def __exit__(self, *a):
            sys.set_asyncgen_hooks(*self.tr._old)
            self.tr._chain = None
            return False

    def manual(self):
        return Tracker._Ctx(self, False)

    def chained(self):
        return Tracker._Ctx(self, True)

    # -- census ----------------------------------------------------------------
    def census(self):
        """[(rec, open?)] for every registered generator, taken now."""
        return [(r, r.open()) for r in self.recs]

    def latest_open_unmarked(self, pred):
        for r in reversed(self.recs):
            if r.mark is None and pred(r) and r.open():
                return r
        return None

    def release(self):
        """Drop the strong references (after the census)."""
        for r in self.recs:
            r.ag = None
        self.recs = []


class Sanitizer:
    """Captures RuntimeWarnings and unraisable-hook events while active."""

    PATTERNS = ("was never awaited", "asynchronous generator", "async generator",
                "aclose()", "athrow()", "asend()")

    def __init__(self):
        self.events = []
        self._cw = None
        self._old_hook = None
        self._log = None

    def __enter__(self):
        self._cw = warnings.catch_warnings(record=True)
        self._log = self._cw.__enter__()
        warnings.simplefilter("always")
        self._old_hook = sys.unraisablehook

        def hook(u):
            self.events.append(
                "unraisable: %s: %s (%s)" % (
                    getattr(u.exc_type, "__name__", u.exc_type), u.exc_value,
                    (u.err_msg or "") + " " + repr(u.object)[:120])
            )

        sys.unraisablehook = hook
        return self

    def drain(self):
        """Messages matching the property's warning classes, since last drain."""
        out = []
        for w in self._log:
            msg = str(w.message)
            if issubclass(w.category, RuntimeWarning) and any(p in msg for p in self.PATTERNS):
                out.append("RuntimeWarning: " + msg)
        del self._log[:]
        for e in self.events:
            if any(p in e for p in self.PATTERNS):
                out.append(e)
        del self.events[:]
        return out

    def __exit__(self, *a):
        sys.unraisablehook = self._old_hook
        self._cw.__exit__(*a)
        return False


class Suspend:
    """A bare suspension point (what ``asyncio.sleep(0)`` does)."""

    __slots__ = ()

    def __await__(self):
        yield


# ------------------------------------------------------------------ steppers
def step_coro(coro, cancel_at=None, limit=100000):
    """Drive a coroutine by hand.  Returns (kind, value, suspensions) with kind
    'ok' | 'exc'.  ``cancel_at=k``: CancelledError is thrown in while the
    coroutine sits at its k-th suspension; stepping then continues until the
    coroutine has really finished (the harness never abandons it)."""
    n = 0
    try:
        coro.send(None)
        while True:
            n += 1
            if n > limit:
                coro.close()
                return ("exc", RuntimeError("stepper limit"), n)
            if cancel_at is not None and n == cancel_at:
                cancel_at = None
                coro.throw(asyncio.CancelledError())
            else:
                coro.send(None)
    except StopIteration as e:
        return ("ok", e.value, n)
    except BaseException as e:  # noqa: BLE001 - outcome is data here
        return ("exc", e, n)


def step_agen(ag, stop_after=None, cancel_at=None, limit=100000):
    """Drive an async generator by hand (consumer side).

    stop_after=k: after k chunks the consumer calls ``aclose()`` and drives it
    to completion.  cancel_at=k: CancelledError thrown into the pending
    ``__anext__`` at the k-th suspension.  Returns (kind, value, suspensions,
    chunks, aclose_exc)."""
    chunks = []
    n = 0
    kind, val = "ok", None
    aclose_exc = None
    try:
        while True:
            if stop_after is not None and len(chunks) >= stop_after:
                kind = "closed"
                break
            aw = ag.__anext__()
            try:
                aw.send(None)
                while True:
                    n += 1
                    if n > limit:
                        raise RuntimeError("stepper limit")
                    if cancel_at is not None and n == cancel_at:
                        cancel_at = None
                        aw.throw(asyncio.CancelledError())
                    else:
                        aw.send(None)
            except StopIteration as e:
                chunks.append(e.value)
    except StopAsyncIteration:
        kind = "ok"
    except BaseException as e:  # noqa: BLE001
        kind, val = "exc", e
    # the consumer always closes what it opened (a no-op on a finished generator)
    try:
        c = ag.aclose()
        try:
            for _ in range(limit):
                c.send(None)
                n += 1
        except StopIteration:
            pass
    except BaseException as e:  # noqa: BLE001
        aclose_exc = e
    return (kind, val, n, chunks, aclose_exc)


def holds(ag, wanted, depth=2):
    """Which of the objects ``wanted`` ({id: label}) does the suspended async
    generator ``ag`` hold in its frame (directly, or through the attributes /
    items of what it holds, ``depth`` levels)?  -> sorted labels"""
    fr = ag.ag_frame
    if fr is None:
        return []
    found = set()
    seen = set()

    def visit(o, d):
        if id(o) in seen:
            return
        seen.add(id(o))
        lab = wanted.get(id(o))
        if lab is not None:
            found.add(lab)
        if d <= 0 or isinstance(o, (str, bytes, int, float, type(None), type)):
            return
        kids = []
        dct = getattr(o, "__dict__", None)
        if isinstance(dct, dict):
            kids.extend(dct.values())
        for sl in getattr(type(o), "__slots__", ()) or ():
            if isinstance(sl, str) and hasattr(o, sl):
                kids.append(getattr(o, sl))
        if isinstance(o, (list, tuple)) and len(o) <= 8:
            kids.extend(o)
        for k in kids:
            visit(k, d - 1)

    for v in list(fr.f_locals.values()):
        visit(v, depth)
    return sorted(found)


def collect():
    gc.collect()
