"""C38 workload, part 3: macros and call blocks that are DEFINED inside scoped
constructs of a cached module (autoescape blocks, scoped eval-context modifiers
of the harness extension, with blocks, loops; nested 1-3 levels) and CALLED
AFTER those constructs have ended - the code of their own nested scoped
constructs then runs outside the dynamic extent of the constructs that enclose
it lexically.

The generated library ``dlib.j2`` is imported without context by every main
template (module + Context + eval context cached per environment).  A macro
object leaves the construct it is defined in through one of these channels:

  module-namespace@import   defined in the module body, published through the
                            exported module-level namespace REG
  module-namespace@render   defined by a library macro during a render,
                            published through REG, called by a later expression
  local-namespace           stored in a namespace local to the defining macro,
                            called by that macro after the construct ended
  stashed-call-block@import a call block in the module body; the called macro
                            stores ``caller`` in REG
  stashed-call-block@render the same inside a library macro
  handed-to-call-block      handed to the importing template's call block as
                            the caller argument; the call block keeps it in a
                            namespace of the main template and calls it later

The main templates call them directly, through a {% set %} variable, and (sync
environments) from Python through Template.module.  Their bodies touch probe
data inside their own nested scoped constructs; ``zone`` tells the harness in
which one a fault fired.  ``dlib.j2`` carries the usual ``sense`` sentinels.
"""
from __future__ import annotations

from vt.mon import c38_shared as SH

CHANNELS = ["module-namespace@import", "module-namespace@render", "local-namespace",
            "stashed-call-block@import", "stashed-call-block@render", "handed-to-call-block"]

# lexically enclosing constructs at the definition site, outermost first
NESTINGS = [["ae"], ["ae", "ae"], ["ae", "with"], ["loop", "ae"], ["ext"], ["with"],
            ["ae", "loop", "with"], ["ext", "ae"]]
_OPEN = {"ae": "{% autoescape @AO@ %}", "ext": "{% evalctx autoescape=@AO@ %}",
         "with": "{% with w_ = 1 %}", "loop": "{% for i_ in [1] %}"}
_CLOSE = {"ae": "{% endautoescape %}", "ext": "{% endevalctx %}", "with": "{% endwith %}",
          "loop": "{% endfor %}"}
_NAME = {"ae": "autoescape", "ext": "evalctx", "with": "with", "loop": "loop"}

# bodies of the deferred macro / call block (parameters p, f, s): probe events inside
# its OWN scoped constructs.  @AE@ = the constant of the innermost construct, @AO@ the
# opposite constant
BODIES = [
    ("autoescape", "{% autoescape @AE@ %}{{ p.a }}{{ s }}{{ f() }}{{ [s, p.b]|join('+') }}"
                   "{% endautoescape %}"),
    ("autoescape>autoescape", "{% autoescape @AO@ %}{{ s }}{% autoescape @AE@ %}{{ f() }}{{ p.b }}"
                              "{% endautoescape %}{{ f() }}{% endautoescape %}"),
    ("evalctx", "{% evalctx autoescape=@AE@ %}{{ p.sub.d }}{{ f() }}{{ s|ectx }}{% endevalctx %}"),
    ("with>autoescape", "{% with q = p.sub %}{% autoescape @AE@ %}{{ q.c }}{{ f() }}"
                        "{% for x in q.lst %}{{ x }},{% endfor %}{% endautoescape %}{% endwith %}"),
    ("autoescape>macro>autoescape", "{% autoescape @AE@ %}{% macro in2(q) %}{% autoescape @AE@ %}"
                                    "{{ q.a }}{{ f() }}{% endautoescape %}{% endmacro %}{{ in2(p) }}"
                                    "{{ s }}{% endautoescape %}"),
    ("autoescape-dynamic", "{% autoescape (f() is string) == @AE@ %}{{ s }}{{ p.a }}"
                           "{{ [s, '<']|join }}{% endautoescape %}"),
]
NENTRIES = 16
NVARIANTS = 4


def entries(variant):
    """-> list of (n, channel, nesting, body name, body source): a fixed table per
    variant (few distinct sources: the compiled code is shared by the environments
    of a shard)."""
    out = []
    for i in range(NENTRIES):
        ch = CHANNELS[(i + variant) % len(CHANNELS)]
        nest = NESTINGS[(i + 3 * variant) % len(NESTINGS)]
        bname, bsrc = BODIES[(i // 2 + i + 2 * variant) % len(BODIES)]
        out.append((i, ch, nest, bname, bsrc))
    return out


def zone_name(ch, nest, bname):
    kind = "call-block" if ch.startswith("stashed-call-block") else "macro"
    return ("deferred-%s:defined-in=%s:called-after-it-ended-via=%s"
            % (kind, ">".join(_NAME[c] for c in nest), ch.replace("@", "-at-")))


def _entry_source(n, ch, nest, bname, bsrc):
    op = "".join(_OPEN[c] for c in nest)
    cl = "".join(_CLOSE[c] for c in reversed(nest))
    body = "@Z:" + zone_name(ch, nest, bname) + "@" + bsrc + "@Z@"
    d = "d%d" % n
    mac = "{% macro " + d + "(p, f, s) %}" + body + "{% endmacro %}"
    if ch == "module-namespace@import":
        return op + mac + "{% set REG." + d + " = " + d + " %}" + cl
    if ch == "module-namespace@render":
        return ("{% macro def" + str(n) + "() %}" + op + mac + "{% set REG." + d + " = " + d + " %}"
                + cl + "{% endmacro %}")
    if ch == "local-namespace":
        return ("{% macro run" + str(n) + "(p, f, s) %}{% set L = namespace() %}" + op + mac
                + "{% set L.m = " + d + " %}" + cl + "[{{ L.m(p, f, s) }}]{% endmacro %}")
    stash = "{% macro st" + str(n) + "() %}{% set REG.c" + str(n) + " = caller %}{% endmacro %}"
    call = "{% call(p, f, s) st" + str(n) + "() %}" + body + "{% endcall %}"
    if ch == "stashed-call-block@import":
        return stash + op + call + cl
    if ch == "stashed-call-block@render":
        return stash + "{% macro def" + str(n) + "() %}" + op + call + cl + "{% endmacro %}"
    if ch == "handed-to-call-block":
        return ("{% macro prov" + str(n) + "() %}" + op + mac + "{{ caller(" + d + ") }}" + cl
                + "{% endmacro %}")
    raise KeyError(ch)


def gen_dlib(rng, i18n, env_autoescape):
    """-> (source of dlib.j2, variant).  Constants: pattern 0 = the innermost
    construct of every deferred body switches to the opposite of the environment
    default (a leak is visible), the enclosing ones to the default; 1 = alternating;
    2 = the other way round."""
    variant = rng.randrange(NVARIANTS)
    pattern = rng.choice([0, 0, 0, 1, 2])
    opposite = "false" if env_autoescape else "true"
    same = "true" if env_autoescape else "false"
    parts = ["{% set REG = namespace() %}"]
    for n, ch, nest, bname, bsrc in entries(variant):
        ae = opposite if pattern == 0 or (pattern == 1 and n % 2 == 0) else same
        ao = same if ae == opposite else opposite
        src = _entry_source(n, ch, nest, bname, bsrc).replace("@AO@", ao)
        parts.append(SH._expand(src, ae))
    return "".join(parts) + SH.sense_macros(bool(i18n and i18n["newstyle"])), variant


_ARGS = ["rec, fn, s", "rec, rec.f, h", "rec, fn, h", "rec, rec.f, s"]


def frags(variant, is_async):
    """Fragments of the main templates that call the deferred macros / call blocks
    after their defining constructs ended: (label, source, needs)."""
    out = []
    for n, ch, nest, bname, bsrc in entries(variant):
        args = _ARGS[n % len(_ARGS)]
        if is_async and n % 3 == 0:
            args = args.replace("fn", "afn").replace("rec.f", "afn")
        lab = "shared-deferred:" + ch
        if ch == "module-namespace@import":
            src = ("{{ dl.REG.d%d(%s) }}" % (n, args) if n % 2 == 0 else
                   # ... through a variable of the main template
                   "{%% set v_A = dl.REG.d%d %%}{{ v_A(%s) }}" % (n, args))
        elif ch == "module-namespace@render":
            src = "{{ dl.def%d() }}{{ dl.REG.d%d(%s) }}" % (n, n, args)
        elif ch == "local-namespace":
            src = "{{ dl.run%d(%s) }}" % (n, args)
        elif ch == "stashed-call-block@import":
            src = "{{ dl.REG.c%d(%s) }}" % (n, args)
        elif ch == "stashed-call-block@render":
            src = ("{{ dl.def%d() }}{%% set cb_A = dl.REG.c%d %%}{{ cb_A(%s) }}" % (n, n, args)
                   if n % 2 else "{{ dl.def%d() }}{{ dl.REG.c%d(%s) }}" % (n, n, args))
        else:
            src = ("{%% set hold_A = namespace() %%}{%% call(m) dl.prov%d() %%}"
                   "{%% set hold_A.m = m %%}{%% endcall %%}{{ hold_A.m(%s) }}" % (n, args))
        out.append((lab, src, None))
    return out


def modcalls(rng, variant):
    """Calls through Template.module of dlib.j2 from Python (sync environments):
    [macro path, args]; a path 'dlib.j2:REG.d3' = attribute chain on the module."""
    out = []
    pool = [e for e in entries(variant) if e[1] != "handed-to-call-block"]
    for n, ch, nest, bname, bsrc in rng.sample(pool, 2):
        args = [a.strip() for a in _ARGS[n % len(_ARGS)].split(",")]
        if any("." in a for a in args):
            args = ["rec", "fn", "s"]
        if ch.endswith("@render"):
            out.append(["dlib.j2:def%d" % n, []])
        if ch == "local-namespace":
            out.append(["dlib.j2:run%d" % n, args])
        elif ch.startswith("stashed-call-block"):
            out.append(["dlib.j2:REG.c%d" % n, args])
        else:
            out.append(["dlib.j2:REG.d%d" % n, args])
    out.append(["dlib.j2:" + SH.MOD_SENSE[0], list(SH.MOD_SENSE[1])])
    return out


PROBE_SEGS = [
    "dlib.j2(import)={% import 'dlib.j2' as dl %}{{ dl." + SH.SENSE_CALL + " }}",
    "dlib.j2(from-import)={% from 'dlib.j2' import sense as s3 %}{{ s3('y<&', '<b>'|safe) }}",
]
