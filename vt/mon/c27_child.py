"""C27 helper: shared fixtures plus the child-process entry points.

    python -m vt.mon.c27_child '<json>'

(the check itself calls writer()/reader() in forked children, which is the
same thing without the interpreter start-up cost)

mode "writer": load one template through a FileSystemBytecodeCache and die
(os._exit(77)) at the k-th I/O event of that load.  Events are
  * audit events open / tempfile.mkstemp / os.rename (os.replace) / os.remove /
    os.mkdir ... whose path argument lies in the cache directory, and
  * the calls the documented ``Bucket.write_bytecode(f)`` makes on ``f``: the
    harness hands it a proxy, every ``write`` gives three crash points
    (before; torn = first half written and flushed; after) and entering /
    leaving write_bytecode gives one each.
With "flush" the data written so far is flushed to the OS before dying (the
bytes reached the disk), without it the process dies with its buffers.
Instead of dying the writer can also copy the cache directory at the chosen
events ("snap_ks"): the copy is exactly what a process death at that point
leaves behind, without needing a process per crash point.
``duel``: TWO writers for the same cache key alive at the same time (another
environment / thread / process storing the same template, with the same or
another source).  Both run in threads of this process under a deterministic
schedule: writer A runs to its event k and stops there (flushing what it wrote
so far or not), writer B -- or a clear() of the directory -- runs to its own
event j or to completion, A continues to the end, then B does.  The events
are the same as the crash points above, dispatched per thread.
mode "reader": a fresh process loads the template twice (two fresh
environments) through the same directory and reports what it rendered.
"""
from __future__ import annotations

import json
import os
import sys
import threading

AUDIT_EVENTS = {"open", "tempfile.mkstemp", "os.rename", "os.remove", "os.mkdir", "os.rmdir",
                "os.link", "os.symlink", "os.truncate", "os.chmod", "shutil.move",
                "shutil.copyfile"}


def unsafe_f():
    return "called"


unsafe_f.unsafe_callable = True


def render_ctx():
    return {"x": "<b>", "f": unsafe_f}


ENV_OPTIONS = {
    "same": {},
    "autoescape": {"autoescape": True},
    "trim_blocks": {"trim_blocks": True},
    "lstrip_blocks": {"lstrip_blocks": True},
    "enable_async": {"enable_async": True},
    "sandboxed": {"$sandboxed": True},
    "delimiters": {"variable_start_string": "<<", "variable_end_string": ">>"},
}


def make_env(loader, bcc, options=None, cache_size=0):
    from jinja2 import Environment
    from jinja2.sandbox import SandboxedEnvironment

    kw = dict(options or {})
    cls = SandboxedEnvironment if kw.pop("$sandboxed", False) else Environment
    return cls(loader=loader, bytecode_cache=bcc, cache_size=cache_size, **kw)


def make_loader(kind, name, source, src_dir):
    from jinja2 import DictLoader, FileSystemLoader

    if kind == "dict":
        return DictLoader({name: source})
    p = os.path.join(src_dir, name)
    with open(p, "w", encoding="utf-8") as f:
        f.write(source)
    return FileSystemLoader(src_dir)


def load_render(env, name):
    """('ok', text) | ('exc', 'load'|'render', type name, message)."""
    try:
        t = env.get_template(name)
    except BaseException as e:  # noqa: BLE001 - everything is an observation
        return ["exc", "load", type(e).__name__, str(e)[:200]]
    try:
        return ["ok", t.render(**render_ctx())]
    except BaseException as e:  # noqa: BLE001
        return ["exc", "render", type(e).__name__, str(e)[:200]]


# ------------------------------------------------------------------ writer
class _Crash:
    def __init__(self, a):
        self.cache_dir_raw = a["cache_dir"]
        self.cache_dir = os.path.realpath(a["cache_dir"])
        self.crash_at = a.get("crash_at", -1)
        self.flush = a["flush"]
        self.logpath = a["log"]
        self.snap_dir = a.get("snap_dir")
        self.snap_ks = set(a.get("snap_ks") or ())
        self.n = 0
        self.armed = False
        self.log = []
        self.snapped = []
        self.cur = None

    def save(self, completed, out=None):
        blob = json.dumps({"events": self.log, "completed": completed, "out": out,
                           "snapped": self.snapped}).encode()
        fd = os.open(self.logpath, os.O_WRONLY | os.O_CREAT | os.O_TRUNC, 0o600)
        os.write(fd, blob)
        os.close(fd)

    def _flush(self):
        if self.cur is not None:
            try:
                self.cur.flush()
            except Exception:
                pass

    def die(self, flush):
        self.armed = False
        if flush:
            self._flush()
        self.save(False)
        os._exit(77)

    def snapshot(self, flush):
        """What a process death at this very point would leave on disk: the
        directory as the OS sees it now (optionally after flushing)."""
        import shutil

        was, self.armed = self.armed, False
        try:
            if flush:
                self._flush()
            shutil.copytree(self.cache_dir_raw, os.path.join(self.snap_dir, f"k{self.n}"))
            self.snapped.append(self.n)
        finally:
            self.armed = was

    def point(self, kind, flush=None, tick_only=False):
        if not self.armed:
            return
        self.n += 1
        self.log.append(kind)
        if tick_only:
            return
        flush = self.flush if flush is None else flush
        if self.n == self.crash_at:
            self.die(flush)
        if self.n in self.snap_ks:
            self.snapshot(flush)

    def torn_wanted(self):
        """Is the NEXT point a target that needs the write torn in two?"""
        if not self.armed:
            return False
        nxt = self.n + 1
        return nxt == self.crash_at or (nxt in self.snap_ks and self.flush)

    def audit(self, event, args):
        if not self.armed or event not in AUDIT_EVENTS:
            return
        for x in args[:2]:
            if isinstance(x, bytes):
                x = os.fsdecode(x)
            if isinstance(x, str) and os.path.realpath(x).startswith(self.cache_dir):
                self.point("audit:" + event)
                return


class _Proxy:
    def __init__(self, f, c):
        self._f = f
        self._c = c

    def write(self, data):
        c = self._c
        c.point("write.pre")
        if c.torn_wanted():
            b = bytes(data)
            h = len(b) // 2
            self._f.write(b[:h])
            c.point("write.torn", flush=True)   # first half reached the OS
            self._f.write(b[h:])
            r = len(b)
        else:
            c.point("write.torn", tick_only=True)
            r = self._f.write(data)
        c.point("write.post")
        return r

    def __getattr__(self, name):
        return getattr(self._f, name)


_active = [None]
_installed = [False]


_by_thread = {}     # thread ident -> controller (duel: one per writer thread)


def _audit(event, args):
    c = _by_thread.get(threading.get_ident()) if _by_thread else None
    if c is None:
        c = _active[0]
    if c is not None:
        c.audit(event, args)


def writer(a):
    """Load a["name"] once through FileSystemBytecodeCache(a["cache_dir"]) with
    the probes in place.  crash_at=k: die at event k.  snap_ks: copy the cache
    directory to snap_dir/k<k> at those events instead (same observation point,
    no process needed)."""
    c = _Crash(a)
    if not _installed[0]:
        sys.addaudithook(_audit)
        _installed[0] = True
    from jinja2 import FileSystemBytecodeCache
    from jinja2.bccache import Bucket

    orig = Bucket.write_bytecode

    def write_bytecode(self, f):
        c.cur = f
        c.point("write_bytecode.enter")
        r = orig(self, _Proxy(f, c))
        c.point("write_bytecode.exit")
        return r

    Bucket.write_bytecode = write_bytecode
    _active[0] = c
    try:
        loader = make_loader(a["loader"], a["name"], a["source"], a.get("src_dir"))
        env = make_env(loader, FileSystemBytecodeCache(a["cache_dir"]))
        c.armed = True
        out = load_render(env, a["name"])
        c.armed = False
        c.save(True, out)
    finally:
        _active[0] = None
        Bucket.write_bytecode = orig
    return {"completed": True}


# -------------------------------------------------------------------- duel
DUEL_TIMEOUT = 120


class _Pauser(_Crash):
    """A writer that, instead of dying at its k-th event, stops there until
    the schedule lets it continue."""

    def __init__(self, cache_dir, pause_at, flush):
        super().__init__({"cache_dir": cache_dir, "crash_at": pause_at, "flush": flush,
                          "log": None})
        self.halt = threading.Event()      # set: the thread is stopped (paused or finished)
        self.resume = threading.Event()
        self.paused_at = None
        self.done = False
        self.out = None
        self.timed_out = False

    def die(self, flush):
        was, self.armed = self.armed, False
        if flush:
            self._flush()
        self.paused_at = self.log[-1]
        self.resume.clear()
        self.halt.set()
        if not self.resume.wait(DUEL_TIMEOUT):
            self.timed_out = True
        self.armed = was

    def run_until_halt(self, thread=None):
        """Let the writer thread run until it pauses or finishes."""
        self.halt.clear()
        if thread is not None:
            thread.start()
        else:
            self.resume.set()
        if not self.halt.wait(DUEL_TIMEOUT):
            self.timed_out = True


def duel(a):
    """a: cache_dir, src_dir, loader, name, source_a, source_b, pause_a (event
    number of A, 1-based), pause_b (event number of B; 0 = B runs to
    completion), flush, second ('writer' | 'clear').  Returns what both writers
    rendered and the event traces."""
    from jinja2 import FileSystemBytecodeCache
    from jinja2.bccache import Bucket

    if not _installed[0]:
        sys.addaudithook(_audit)
        _installed[0] = True
    orig = Bucket.write_bytecode

    def write_bytecode(self, f):
        c = _by_thread.get(threading.get_ident())
        if c is None:
            return orig(self, f)
        c.cur = f
        c.point("write_bytecode.enter")
        r = orig(self, _Proxy(f, c))
        c.point("write_bytecode.exit")
        return r

    def body(c, env):
        _by_thread[threading.get_ident()] = c
        try:
            c.armed = True
            c.out = load_render(env, a["name"])
            c.armed = False
        finally:
            _by_thread.pop(threading.get_ident(), None)
            c.done = True
            c.halt.set()

    ca = _Pauser(a["cache_dir"], a["pause_a"], a["flush"])
    cb = _Pauser(a["cache_dir"], a["pause_b"] or -1, a["flush"])
    Bucket.write_bytecode = write_bytecode
    threads = []
    try:
        loader = make_loader(a["loader"], a["name"], a["source_a"], a.get("src_dir"))
        ta = threading.Thread(target=body, daemon=True, args=(
            ca, make_env(loader, FileSystemBytecodeCache(a["cache_dir"]))))
        threads.append(ta)
        ca.run_until_halt(ta)
        a_paused = not ca.done
        if a["second"] == "clear":
            try:
                FileSystemBytecodeCache(a["cache_dir"]).clear()
                cb.out = ["ok", None]
            except BaseException as e:  # noqa: BLE001
                cb.out = ["exc", "clear", type(e).__name__, str(e)[:200]]
            cb.done = True
        else:
            loader_b = make_loader(a["loader"], a["name"], a["source_b"], a.get("src_dir"))
            tb = threading.Thread(target=body, daemon=True, args=(
                cb, make_env(loader_b, FileSystemBytecodeCache(a["cache_dir"]))))
            threads.append(tb)
            cb.run_until_halt(tb)
        b_paused = not cb.done
        if a_paused:
            ca.run_until_halt()
        if b_paused:
            cb.run_until_halt()
        for t in threads:
            t.join(DUEL_TIMEOUT)
    finally:
        Bucket.write_bytecode = orig
    return {"a": ca.out, "b": cb.out, "events_a": ca.log, "events_b": cb.log,
            "a_paused_at": ca.paused_at if a_paused else None,
            "b_paused_at": cb.paused_at if b_paused else None,
            "timed_out": ca.timed_out or cb.timed_out or any(t.is_alive() for t in threads)}


def reader(a):
    from jinja2 import FileSystemBytecodeCache

    loader = make_loader(a["loader"], a["name"], a["source"], a.get("src_dir"))
    res = {}
    for k in ("r1", "r2"):
        env = make_env(loader, FileSystemBytecodeCache(a["cache_dir"]))
        res[k] = load_render(env, a["name"])
    try:
        FileSystemBytecodeCache(a["cache_dir"]).clear()
        res["clear"] = None
    except BaseException as e:  # noqa: BLE001
        res["clear"] = type(e).__name__ + ": " + str(e)[:200]
    return res


def main():
    a = json.loads(sys.argv[1])
    res = writer(a) if a["mode"] == "writer" else reader(a)
    sys.stdout.write(json.dumps(res))
    return 0


if __name__ == "__main__":
    sys.exit(main())
