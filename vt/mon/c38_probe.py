"""C38 probes: data objects whose template-visible operations (call, __next__,
attribute, item, __str__, __html__, __format__, __mod__ of lazily translated
messages, __iter__, __len__, __bool__, and the async counterparts) report to one per-run ``Events`` counter that raises the run's
private ``Boom`` instance at exactly the k-th event."""
from __future__ import annotations


class Boom(Exception):
    """Private to the harness: nothing in the engine can name or expect it."""


class Suspend:
    __slots__ = ()

    def __await__(self):
        yield


# every attribute / item name the generated templates use on probes ("attr" events of
# PRec.__getattr__).  Every OTHER attribute name looked up on a probe instance while a run
# is in progress is a lookup the ENGINE (or a library / interpreter protocol it invokes:
# hasattr / getattr feature probing such as ``jinja_pass_arg``, ``__html__``, ``__aiter__``,
# ``__call__``, ``unsafe_callable``, ``alters_data``, isinstance()'s ``__class__``) makes
# on the data object: an event "probe:<name>" of its own (Watched.__getattribute__).
TEMPLATE_NAMES = frozenset(
    "a b c d f k n name grp sub lst missing zzz items_list".split())


class Watched:
    """Base of every probe class: attribute access by name on the INSTANCE is a
    data event ("probe:<name>") at which the run's private exception can be raised, then
    answered the ordinary way (found -> value, else __getattr__ / AttributeError).
    Not events: the probe's own state (single-underscore names), the names the templates
    themselves read (TEMPLATE_NAMES: "attr" events of PRec.__getattr__) and the implicit
    special-method lookups of the interpreter (str(), iter(), calls ...: they are made on
    the type and have their own events)."""

    _cap = False    # True: only ever the subject of capability tests

    def __getattribute__(self, name):
        if (name[:1] == "_" and name[:2] != "__") or name in TEMPLATE_NAMES:
            return object.__getattribute__(self, name)
        object.__getattribute__(self, "_ev").hit(
            "probe:" + name, object.__getattribute__(self, "_cap"))
        return object.__getattribute__(self, name)


# HOW the data code raises its private exception (the object the caller must get is always
# the Boom instance itself).  Real data code rarely raises a bare new exception: it translates
# low-level errors (``raise Private() from e``), raises while handling another error, or
# re-raises an exception object it kept.  The low-level errors include the classes that are
# documented lookup signals when raised THEMSELVES (here they are only cause / context).
RAISE_SHAPES = (
    "plain",                             # raise Boom()
    "explicit-cause:raised",             # except Low as e: raise boom from e
    "explicit-cause:raised-chain-of-2",  # low -> mid (from low) -> boom from mid
    "explicit-cause:never-raised",       # raise boom from Low()   (cause has no traceback)
    "implicit-context",                  # except Low: raise boom
    "context-suppressed",                # except Low: raise boom from None
    "reraised-kept-object",              # boom was raised + caught before (has a traceback)
)
_LOW = (KeyError, AttributeError, TypeError, ValueError, OSError, IndexError, RuntimeError)


class Mid(Exception):
    """Intermediate private exception of a 2-link cause chain."""


def _raise_low(i):
    raise _LOW[i % len(_LOW)]("low-level error %d" % i)


def raise_shaped(boom, shape, i=0):
    """Raise ``boom`` the way ``shape`` says; i picks the low-level error class."""
    if shape == "plain":
        raise boom
    if shape == "explicit-cause:raised":
        try:
            _raise_low(i)
        except Exception as e:
            raise boom from e
    if shape == "explicit-cause:raised-chain-of-2":
        try:
            try:
                _raise_low(i)
            except Exception as e:
                raise Mid("translated") from e
        except Mid as m:
            raise boom from m
    if shape == "explicit-cause:never-raised":
        raise boom from _LOW[i % len(_LOW)]("never raised")
    if shape == "implicit-context":
        try:
            _raise_low(i)
        except Exception:
            raise boom
    if shape == "context-suppressed":
        try:
            _raise_low(i)
        except Exception:
            raise boom from None
    if shape == "reraised-kept-object":
        try:
            raise boom
        except Boom:
            pass
        raise boom
    raise AssertionError(shape)


class Events:
    def __init__(self, fault_at=None, shape="plain"):
        self.n = 0
        self.fault_at = fault_at
        self.shape = shape
        self.boom = Boom("injected") if fault_at is not None else None
        self.fired = False
        self.fired_kind = None
        self.fired_cap = False
        self.fired_label = None
        self.label = "-"
        # name of the scoped construct of a long-lived (cached-module) template the
        # render is currently inside ("" = none); set by the ``zone`` global
        self.zone = ""
        self.fired_zone = ""
        self.kinds = {}
        self.trace = []   # (kind, label, cap) per event
        self.zones = []   # zone per event

    def hit(self, kind, cap=False):
        self.n += 1
        self.kinds[kind] = self.kinds.get(kind, 0) + 1
        self.trace.append((kind, self.label, cap))
        self.zones.append(self.zone)
        if self.n == self.fault_at:
            self.fired = True
            self.fired_kind = kind
            self.fired_cap = cap
            self.fired_label = self.label
            self.fired_zone = self.zone
            raise_shaped(self.boom, self.shape, self.n)


class EvProxy:
    """Event sink for probes that outlive one run (environment globals, the
    installed gettext callables): forwards to the Events of the run in
    progress; outside a run (template compilation) nothing is an event."""

    def __init__(self):
        self.cur = None

    def hit(self, kind, cap=False):
        if self.cur is not None:
            self.cur.hit(kind, cap)


class PRec(Watched):
    """Record: attributes, items, str()."""

    def __init__(self, ev, fields, items, s):
        d = object.__getattribute__(self, "__dict__")
        d["_ev"], d["_fields"], d["_items"], d["_s"] = ev, fields, items, s

    def __getattr__(self, name):
        if name not in TEMPLATE_NAMES:
            raise AttributeError(name)
        self._ev.hit("attr")
        try:
            return self._fields[name]
        except KeyError:
            raise AttributeError(name) from None

    def __getitem__(self, key):
        self._ev.hit("item")
        return self._items[key]          # KeyError is a documented lookup signal

    def __str__(self):
        self._ev.hit("str")
        return self._s

    def __repr__(self):
        return "<PRec %s>" % self._s


class PHtml(PRec):
    def __html__(self):
        self._ev.hit("html")
        return "<i>%s</i>" % self._s


class PStr(Watched):
    def __init__(self, ev, s):
        self._ev, self._s = ev, s

    def __str__(self):
        self._ev.hit("str")
        return self._s

    def __repr__(self):
        return "<PStr %s>" % self._s


class PFmt(Watched):
    """String conversion through the format protocol: ``'{}'.format(p)`` /
    ``format(p)`` hit __format__, ``'%s' % p`` / ``str(p)`` hit __str__."""

    def __init__(self, ev, s):
        self._ev, self._s = ev, s

    def __format__(self, spec):
        self._ev.hit("format")
        return format(self._s, spec)

    def __str__(self):
        self._ev.hit("str")
        return self._s

    def __repr__(self):
        return "<PFmt %s>" % self._s


class PLazy(Watched):
    """A lazily translated message as returned by the gettext callables of
    several frameworks: not a str; supports ``%`` and str()."""

    def __init__(self, ev, s):
        self._ev, self._s = ev, s

    def __mod__(self, other):
        self._ev.hit("mod")
        return self._s % other

    def __str__(self):
        self._ev.hit("str")
        return self._s

    def __repr__(self):
        return "<PLazy %s>" % self._s


def make_gettext(ev, lazy):
    """-> (gettext, ngettext, pgettext, npgettext): harness-side translation
    callables (every call is a data event; placeholders are kept intact)."""
    def wrap(msg):
        return PLazy(ev, msg) if lazy else msg

    def gettext(s):
        ev.hit("gettext")
        return wrap("\u00ab" + s + "\u00bb")

    def ngettext(s, p, n):
        ev.hit("gettext")
        return wrap("\u00ab" + (s if n == 1 else p) + "\u00bb")

    def pgettext(c, s):
        ev.hit("gettext")
        return wrap("\u00ab" + c + ":" + s + "\u00bb")

    def npgettext(c, s, p, n):
        ev.hit("gettext")
        return wrap("\u00ab" + c + ":" + (s if n == 1 else p) + "\u00bb")

    return gettext, ngettext, pgettext, npgettext


class PCall(Watched):
    def __init__(self, ev, result):
        self._ev, self._result = ev, result

    def __call__(self, *a, **kw):
        self._ev.hit("call")
        return self._result

    def __repr__(self):
        return "<PCall>"


class PACall(PCall):
    """Async callable: one event for the call, one inside the awaited body."""

    def __call__(self, *a, **kw):
        self._ev.hit("call")
        return self._co()

    async def _co(self):
        await Suspend()
        self._ev.hit("await")
        return self._result


class _It(Watched):
    def __init__(self, ev, values):
        self._ev, self._it = ev, iter(values)

    def __iter__(self):
        return self

    def __next__(self):
        self._ev.hit("next")
        return next(self._it)


class PIter(Watched):
    """Re-iterable: every iteration is a fresh iterator over the same values."""

    def __init__(self, ev, values):
        self._ev, self._values = ev, list(values)

    def __iter__(self):
        self._ev.hit("iter")
        return _It(self._ev, self._values)

    def __repr__(self):
        return "<PIter>"


class PIterLen(PIter):
    def __len__(self):
        self._ev.hit("len")
        return len(self._values)


class _AIt(Watched):
    def __init__(self, ev, values):
        self._ev, self._it = ev, iter(values)

    def __aiter__(self):
        return self

    async def __anext__(self):
        self._ev.hit("anext")
        await Suspend()
        try:
            return next(self._it)
        except StopIteration:
            raise StopAsyncIteration from None


class PAIter(Watched):
    def __init__(self, ev, values):
        self._ev, self._values = ev, list(values)

    def __aiter__(self):
        self._ev.hit("aiter")
        return _AIt(self._ev, self._values)

    def __repr__(self):
        return "<PAIter>"


class PBool(Watched):
    def __init__(self, ev, value):
        self._ev, self._value = ev, value

    def __bool__(self):
        self._ev.hit("bool")
        return self._value

    def __repr__(self):
        return "<PBool>"


class PCap(Watched):
    """Only ever used as the subject of capability tests (``is sequence`` ...);
    its events are flagged so the oracle can apply the documented exception
    ("capability tests report false")."""

    _cap = True

    def __init__(self, ev, values):
        self._ev, self._values = ev, list(values)

    def __len__(self):
        self._ev.hit("len", cap=True)
        return len(self._values)

    def __getitem__(self, i):
        self._ev.hit("item", cap=True)
        return self._values[i]

    def __repr__(self):
        return "<PCap>"


class PCapIter(Watched):
    """Subject of ``is iterable`` only (flagged like PCap)."""

    _cap = True

    def __init__(self, ev, values):
        self._ev, self._values = ev, list(values)

    def __iter__(self):
        self._ev.hit("iter", cap=True)
        return iter(self._values)

    def __repr__(self):
        return "<PCapIter>"


def build(recipe, ev, is_async):
    """Recipe (JSON-able) -> template variables (fresh probes bound to ev)."""
    r = recipe
    sub = PRec(ev, {"c": r["c"], "d": PStr(ev, r["d"]), "lst": PIter(ev, r["lst"])}, {}, "sub")
    rec = PRec(ev, {"a": r["a"], "b": r["b"], "sub": sub, "f": PCall(ev, r["f"]),
                    "items_list": PIterLen(ev, r["lst"])},
               {"k": r["k"], 0: "zero"}, "rec" + r["b"])
    recs = [PRec(ev, {"n": x["n"], "name": x["name"], "grp": x["grp"],
                      "sub": PRec(ev, {"c": x["n"] * 10}, {}, "s")},
                 {}, "R" + x["name"]) for x in r["recs"]]
    v = {
        "rec": rec, "recs": recs, "fn": PCall(ev, r["fn"]), "fn2": PCall(ev, list(r["fn2"])),
        "it": PIter(ev, r["it"]), "itl": PIterLen(ev, r["itl"]), "s": PStr(ev, r["s"]),
        "h": PHtml(ev, {}, {}, r["h"]), "b": PBool(ev, r["bv"]), "nb": PBool(ev, not r["bv"]),
        "cap": PCap(ev, r["cap"]), "capit": PCapIter(ev, r["cap"]),
        "fm": PFmt(ev, r["d"] + r["s"]),
    }
    if is_async:
        v["afn"] = PACall(ev, r["fn"] + "~")
        v["ait"] = PAIter(ev, r["it"])
    return v


def build_globals(recipe, proxy, is_async):
    """Probes reachable WITHOUT a render context (environment globals): the only
    data the body of a template imported / included without context can touch.
    Bound to an EvProxy, so they report to whichever run is in progress."""
    r = recipe
    g = {
        "g_fn": PCall(proxy, r["fn"]),
        "g_rec": PRec(proxy, {"a": r["a"], "b": r["b"], "c": r["c"]}, {"k": r["k"]},
                      "grec" + r["b"]),
        "g_s": PStr(proxy, r["s"]), "g_it": PIter(proxy, r["it"]),
        "g_b": PBool(proxy, r["bv"]),
    }
    if is_async:
        g["g_afn"] = PACall(proxy, r["fn"] + "^")
    return g


def gen_recipe(rng):
    words = ["x<y", "a&b", "pl", "q\"t", "z>z", "m'n", "ok"]
    nrec = rng.randint(2, 4)
    return {
        "a": rng.randint(1, 9), "b": rng.choice(words), "c": rng.randint(1, 9),
        "d": rng.choice(words), "f": rng.choice(words), "k": rng.randint(1, 9),
        "lst": [rng.randint(1, 6) for _ in range(rng.randint(1, 3))],
        "recs": [{"n": rng.randint(1, 5), "name": rng.choice(words) + str(i),
                  "grp": rng.choice(["g1", "g2"])} for i in range(nrec)],
        "fn": rng.choice(words), "fn2": [rng.randint(1, 9) for _ in range(2)],
        "it": [rng.randint(1, 6) for _ in range(rng.randint(1, 3))],
        "itl": [rng.randint(1, 6) for _ in range(rng.randint(0, 2))],
        "s": rng.choice(words), "h": rng.choice(words), "bv": rng.random() < 0.5,
        "cap": [1, 2],
    }
