"""C32 — static template introspection over-approximates runtime behaviour."""
from __future__ import annotations

import sys

from vt import util
from vt.gen import corpus, refnest

PID = "C32"
LEVEL = "exploration"
TECHNIQUE = "runtime trace monitor: a recording context class (all by-name access methods, every context of every template involved) and wrapped template-loading entry points log every context lookup and template load during render, import and module construction; each event is checked against meta.find_undeclared_variables / find_referenced_templates of the template whose code or module construction performed it"
RULE = ("generated programs (statement programs, inheritance chains, include/import sets with and without "
        "context, expressions, loops) rendered on 2 data assignments with a Context subclass "
        "(environment.context_class, so it is the context of the importer, of import targets, of included "
        "templates and of parents alike) recording the outermost call of resolve_or_missing / resolve / "
        "__getitem__ / get / __contains__, whoever makes it: generated template code (attributed to the "
        "template of the calling code), engine code working for template code on that same context "
        "(attributed to that code's template), or engine code building something for the context's own "
        "template - e.g. the module of an import target - (attributed to context.name); afterwards every "
        "template of the set is also turned into a module through the API (template.module, make_module(), "
        "make_module(vars), make_module_async) under the same monitor; wrappers record get_template / "
        "select_template / get_or_select_template(parent, names); every observed key must be in "
        "find_undeclared_variables(parse(T)) or an environment/template global, every observed load must "
        "be listed by find_referenced_templates(parse(T)) or that list contains None. Every include/import "
        "set is additionally run RE-NESTED (vt.gen.refnest): its reference statements (with the uses that "
        "follow them) moved, one or two levels deep, below every statement-holding position of the language "
        "- if / elif #1-#3 / else arms, for body / for else, call, filter, set and autoescape blocks - and "
        "existing ifs above a reference (conditional extends included, inheritance chains too) shifted so "
        "that their arms become elif arms; added data select the arm holding the reference (85%) or another "
        "one; a marker global counts the positions really executed (nested_ref_arm_executed:<position>). "
        "distinct = distinct "
        "(program shape) with >= 1 observed lookup")
LEVEL_TEXT = "held on the generated programs only"
ASSUMPTIONS = ["code generated from a template is recognised by its compiler-made module globals (`name`, "
               "`blocks`, no `__name__`); the asking template is that `name`",
               "a lookup made by engine code that is not working for template code on the same context is charged "
               "to the template the context was created for (Context.name)",
               "Context.get_exported (documented) is counted to show that module construction was observed"]
NSHARDS = {"quick": 16, "thorough": 16}
BUDGET_S = {"quick": 20, "thorough": 500}
QN = 130
QD = 120
QARMS = {"if.if": 30, "if.elif": 90, "if.else": 38, "for.body": 28, "for.else": 30, "call": 30, "filter": 30,
         "setblock": 35, "autoescape": 32, "if.elif(shifted)": 12}
assert set(QARMS) == set(refnest.LABELS)
FLOORS = {
    "quick": {"evaluations": 1500, "distinct": 300,
              "counters": {"lookup_events": 10000, "load_events": 800, "distinct_keys_checked": 2000,
                           "respelled_reference_cases": 40,
                           "renested_reference_cases": QN, "renested_depth2_sites": QD, **{"nested_ref_arm_executed:" + k: v for k, v in QARMS.items()},
                           "module_constructions": 3500, "module_constructions_ok": 2800,
                           "module_builds_by_api": 2800, "module_builds_during_render": 250,
                           "import_target_modules_observed": 220, "module_lookup_events": 10000,
                           "module_constructions:module": 1500, "module_constructions:make_module": 750,
                           "module_constructions:make_module(vars)": 750,
                           "module_constructions:make_module_async": 240,
                           "module_constructions:make_module_async(vars)": 240}},
    "thorough": {"evaluations": 40000, "distinct": 5000,
                 "counters": {"lookup_events": 300000, "load_events": 20000, "distinct_keys_checked": 60000,
                              "respelled_reference_cases": 1000,
                              "renested_reference_cases": 25 * QN, "renested_depth2_sites": 25 * QD,
                              **{"nested_ref_arm_executed:" + k: 25 * v for k, v in QARMS.items()},
                              "module_constructions": 50000, "module_constructions_ok": 40000,
                              "module_builds_by_api": 40000, "module_builds_during_render": 4000,
                              "import_target_modules_observed": 3300, "module_lookup_events": 200000,
                              "module_constructions:module": 22000, "module_constructions:make_module": 11000,
                              "module_constructions:make_module(vars)": 11000,
                              "module_constructions:make_module_async": 3600,
                              "module_constructions:make_module_async(vars)": 3600}},
}


LOOKUP_METHODS = ("resolve_or_missing", "resolve", "__getitem__", "get", "__contains__")


def is_template_code(frame):
    """A frame of code generated from a template: module globals made by the compiler
    (`name`, `blocks`, `environment`), not a python module."""
    g = frame.f_globals
    return "__name__" not in g and "name" in g and "blocks" in g


def attribute(ctxobj, frame):
    """Who performed a lookup on context `ctxobj`, given the frame that called the Context method.

    - template code calling directly: that template (as before);
    - engine code (jinja2.*) calling: walk up to the nearest template-code frame; if that code works
      on this very context (its `context` variable is ctxobj) the lookup is made on its behalf,
      otherwise (another template's code, e.g. an importer executing {% import %}, or the
      harness calling template.module / make_module) the engine is building something for the
      template the context belongs to: context.name.
    Returns (template name, via) with via in 'code' | 'engine-for-code' | 'engine-for-context'."""
    if is_template_code(frame):
        return frame.f_globals.get("name"), "code"
    f = frame
    while f is not None:
        if is_template_code(f):
            if f.f_locals.get("context") is ctxobj:
                return f.f_globals.get("name"), "engine-for-code"
            break
        f = f.f_back
    return ctxobj.name, "engine-for-context"


def make_recording_env(case, is_async, log_lookups, log_loads, stats=None, srcs_override=None):
    from jinja2.runtime import Context

    stats = stats if stats is not None else {}

    def recording(method):
        base = getattr(Context, method)

        def wrapper(self, key, *a, **k):
            # only the outermost call of a lookup is an event (get -> __getitem__ -> resolve_or_missing ...)
            if getattr(self, "_vt_depth", 0) == 0:
                asker, via = attribute(self, sys._getframe(1))
                log_lookups.append((asker, key, method, via))
            self._vt_depth = getattr(self, "_vt_depth", 0) + 1
            try:
                return base(self, key, *a, **k)
            finally:
                self._vt_depth -= 1
        wrapper.__name__ = method
        return wrapper

    def get_exported(self):
        stats["module_builds"] = stats.get("module_builds", 0) + 1
        stats.setdefault("module_build_names", set()).add(self.name)
        return Context.get_exported(self)

    ns = {m: recording(m) for m in LOOKUP_METHODS}
    ns["get_exported"] = get_exported
    RecContext = type("RecContext", (Context,), ns)

    env = corpus.make_env(case, enable_async=is_async)
    if srcs_override is not None:
        import jinja2

        env.loader = jinja2.DictLoader(srcs_override)
    env.context_class = RecContext
    parents = []
    for fn in ("get_template", "select_template", "get_or_select_template"):
        orig = getattr(env, fn)

        def wrapper(name, parent=None, globals=None, _orig=orig, _fn=fn):
            if parent is not None:
                log_loads.append((parent, _fn, name))
            parents.append(parent)
            try:
                return _orig(name, parent, globals)
            finally:
                parents.pop()
        setattr(env, fn, wrapper)
    # ... and what the LOADER is finally asked for on behalf of a template (after join_path)
    orig_load = env.loader.load

    def load(environment, name, globals=None):
        if parents and parents[-1] is not None:
            log_loads.append((parents[-1], "loader.load", name))
        return orig_load(environment, name, globals)
    env.loader.load = load
    return env


def respell(case, rng):
    """The same set with its constant template references written in non-canonical but
    equivalent spellings ('./x', '/x', 'x'); the loader knows every spelling."""
    import re

    srcs = corpus.sources(case)
    names = sorted(srcs, key=len, reverse=True)
    how = {n: rng.choice(["./", "/", "./", ""]) for n in names}
    out = {}
    for n, s in srcs.items():
        for m in names:
            if how[m]:
                s = re.sub(r"(['\"])" + re.escape(m) + r"\1", lambda mo: mo.group(1) + how[m] + m + mo.group(1), s)
        out[n] = s
    for n in list(out):
        for pre in ("./", "/"):
            out[pre + n] = out[n]
    return out


def judge_lookups(ctx, case, is_async, env, srcs, static_vars, lookups, phase, seen):
    for asker, key, method, via in lookups:
        ctx.count("lookups_via:" + via)
        if method != "resolve_or_missing":
            ctx.count("lookups_by_other_methods")
        if asker is None or asker not in static_vars:
            ctx.count("lookup_events_unattributed")
            continue
        if (asker, key, via) in seen:
            continue
        seen.add((asker, key, via))
        ctx.count("distinct_keys_checked")
        if key in static_vars[asker] or key in env.globals:
            continue
        where = construct_of(srcs[asker], key) if via == "code" else via + ":" + method
        ctx.violation("undeclared-missed:" + where + ("" if phase == "render" else "/" + phase),
                      f"[{phase}] template {asker!r} ({via}, Context.{method}) looked up {key!r} at run time but "
                      f"find_undeclared_variables reports {sorted(static_vars[asker])} | source={srcs[asker]!r} "
                      f"| all sources={srcs!r}",
                      {"case": case, "async": is_async})


def check_case(ctx, case, is_async, respelled=None):
    from jinja2 import meta

    lookups, loads, stats = [], [], {}
    env = make_recording_env(case, is_async, lookups, loads, stats, respelled)
    marks = []
    env.globals["vt_mark"] = marks.append      # re-nested cases: which positions were executed
    srcs = corpus.sources(case) if respelled is None else {n: s for n, s in respelled.items() if n in case["asts"]}
    if respelled is not None:
        ctx.count("respelled_reference_cases")
    static_vars, static_refs = {}, {}
    for n, s in srcs.items():
        try:
            ast = env.parse(s)
        except Exception:
            return
        static_vars[n] = meta.find_undeclared_variables(ast)
        static_refs[n] = list(meta.find_referenced_templates(ast))
    o = util.capture(lambda: env.get_template(case["main"]).render(corpus.realize_data(case, env)))
    ctx.ev()
    if not o.ok:
        ctx.count("render_raises")
    ctx.count("lookup_events", len(lookups))
    ctx.count("load_events", len(loads))
    for m in marks:
        ctx.count("nested_ref_arm_executed:" + str(m))
    del marks[:]
    seen = set()
    judge_lookups(ctx, case, is_async, env, srcs, static_vars, lookups, "render", seen)
    for parent, fn, names in loads:
        if parent not in static_refs:
            continue
        refs = static_refs[parent]
        ctx.count("load_events_checked")
        if None in refs:
            ctx.count("loads_covered_by_unknown_entry")
            continue
        wanted = names if isinstance(names, (list, tuple)) else [names]
        wanted = [getattr(w, "name", w) for w in wanted]
        if all(w in refs for w in wanted):
            continue
        ctx.violation("referenced-missed:" + fn,
                      f"template {parent!r} loaded {wanted!r} but find_referenced_templates reports {refs!r} "
                      f"| source={srcs[parent]!r}", {"case": case, "async": is_async})
    ctx.count("module_builds_during_render", stats.get("module_builds", 0))
    ctx.count("import_target_modules_observed", len(stats.get("module_build_names", ())))
    if lookups:
        ctx.dist(corpus.shape(case))
    check_modules(ctx, case, is_async, env, srcs, static_vars, lookups, stats)


def check_modules(ctx, case, is_async, env, srcs, static_vars, lookups, stats):
    """Every template of the set turned into a module by the API: template.module (sync),
    make_module() and make_module(vars) (or make_module_async): the same soundness demand for the
    lookups performed while the module is built."""
    data = corpus.realize_data(case, env)
    for ti, n in enumerate(srcs):
        t = util.capture(lambda: env.get_template(n))
        if not t.ok:
            continue
        t = t.value
        if is_async:
            forms = [("make_module_async", lambda: util.run_async(t.make_module_async())),
                     ("make_module_async(vars)", lambda: util.run_async(t.make_module_async(dict(data))))]
            forms = forms[(ti + ctx.evaluations) % 2:][:1]
        else:
            forms = [("module", lambda: t.module), ("make_module", lambda: t.make_module()),
                     ("make_module(vars)", lambda: t.make_module(dict(data)))]
            forms = forms[:1] + forms[1 + (ti + ctx.evaluations) % 2:][:1]
        for phase, fn in forms:
            del lookups[:]
            before = stats.get("module_builds", 0)
            o = util.capture(lambda: str(fn()))
            ctx.ev()
            ctx.count("module_constructions")
            ctx.count("module_constructions:" + phase)
            if o.ok:
                ctx.count("module_constructions_ok")
            ctx.count("module_lookup_events", len(lookups))
            ctx.count("lookup_events", len(lookups))
            ctx.count("module_builds_by_api", stats.get("module_builds", 0) - before)
            judge_lookups(ctx, case, is_async, env, srcs, static_vars, lookups, phase.split("(")[0], set())


def construct_of(src, key):
    """Coarse mechanism: the kind of tag in which the name occurs first."""
    import re

    for m in re.finditer(r"\{%\s*(\w+)[^%]*\b" + re.escape(key) + r"\b", src):
        return m.group(1)
    return "output"


def run(ctx):
    rng = ctx.rng("c32")
    n = 700 if ctx.tier == "quick" else 18000
    i = 0
    while ctx.more(i, n, floor=60):
        case = corpus.gen_case(rng)
        check_case(ctx, case, is_async=(i % 4 == 3))
        if case["kind"] in ("incimp", "inherit") and i % 2 == 0:
            check_case(ctx, case, is_async=(i % 4 == 2), respelled=respell(case, rng))
        if case["kind"] in ("incimp", "inherit"):
            nested, labels = refnest.nest_case(case, rng)
            if nested is not None:
                ctx.count("renested_reference_cases")
                ctx.count("renested_depth2_sites", labels.count("depth2"))
                check_case(ctx, nested, is_async=(i % 4 == 1))
                if i < 4:
                    ctx.sample({"renested_sources": corpus.sources(nested)})
        if i < 2:
            ctx.sample({"sources": corpus.sources(case)})
        i += 1


def replay(ctx, case):
    check_case(ctx, case["case"], case["async"])
