"""C32 — static template introspection over-approximates runtime behaviour."""
from __future__ import annotations

import sys

from vt import util
from vt.gen import corpus

PID = "C32"
LEVEL = "exploration"
TECHNIQUE = "runtime trace monitor: a recording context class and wrapped template-loading entry points log every context lookup and template load; each event is checked against meta.find_undeclared_variables / find_referenced_templates of the template whose code performed it"
RULE = ("generated programs (statement programs, inheritance chains, include/import sets, expressions, "
        "loops) rendered on 2 data assignments with a Context subclass recording resolve_or_missing(key) "
        "together with the template whose code asked, and wrappers recording get_template / "
        "select_template / get_or_select_template(parent, names); every observed key must be in "
        "find_undeclared_variables(parse(T)) or an environment/template global, every observed load must "
        "be listed by find_referenced_templates(parse(T)) or that list contains None. distinct = distinct "
        "(program shape) with >= 1 observed lookup")
LEVEL_TEXT = "held on the generated programs only"
ASSUMPTIONS = ["the asking template is identified by the `name` global of the calling generated-code frame"]
NSHARDS = {"quick": 16, "thorough": 16}
BUDGET_S = {"quick": 20, "thorough": 500}
FLOORS = {
    "quick": {"evaluations": 1500, "distinct": 300,
              "counters": {"lookup_events": 10000, "load_events": 800, "distinct_keys_checked": 2000}},
    "thorough": {"evaluations": 40000, "distinct": 5000,
                 "counters": {"lookup_events": 300000, "load_events": 20000, "distinct_keys_checked": 60000}},
}


def make_recording_env(case, is_async, log_lookups, log_loads):
    from jinja2.runtime import Context

    class RecContext(Context):
        def resolve_or_missing(self, key):
            f = sys._getframe(1)
            asker = f.f_globals.get("name") if f.f_code.co_filename.startswith("<") or "name" in f.f_globals else None
            if f.f_globals.get("__name__", "").startswith("jinja2"):
                asker = None  # engine-internal lookup (e.g. Context.resolve), not generated code
            log_lookups.append((asker, key))
            return super().resolve_or_missing(key)

    env = corpus.make_env(case, enable_async=is_async)
    env.context_class = RecContext
    for fn in ("get_template", "select_template", "get_or_select_template"):
        orig = getattr(env, fn)

        def wrapper(name, parent=None, globals=None, _orig=orig, _fn=fn):
            if parent is not None:
                log_loads.append((parent, _fn, name))
            return _orig(name, parent, globals)
        setattr(env, fn, wrapper)
    return env


def check_case(ctx, case, is_async):
    from jinja2 import meta

    lookups, loads = [], []
    env = make_recording_env(case, is_async, lookups, loads)
    srcs = corpus.sources(case)
    static_vars, static_refs = {}, {}
    for n, s in srcs.items():
        try:
            ast = env.parse(s)
        except Exception:
            return
        static_vars[n] = meta.find_undeclared_variables(ast)
        static_refs[n] = list(meta.find_referenced_templates(ast))
    o = util.capture(lambda: env.get_template(case["main"]).render(corpus.realize_data(case, env)))
    ctx.ev()
    if not o.ok:
        ctx.count("render_raises")
    ctx.count("lookup_events", len(lookups))
    ctx.count("load_events", len(loads))
    seen = set()
    for asker, key in lookups:
        if asker is None or asker not in static_vars:
            ctx.count("lookup_events_unattributed")
            continue
        if (asker, key) in seen:
            continue
        seen.add((asker, key))
        ctx.count("distinct_keys_checked")
        if key in static_vars[asker] or key in env.globals:
            continue
        ctx.violation("undeclared-missed:" + construct_of(srcs[asker], key),
                      f"template {asker!r} looked up {key!r} at run time but find_undeclared_variables "
                      f"reports {sorted(static_vars[asker])} | source={srcs[asker]!r}",
                      {"case": case, "async": is_async})
    for parent, fn, names in loads:
        if parent not in static_refs:
            continue
        refs = static_refs[parent]
        ctx.count("load_events_checked")
        if None in refs:
            ctx.count("loads_covered_by_unknown_entry")
            continue
        wanted = names if isinstance(names, (list, tuple)) else [names]
        wanted = [getattr(w, "name", w) for w in wanted]
        if all(w in refs for w in wanted):
            continue
        ctx.violation("referenced-missed:" + fn,
                      f"template {parent!r} loaded {wanted!r} but find_referenced_templates reports {refs!r} "
                      f"| source={srcs[parent]!r}", {"case": case, "async": is_async})
    if lookups:
        ctx.dist(corpus.shape(case))


def construct_of(src, key):
    """Coarse mechanism: the kind of tag in which the name occurs first."""
    import re

    for m in re.finditer(r"\{%\s*(\w+)[^%]*\b" + re.escape(key) + r"\b", src):
        return m.group(1)
    return "output"


def run(ctx):
    rng = ctx.rng("c32")
    n = 700 if ctx.tier == "quick" else 18000
    i = 0
    while ctx.more(i, n, floor=60):
        case = corpus.gen_case(rng)
        check_case(ctx, case, is_async=(i % 4 == 3))
        if i < 2:
            ctx.sample({"sources": corpus.sources(case)})
        i += 1


def replay(ctx, case):
    check_case(ctx, case["case"], case["async"])
