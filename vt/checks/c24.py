"""C24 — HTML-producing filters cannot be used to inject markup.

Every case calls the real filter twice: through ``Environment.call_filter``
and through a rendered template, and decides the result with oracles written
from the HTML standard / the filter documentation (vt.model.c24_html)."""
from __future__ import annotations

import html
import json

from vt.gen import c24_gen as G
from vt.model import c24_html as H

PID = "C24"
LEVEL = "exploration"
TECHNIQUE = ("generated adversarial inputs; outputs decided by an independent WHATWG "
             "attribute tokenizer, a strict urlize-output parser, JSON round trip and nonce tracking")
RULE = ("cases are drawn per filter family from adversarial generators (markup characters, both "
        "quotes, ASCII/Unicode whitespace, URL/e-mail fragments, brackets, trailing punctuation, "
        "nested JSON, generated trim/rel/target/extra_schemes/indent/replace arguments) and each is "
        "run through Environment.call_filter and through a rendered template (sync; join/urlize/"
        "tojson also in an async environment). distinct = distinct (family, input, arguments) "
        "cases that are non-trivial: tojson value contains one of < > & '; xmlattr dict emits an "
        "attribute whose value or (accepted) key has a markup character, or has a key that must be rejected, "
        "or has a key that is not a plain str; xmlattr mappings come in two families: str keys, and typed "
        "mappings whose keys are int / float / bool / None / tuple / frozenset / Fraction / PurePath / bytes / "
        "date / datetime / complex / application objects with __str__ / str subclasses (plain subclass, "
        "StrEnum, Markup) - the text form of every type family carries each forbidden character class - "
        "with values that are str, numbers, objects with __str__, lists, Fraction, bytes; typed mappings "
        "with a literal spelling are also written as a dict literal in the template; urlize "
        "output contains >=1 anchor and input has a markup character; escape input has a markup "
        "character; Markup-subject filter case where the nonce'd argument demonstrably arrived "
        "(escaped or not) in the result")
LEVEL_TEXT = ("held on the generated executions only: K adversarial inputs per filter family, "
              "no claim beyond the generators' alphabets and argument ranges")
ASSUMPTIONS = [
    "HTML attribute tokenisation follows the WHATWG tokenizer states (names not lower-cased, "
    "CR treated as whitespace); keys containing space, TAB, LF, CR, FF, '/', '>' or '=' must raise "
    "ValueError when their item is emitted; other odd keys may be rejected or emitted intact, except that "
    "the markup characters < \" ' & of an accepted key must arrive escaped in the attribute name (the result "
    "is a safe string: the tokenised name has no raw < > \" ' and html.unescape(name) == key)",
    "xmlattr keys that are not str: the docstring's rule 'If any key contains a space, / solidus, > "
    "greater-than sign, or = equals sign, this fails with a ValueError' is applied to the key's TEXT (str(key)), "
    "which is what is written into the tag; any exception (TypeError included) is a refusal; a non-str key "
    "whose text is valid may be refused or emitted intact (then the output must tokenise into exactly the "
    "expected attributes). Never demanded: acceptance of any non-str key. Markup keys with markup "
    "characters and str subclasses that override __str__ are not generated",
    "tojson inputs are JSON-native (str keys, lists, finite floats) so that json.loads(output) == input is the exact round trip",
    "a filter result that is a plain str (not Markup) is judged by its escaped form, because that is what autoescape outputs",
    "urlize input, xmlattr values and filter arguments are plain str (Markup data is the author's explicit marking)",
    "default policies, plus one environment with urlize.target/urlize.rel policies set",
]
NSHARDS = {"quick": 16, "thorough": 16}
BUDGET_S = {"quick": 22, "thorough": 420}
FLOORS = {
    "quick": {"evaluations": 12000, "distinct": 4000,
              "counters": {"tojson_roundtrips": 800, "xmlattr_tokenized": 500,
                           "xmlattr_rejected_bad_key": 250, "xmlattr_names_with_markup_checked": 60,
                           "urlize_anchors_parsed": 1200,
                           "escape_compared": 800, "msubj_arg_arrived_escaped": 1200,
                           "template_route": 4000,
                           "xmlattr_nonstr_key_runs": 3500, "xmlattr_nonstr_bad_key_runs.space": 800,
                           "xmlattr_nonstr_bad_key_runs.solidus": 700,
                           "xmlattr_nonstr_bad_key_runs.gt": 300,
                           "xmlattr_nonstr_bad_key_runs.equals": 500,
                           "xmlattr_nonstr_key_type.tuple": 700,
                           "xmlattr_nonstr_key_type.TextObj": 1500,
                           "xmlattr_nonstr_key_type.Fraction": 300,
                           "xmlattr_nonstr_key_type.PurePosixPath": 300,
                           "xmlattr_nonstr_key_type.int": 300,
                           "xmlattr_rejected_bad_strsub_key": 80,
                           "xmlattr_template_literal_route": 100}},
    "thorough": {"evaluations": 200000, "distinct": 60000,
                 "counters": {"tojson_roundtrips": 12000, "xmlattr_tokenized": 8000,
                              "xmlattr_rejected_bad_key": 4000, "xmlattr_names_with_markup_checked": 4000,
                              "urlize_anchors_parsed": 20000,
                              "escape_compared": 12000, "msubj_arg_arrived_escaped": 20000,
                              "template_route": 60000,
                              "xmlattr_nonstr_key_runs": 50000, "xmlattr_nonstr_bad_key_runs.space": 11000,
                              "xmlattr_nonstr_bad_key_runs.solidus": 10000,
                              "xmlattr_nonstr_bad_key_runs.gt": 4500,
                              "xmlattr_nonstr_bad_key_runs.equals": 6500,
                              "xmlattr_nonstr_key_type.tuple": 10000,
                              "xmlattr_nonstr_key_type.TextObj": 22000,
                              "xmlattr_nonstr_key_type.Fraction": 5000,
                              "xmlattr_nonstr_key_type.PurePosixPath": 5000,
                              "xmlattr_nonstr_key_type.int": 5000,
                              "xmlattr_rejected_bad_strsub_key": 1100,
                              "xmlattr_template_literal_route": 1500}},
}
N_CASES = {"quick": 3000, "thorough": 60000}   # per shard upper bound

KINDS = ["tojson", "xmlattr", "urlize", "urlize", "escape", "msubj", "msubj", "xmlattr_typed"]
MS_FILTERS = ["indent", "replace", "join", "join_attr", "format", "format_kw",
              "truncate", "wordwrap"]

CHAR_NAMES = {" ": "space", "\t": "tab", "\n": "lf", "\r": "cr", "\f": "ff", "/": "solidus",
              ">": "gt", "=": "equals"}


# ------------------------------------------------------------------ envs
class Envs:
    def __init__(self):
        from jinja2 import Environment

        self.on = Environment(autoescape=True)
        self.off = Environment(autoescape=False)
        self.async_on = Environment(autoescape=True, enable_async=True)
        self.pol = Environment(autoescape=True)
        self.pol.policies["urlize.target"] = "_top"
        self.pol.policies["urlize.rel"] = "noopener noreferrer"
        self._tpl = {}

    def tpl(self, env, src):
        k = (id(env), src)
        t = self._tpl.get(k)
        if t is None:
            t = self._tpl[k] = env.from_string(src)
        return t


def jlit(s: str) -> str:
    """A Jinja string literal for an ASCII string."""
    out = []
    for c in s:
        if c == "\\":
            out.append("\\\\")
        elif c == '"':
            out.append('\\"')
        elif c == "\n":
            out.append("\\n")
        elif c == "\r":
            out.append("\\r")
        elif c == "\t":
            out.append("\\t")
        elif ord(c) < 32 or ord(c) > 126:
            out.append("\\u%04x" % ord(c))
        else:
            out.append(c)
    return '"' + "".join(out) + '"'


# ------------------------------------------------------------------ cases
def gen_case(rng, kind):
    if kind == "tojson":
        v = G.json_value(rng)
        return {"kind": kind, "value_json": json.dumps(v),
                "indent": rng.choice([None, None, 0, 2, 4])}
    if kind == "xmlattr":
        return {"kind": kind, "items": G.xml_dict(rng), "autospace": rng.random() < 0.75}
    if kind == "xmlattr_typed":
        return {"kind": "xmlattr", "typed": True, "items": G.xml_dict_typed(rng),
                "autospace": rng.random() < 0.75}
    if kind == "urlize":
        return {"kind": kind, "text": G.urlish_text(rng), "args": G.urlize_args(rng),
                "policy_env": rng.random() < 0.15}
    if kind == "escape":
        form = rng.choice(["str", "str", "str", "markup", "html_obj", "int", "none"])
        return {"kind": kind, "form": form, "s": G.hostile(rng, 0, 8),
                "filter": rng.choice(["escape", "e", "forceescape", "forceescape"])}
    if kind == "msubj":
        return gen_msubj(rng, rng.choice(MS_FILTERS))
    raise AssertionError(kind)


def gen_msubj(rng, f):
    used = []
    c = {"kind": "msubj", "filter": f, "literal_args": rng.random() < 0.4}
    n1 = G.nonce(rng, used)
    n2 = G.nonce(rng, used)
    if f == "indent":
        c["subject"] = rng.choice(["<b>l1</b>\nl2\n\nl3", "a\nb", "<p>x</p>\r\n<p>y</p>\n", "one\n\n\ntwo"])
        c["width"] = G.nonced(rng, n1, extra=" \t")
        c["first"] = rng.random() < 0.5
        c["blank"] = rng.random() < 0.5
        c["kw"] = rng.random() < 0.5
        c["nonces"] = [["width", n1]]
    elif f == "replace":
        old = rng.choice(["x", "lorem", "x", "lorem", G.nonced(rng, n1)])
        c["old"] = old
        c["subject"] = f"<i>x</i> lorem {html.escape(old)} y {html.escape(old)}<br>"
        c["new"] = G.nonced(rng, n2)
        c["count"] = rng.choice([None, None, 1, 5])
        c["nonces"] = [["new", n2]]
    elif f in ("join", "join_attr"):
        items = []
        plain = []
        for i in range(rng.randint(2, 4)):
            if rng.random() < 0.3:
                n = G.nonce(rng, used)
                items.append(["p", G.nonced(rng, n)])
                plain.append(["item", n])
            else:
                items.append(["m", rng.choice(["<b>a</b>", "c", "<br>", "&amp;", "x y"])])
        if all(k == "p" for k, _ in items):
            items[0] = ["m", "<b>a</b>"]
            plain.pop(0)
        c["items"] = items
        c["d"] = G.nonced(rng, n1, extra=" ,")
        c["kw"] = rng.random() < 0.3
        c["async"] = rng.random() < 0.35
        c["nonces"] = plain + [["d", n1]]
    elif f == "format":
        c["subject"] = rng.choice(["<b>%s</b>|%s", "%s<br>%s", "<a title='%s'>%s</a>"])
        c["a"] = G.nonced(rng, n1)
        c["b"] = G.nonced(rng, n2)
        c["nonces"] = [["args", n1], ["args", n2]]
    elif f == "format_kw":
        c["subject"] = rng.choice(["<b>%(a)s</b>|%(b)s", "%(b)s<br>%(a)s"])
        c["a"] = G.nonced(rng, n1)
        c["b"] = G.nonced(rng, n2)
        c["nonces"] = [["kwargs", n1], ["kwargs", n2]]
    elif f == "truncate":
        c["subject"] = rng.choice(["<b>lorem</b> ipsum dolor sit amet consectetur adipiscing",
                                   "aaaa bbbb cccc dddd eeee ffff gggg hhhh iiii jjjj",
                                   "<i>" + "x" * 80 + "</i>"])
        c["end"] = G.nonced(rng, n1)
        c["length"] = len(c["end"]) + rng.choice([0, 1, 5, 12])
        c["killwords"] = rng.random() < 0.5
        c["leeway"] = rng.choice([0, 0, 2, None])
        c["nonces"] = [["end", n1]]
    elif f == "wordwrap":
        c["subject"] = rng.choice(["aaa bbb ccc <b>ddd</b> eee fff", "one two\nthree four five six",
                                   "x" * 30 + " y-z-w " + "q" * 12])
        c["wrapstring"] = G.nonced(rng, n1, extra="\n ")
        c["width"] = rng.choice([3, 5, 8, 12])
        c["break_long_words"] = rng.random() < 0.5
        c["nonces"] = [["wrapstring", n1]]
    return c


# ---------------------------------------------------------------- checks
def check_case(ctx, E, case):
    k = case["kind"]
    ctx.ev()
    if k == "tojson":
        return check_tojson(ctx, E, case)
    if k == "xmlattr":
        return check_xmlattr(ctx, E, case)
    if k == "urlize":
        return check_urlize(ctx, E, case)
    if k == "escape":
        return check_escape(ctx, E, case)
    if k == "msubj":
        return check_msubj(ctx, E, case)
    raise AssertionError(k)


def _render(ctx, E, env, src, **vars):
    ctx.count("template_route")
    return E.tpl(env, src).render(**vars)


def check_tojson(ctx, E, case):
    from markupsafe import Markup

    v = json.loads(case["value_json"])
    indent = case["indent"]
    kw = {} if indent is None else {"indent": indent}
    outs = []
    for label, env in (("on", E.on), ("off", E.off)):
        r = env.call_filter("tojson", v, kwargs=kw)
        ctx.count("filter_calls.tojson")
        if not isinstance(r, Markup):
            ctx.violation("tojson:not-markup", f"tojson returned {type(r).__name__} (autoescape {label})", case)
        outs.append((f"call_filter/{label}", str(r)))
    src = "{{ v|tojson }}" if indent is None else "{{ v|tojson(n) }}" if indent else "{{ v|tojson(indent=n) }}"
    outs.append(("template/on", _render(ctx, E, E.on, src, v=v, n=indent)))
    outs.append(("template/async", _render(ctx, E, E.async_on, src, v=v, n=indent)))
    for route, out in outs:
        for ch in "<>&'":
            if ch in out:
                ctx.violation(f"tojson:char:{ch}", f"{route}: output contains {ch!r}: {out[:200]!r}", case)
                break
        try:
            back = json.loads(out)
        except ValueError as e:
            ctx.violation("tojson:not-json", f"{route}: output is not JSON ({e}): {out[:200]!r}", case)
            continue
        ctx.count("tojson_roundtrips")
        if back != v:
            ctx.violation("tojson:roundtrip", f"{route}: json.loads(output) != input; output {out[:200]!r}", case)
    if any(c in case["value_json"] for c in ("<", ">", "&", "'")):
        ctx.dist(("tojson", case["value_json"], indent))


class TextObj:
    """An application object used as a mapping key / value: its text form is `text`."""

    def __init__(self, text):
        self.text = text

    def __str__(self):
        return self.text

    def __repr__(self):
        return f"TextObj({self.text!r})"

    def __hash__(self):
        return hash(self.text)

    def __eq__(self, other):
        return isinstance(other, TextObj) and other.text == self.text


class StrSub(str):
    pass


def make_key(k):
    """-> (key object, kind) with kind 'str' | 'strsub' | 'nonstr'; k is a str or a typed key
    [label, payload] (vt.gen.c24_gen.typed_key)"""
    if isinstance(k, str):
        return k, "str"
    t, v = k
    if t == "strsub":
        return StrSub(v), "strsub"
    if t == "strenum":
        import enum
        return enum.StrEnum("K", {"M": v}).M, "strsub"
    if t == "markup":
        from markupsafe import Markup
        return Markup(v), "strsub"
    if t in ("int", "float", "bool", "nonekey"):
        return v, "nonstr"
    if t == "tuple":
        return tuple(v), "nonstr"
    if t == "frozenset":
        return frozenset(v), "nonstr"
    if t == "frac":
        from fractions import Fraction
        return Fraction(*v), "nonstr"
    if t == "path":
        from pathlib import PurePosixPath
        return PurePosixPath(v), "nonstr"
    if t == "bytes":
        return v.encode("ascii"), "nonstr"
    if t == "dt":
        import datetime
        return datetime.datetime(*v), "nonstr"
    if t == "date":
        import datetime
        return datetime.date(*v), "nonstr"
    if t == "complex":
        return complex(*v), "nonstr"
    if t == "obj":
        return TextObj(v), "nonstr"
    raise AssertionError(k)


def make_value(spec):
    t = spec[0]
    if t == "o":
        return TextObj(spec[1])
    if t == "l":
        return list(spec[1])
    if t == "fr":
        from fractions import Fraction
        return Fraction(*spec[1])
    if t == "by":
        return spec[1].encode("utf-8")
    return spec[1]


def _xml_build(env, items):
    """-> (mapping, [(key text, value text)] of the items to be emitted, [key kind])"""
    d = {}
    expect = []
    kinds = []
    for key, spec in items:
        key, kind = make_key(key)
        if key in d:        # equal to an earlier key (a str subclass equals the plain str)
            continue
        t = spec[0]
        if t == "none":
            d[key] = None
            continue
        if t == "undef":
            d[key] = env.undefined(name="u")
            continue
        val = make_value(spec)
        d[key] = val
        expect.append((str(key), str(val)))
        kinds.append(kind)
    return d, expect, kinds


def _literal_src(items):
    """The mapping written as a dict literal of the template language (keys: str, int, float,
    bool, none and tuples of those), or None when an item has no literal spelling."""
    def lit(v):
        if isinstance(v, str):
            return jlit(v) if v.isascii() else None
        if v is None:
            return "none"
        if isinstance(v, bool):
            return "true" if v else "false"
        if isinstance(v, int):
            return str(v) if abs(v) < 10**15 else None
        if isinstance(v, float):
            return repr(v) if "e" not in repr(v) and "n" not in repr(v) else None
        return None

    parts = []
    seen = {}
    for key, spec in items:
        ko = make_key(key)[0]
        if ko in seen:          # as in _xml_build: a key equal to an earlier one is left out
            continue
        seen[ko] = 1
        if isinstance(key, str):
            ks = lit(key)
        elif key[0] in ("int", "float", "bool", "nonekey"):
            ks = lit(key[1])
        elif key[0] == "tuple":
            els = [lit(e) for e in key[1]]
            ks = None if None in els else "(" + ", ".join(els) + ("," if len(els) == 1 else "") + ")"
        else:
            ks = None
        if spec[0] == "none":
            vs = "none"
        elif spec[0] in ("s", "i", "f", "b"):
            vs = lit(spec[1])
        else:
            vs = None
        if ks is None or vs is None:
            return None
        parts.append(f"{ks}: {vs}")
    return "{" + ", ".join(parts) + "}"


def _xmlattr_names(ctx, out, expect, autospace):
    """The result of xmlattr is a safe string, so an emitted attribute NAME is
    subject to the same rule as a value: tokenised by the HTML tokenizer it
    contains no raw markup character and html.unescape(name) is the key.
    Called only after H.check_xmlattr accepted the output (it tokenises)."""
    doc = ("<x" if autospace else "<x ") + out + ">"
    try:
        _, attrs, _, _ = H.tokenize_start_tag(doc)
    except H.TokenizeError:
        return None
    for (name, _raw), (key, _text) in zip(attrs, expect):
        if not any(c in key for c in H.MARKUP_CHARS + "&"):
            continue
        ctx.count("xmlattr_names_with_markup_checked")
        raw = sorted({c for c in name if c in H.MARKUP_CHARS})
        if raw:
            names = {"<": "lt", ">": "gt", '"': "dquote", "'": "squote"}
            return ("attr-name-raw:" + "+".join(names[c] for c in raw),
                    f"attribute name {name!r} for key {key!r} carries raw {raw}: {out!r}")
        if html.unescape(name) != key:
            return "attr-name-unescape", f"attribute name {name!r} does not unescape to key {key!r}: {out!r}"
    return None


def check_xmlattr(ctx, E, case):
    autospace = case["autospace"]
    nontrivial = False
    routes = [("on", E.on), ("off", E.off), ("template", E.on)]
    lit_src = None
    if case.get("typed"):
        lit_src = _literal_src(case["items"])
        if lit_src is not None:
            routes.append(("template-literal", E.on))
    for label, env in routes:
        d, expect, kinds = _xml_build(env, case["items"])
        # decided on the TEXT of the key, whatever its type: the text is what is written into
        # the tag as the attribute name
        must_reject = [(k, kind) for (k, _), kind in zip(expect, kinds)
                       if H.key_must_be_rejected(k)]
        nonstr = [(k, kind) for (k, _), kind in zip(expect, kinds) if kind == "nonstr"]
        if nonstr:
            ctx.count("xmlattr_nonstr_key_runs")
            for t in sorted({type(k).__name__ for k in d if not isinstance(k, str)}):
                ctx.count("xmlattr_nonstr_key_type." + t)
        if "strsub" in kinds:
            ctx.count("xmlattr_strsub_key_runs")
        for ch in sorted({c for k, kind in must_reject if kind == "nonstr"
                          for c in k if c in H.KEY_REJECT_CHARS}):
            ctx.count("xmlattr_nonstr_bad_key_runs." + CHAR_NAMES[ch])
        try:
            if label == "template":
                src = "{{ d|xmlattr }}" if autospace else "{{ d|xmlattr(false) }}"
                out = _render(ctx, E, env, src, d=d)
            elif label == "template-literal":
                src = "{{ " + lit_src + ("|xmlattr }}" if autospace else "|xmlattr(false) }}")
                ctx.count("xmlattr_template_literal_route")
                out = _render(ctx, E, env, src)
            else:
                out = str(env.call_filter("xmlattr", d, args=[autospace]))
            ctx.count("filter_calls.xmlattr")
        except Exception as e:
            # a refusal: nothing was emitted.  (str keys: ValueError is the documented one.)
            if nonstr:
                nontrivial = True
                ctx.count("xmlattr_nonstr_key_refused")
            if isinstance(e, ValueError):
                if must_reject:
                    ctx.count("xmlattr_rejected_bad_key")
                    if any(kind == "strsub" for _, kind in must_reject):
                        ctx.count("xmlattr_rejected_bad_strsub_key")
                    nontrivial = True
                else:
                    ctx.count("xmlattr_rejected_other_key")
            else:
                ctx.count("xmlattr_other_exception." + type(e).__name__)
            continue
        if nonstr:
            nontrivial = True
            ctx.count("xmlattr_nonstr_key_emitted")
        if must_reject:
            k, kind = must_reject[0]
            ch = next(c for c in k if c in H.KEY_REJECT_CHARS)
            if kind == "nonstr":
                ktype = next(type(x).__name__ for x in d if str(x) == k and not isinstance(x, str))
                ctx.violation(f"xmlattr:nonstr-key-accepted:{CHAR_NAMES[ch]}",
                              f"{label}: {ktype} key with text {k!r} was written into the tag "
                              f"as an attribute name; output {out[:200]!r}", case)
            else:
                ctx.violation(f"xmlattr:key-accepted:{CHAR_NAMES[ch]}",
                              f"{label}: key {k!r} was accepted; output {out[:200]!r}", case)
            continue
        bad = H.check_xmlattr(out, expect, autospace)
        ctx.count("xmlattr_tokenized")
        if bad:
            ctx.violation("xmlattr:" + bad[0], f"{label}: {bad[1][:400]}", case)
        else:
            bad = _xmlattr_names(ctx, out, expect, autospace)
            if bad:
                ctx.violation("xmlattr:" + bad[0], f"{label}: {bad[1][:400]}", case)
        if any(any(c in v for c in "<>\"'&") for _, v in expect):
            nontrivial = True
        if any(any(c in k for c in "<\"'&") for k, _ in expect):
            nontrivial = True
    if nontrivial:
        ctx.dist(("xmlattr", case["items"], autospace))


def check_urlize(ctx, E, case):
    from jinja2.exceptions import FilterArgumentError
    from markupsafe import Markup

    text = case["text"]
    args = case["args"]
    pol = case.get("policy_env")
    env = E.pol if pol else E.on
    rel_expected = set((args.get("rel") or "").split())
    if args.get("nofollow"):
        rel_expected.add("nofollow")
    rel_expected.update((env.policies["urlize.rel"] or "").split())
    target_expected = args.get("target")
    if target_expected is None:
        target_expected = env.policies["urlize.target"]
    target_expected = target_expected or None
    outs = []
    try:
        r = env.call_filter("urlize", text, kwargs=dict(args))
        ctx.count("filter_calls.urlize")
        if not isinstance(r, Markup):
            ctx.violation("urlize:not-markup", f"urlize under autoescape returned {type(r).__name__}", case)
        outs.append(("call_filter/on", str(r)))
        r2 = E.off.call_filter("urlize", text, kwargs=dict(args))
        if not pol:
            outs.append(("call_filter/off", str(r2)))
        names = [k for k in ("trim_url_limit", "nofollow", "target", "rel", "extra_schemes") if k in args]
        src = "{{ t|urlize(" + ", ".join(f"{k}={k}" for k in names) + ") }}"
        outs.append(("template/on", _render(ctx, E, env, src, t=text, **args)))
        if not pol:
            outs.append(("template/async", _render(ctx, E, E.async_on, src, t=text, **args)))
    except FilterArgumentError:
        ctx.count("urlize_filter_argument_error")
        return
    na = 0
    for route, out in outs:
        bad, na = H.check_urlize(out, rel_expected, target_expected)
        ctx.count("urlize_outputs_parsed")
        ctx.count("urlize_anchors_parsed", na)
        if bad:
            ctx.violation("urlize:" + bad[0], f"{route}: {bad[1][:400]} | text={text!r} args={args}", case)
    if na and any(c in text for c in "<>\"'&"):
        ctx.dist(("urlize", text, args))


class HtmlObj:
    def __init__(self, s):
        self.s = s

    def __html__(self):
        return self.s

    def __str__(self):
        return "STR-FORM-NOT-HTML"


def check_escape(ctx, E, case):
    import markupsafe
    from markupsafe import Markup

    s = case["s"]
    form = case["form"]
    f = case["filter"]
    if form == "str":
        v, src_text = s, s
    elif form == "markup":
        v, src_text = Markup(s), s
    elif form == "html_obj":
        v, src_text = HtmlObj(s), s
    elif form == "int":
        v, src_text = 12345, "12345"
    else:
        v, src_text = None, "None"
    for label, env in (("on", E.on), ("off", E.off)):
        r = env.call_filter(f, v)
        ctx.count("filter_calls." + f)
        t = _render(ctx, E, env, "{{ v|" + f + " }}", v=v)
        if not isinstance(r, Markup):
            ctx.violation(f"{f}:not-markup", f"{f} returned {type(r).__name__}", case)
        if t != str(r):
            ctx.violation(f"{f}:template-differs", f"autoescape {label}: rendered {t[:120]!r} but filter gave {str(r)[:120]!r}", case)
        ctx.count("escape_compared")
        if f in ("escape", "e"):
            if r != markupsafe.escape(v):
                ctx.violation("escape:differs-from-markupsafe", f"{str(r)[:120]!r} vs {str(markupsafe.escape(v))[:120]!r}", case)
            if form in ("markup", "html_obj"):
                if str(r) != s:
                    ctx.violation("escape:markup-changed", f"safe value changed: {str(r)[:120]!r} from {s[:120]!r}", case)
            else:
                bad = H.independently_escaped(src_text, str(r))
                if bad:
                    ctx.violation("escape:" + bad.replace(" ", "-"), f"{bad}: {str(r)[:160]!r} from {src_text[:120]!r}", case)
        else:
            # forceescape: "Enforce HTML escaping" of the markup form
            bad = H.independently_escaped(src_text, str(r))
            if bad:
                ctx.violation("forceescape:" + bad.replace(" ", "-"), f"form={form}: {bad}: {str(r)[:160]!r} from {src_text[:120]!r}", case)
    if any(c in s for c in "<>\"'&") and form in ("str", "markup", "html_obj"):
        ctx.dist(("escape", f, form, s))


def _ms_call(case):
    """-> (filter name, subject builder, args list, kwargs dict, template arg source builder)"""
    from markupsafe import Markup

    f = case["filter"]
    if f == "indent":
        if case["kw"]:
            return "indent", Markup(case["subject"]), [], {"width": case["width"], "first": case["first"], "blank": case["blank"]}
        return "indent", Markup(case["subject"]), [case["width"], case["first"], case["blank"]], {}
    if f == "replace":
        a = [case["old"], case["new"]]
        if case.get("count") is not None:
            a.append(case["count"])
        return "replace", Markup(case["subject"]), a, {}
    if f == "join":
        items = [Markup(s) if k == "m" else s for k, s in case["items"]]
        return "join", items, ([] if case["kw"] else [case["d"]]), ({"d": case["d"]} if case["kw"] else {})
    if f == "join_attr":
        items = [{"k": Markup(s) if k == "m" else s} for k, s in case["items"]]
        return "join", items, [case["d"]], {"attribute": "k"}
    if f == "format":
        return "format", Markup(case["subject"]), [case["a"], case["b"]], {}
    if f == "format_kw":
        return "format", Markup(case["subject"]), [], {"a": case["a"], "b": case["b"]}
    if f == "truncate":
        a = [case["length"], case["killwords"], case["end"]]
        if case["leeway"] is not None:
            a.append(case["leeway"])
        return "truncate", Markup(case["subject"]), a, {}
    if f == "wordwrap":
        return "wordwrap", Markup(case["subject"]), [case["width"], case["break_long_words"], case["wrapstring"]], {}
    raise AssertionError(f)


def _arg_src(i_or_name, val, literal, vars):
    if literal and isinstance(val, str) and val.isascii():
        return jlit(val)
    if isinstance(val, bool):
        return "true" if val else "false"
    if isinstance(val, int):
        return str(val)
    name = f"a_{i_or_name}"
    vars[name] = val
    return name


def check_msubj(ctx, E, case):
    import markupsafe

    f = case["filter"]
    name, subj, args, kwargs = _ms_call(case)
    outs = []
    try:
        r = E.on.call_filter(name, subj, args=list(args), kwargs=dict(kwargs))
        ctx.count("filter_calls." + name)
        outs.append(("call_filter", str(markupsafe.escape(r))))
        vars = {"m": subj}
        parts = [_arg_src(i, a, case["literal_args"], vars) for i, a in enumerate(args)]
        parts += [f"{k}={_arg_src(k, v, case['literal_args'], vars)}" for k, v in kwargs.items()]
        src = "{{ m|" + name + ("(" + ", ".join(parts) + ")" if parts else "") + " }}"
        env = E.async_on if case.get("async") else E.on
        outs.append(("template" + ("/async" if case.get("async") else ""), _render(ctx, E, env, src, **vars)))
    except Exception as e:
        ctx.count("msubj_exception." + name + "." + type(e).__name__)
        return
    arrived = False
    for route, out in outs:
        ctx.count("msubj_outputs_scanned")
        for key_role, n in case["nonces"]:
            role = key_role
            leaks = H.nonce_leaks(out, n)
            if leaks:
                ctx.violation(f"filter:{name}/arg:{key_role}",
                              f"{route}: plain-string argument {role} reached the result unescaped "
                              f"({sorted(set(leaks))}); subject is Markup; result {out[:300]!r}", case)
            if H.nonce_arrived_escaped(out, n):
                ctx.count("msubj_arg_arrived_escaped")
                arrived = True
            elif leaks:
                arrived = True
    if arrived:
        ctx.dist(("msubj", {k: v for k, v in case.items() if k != "nonces"}))


# ------------------------------------------------------------------- run
FIXED = [
    {"kind": "msubj", "filter": "indent", "literal_args": True, "subject": "a\nb", "width": "11111<11111>11111",
     "first": False, "blank": False, "kw": False, "nonces": [["width", "11111"]]},
    {"kind": "xmlattr", "items": [["a/onclick=alert(1)", ["s", "v"]]], "autospace": True},
    {"kind": "xmlattr", "items": [["a b", ["s", "v"]], ["c", ["s", "\"<'>&"]]], "autospace": True},
    {"kind": "xmlattr", "items": [["a>b", ["none"]], ["c", ["s", "x\" y=\"z"]]], "autospace": False},
    {"kind": "tojson", "value_json": json.dumps({"</script>": ["'", "<!--", "&amp;", " "]}), "indent": 2},
    {"kind": "urlize", "text": "see <http://example.com/a\"b'c?x=<y>&z> or (www.foo.org/(p)). mail a'b@foo.org, x\x85https://a.co/\x1cq",
     "args": {"rel": "a\"b <c>", "target": "t'\">", "nofollow": True, "trim_url_limit": 9}, "policy_env": False},
    {"kind": "urlize", "text": "tel:+1\"2 javascript:alert('1') ftp://x/<y>", "args": {"extra_schemes": ["tel:", "javascript:", "ftp://"]}, "policy_env": False},
]


def run(ctx):
    E = Envs()
    if ctx.shard == 0:
        for c in FIXED:
            check_case(ctx, E, c)
            ctx.sample(c)
    rng = ctx.rng("cases")
    n_max = N_CASES[ctx.tier]
    i = 0
    while ctx.more(i, n_max, 200):
        kind = KINDS[i % len(KINDS)]
        case = gen_case(rng, kind)
        if kind == "msubj":
            # make the family order deterministic so every filter is visited early
            case = gen_msubj(rng, MS_FILTERS[(i // len(KINDS)) % len(MS_FILTERS)]) if i % 2 else case
        try:
            check_case(ctx, E, case)
        except Exception as e:  # harness or unexpected library exception: never a silent pass
            ctx.count("unexpected_exception." + kind + "." + type(e).__name__)
            ctx.extra["unexpected_exceptions"] = ctx.extra.get("unexpected_exceptions", 0) + 1
            if ctx.extra["unexpected_exceptions"] > 25:
                ctx.inconc(f"too many unexpected exceptions, last: {kind} {type(e).__name__}: {e}")
                break
        if i < 3 and ctx.shard == 1:
            ctx.sample(case)
        i += 1


def replay(ctx, case):
    check_case(ctx, Envs(), case)
