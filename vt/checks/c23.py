"""C23 - string and number filters against executable contracts written from
their docstrings; every case is driven through Environment.call_filter and
through a rendered template (object-recording and plain-text forms, arguments
as variables or inline literals) in a sync and in an async environment.  The
text subjects are also handed over as other types - a str subclass, Markup, an
object with only __str__, a lazy-string proxy, objects implementing __html__
(with an unrelated or no __str__) - and held to the contract wherever the
documentation says which text form the filter works on."""
from __future__ import annotations

import math

from vt.gen import fcase_c2223 as F
from vt.model import c23_spec as SP

PID = "C23"
LEVEL = "exploration"
TECHNIQUE = ("contract monitor over the results of the real filters: per-filter executable "
             "specification + sync/async/template agreement; subject-type dimension (str "
             "subclass, Markup, __str__-only, lazy string, __html__ objects) over the same contracts")
RULE = ("cases = (filter, subject value, positional/keyword arguments, environment policy); an "
        "enumerated grid (int/float: every value of a pool of ~110 numbers, numeric-string "
        "spellings, None, booleans and containers x default x base; truncate: every length 3-18 "
        "x killwords x leeway on the docstring text; round: value x precision x method; "
        "filesizeformat: every unit boundary +-1 x binary) plus seeded random cases for all 18 "
        "filters: texts assembled from ASCII/Unicode/very long/hyphenated words and separators "
        "(title/capitalize/upper/lower additionally from words with special case mappings: "
        "titlecase digraphs, sharp s, ligatures, multi-character uppercase forms, final sigma, "
        "dotted I, combining marks, cased non-letters) "
        "(runs of spaces, tabs, every str.splitlines() line-break form, no-break spaces, "
        "punctuation, markup), whitespace-only and empty texts, lengths chosen around the "
        "truncate/center/wordwrap boundaries; each case runs through call_filter and a template "
        "in a sync and an async environment. SUBJECT TYPES: an enumerated grid (every filter x "
        "subject kind, twice, from fixed seeds) and one random case per two cases of the main "
        "workload take a generated case with a text subject and pass the text as a str subclass, "
        "as markupsafe.Markup, as an object with only __str__, as a lazy-string proxy (not a str; "
        "forwards every str operation), as an object with __html__() = the text and an unrelated "
        "__str__, or as an object with only __html__; always as a template variable, never as a "
        "literal. The contract on the text applies for a str subclass (all filters), Markup (all "
        "but format, when no string argument contains & < > ' \" - escaping of operands is C24), "
        "__str__-only and lazy subjects (the filters documented on 'a value': upper, lower, "
        "capitalize, title, center, replace - its text is str(value)), and for striptags on "
        "__html__ objects, whose markup form value.__html__() is "
        "what gets stripped; int/float must return an int/float or the default for any such "
        "object; every other combination is only checked for agreement of the four drives. "
        "distinct = distinct (filter, subject kind, value, args, kwargs) tuples with a non-empty "
        "subject")
LEVEL_TEXT = ("held on K generated executions of the real filters covering the enumerated "
              "number/length grids completely and a seeded random sample of texts and arguments")
ASSUMPTIONS = [
    "autoescape is off; what Markup subjects do to plain-string ARGUMENTS belongs to C24 (a Markup "
    "subject with arguments free of HTML metacharacters must give the same text as the str)",
    "striptags is defined on markup: for a value that implements the __html__ protocol "
    "(documented signature str | HasHTML) the tags are stripped from value.__html__(), not from "
    "str(value); for the other filters of this property the documentation does not say which "
    "form of such a value is used when autoescape is off, so only agreement is checked there",
    "a lazy string may be handed back unchanged by a filter that returns its input; the text of "
    "the result is what is compared",
    "title/capitalize: what a word is beyond whitespace separation is not documented, so a cased "
    "character that follows neither whitespace nor a letter may come out in either case; where "
    "a case mapping is not one-to-one (sharp s, ligatures, final sigma) every reading of "
    "'uppercase first, lowercase rest' is accepted, but a titlecase digraph (U+01C5) is not an "
    "uppercase letter",
    "arguments respect the documented preconditions (truncate length >= len(end), leeway >= 0, "
    "wordwrap width >= 1, valid printf formats, non-empty replace substring, finite "
    "non-negative sizes, int base in {2, 8, 10, 16})",
]
NSHARDS = {"quick": 16, "thorough": 16}
BUDGET_S = {"quick": 12, "thorough": 600}
# the time box always lets 300 random cases per shard through, so the quick
# floors sit just under what grid + 16 x 300 cases produce
FLOORS = {
    "quick": {"evaluations": 25000, "distinct": 5000,
              "counters": {"calls:call": 6000, "calls:tmpl": 6000, "calls:acall": 6000,
                           "calls:atmpl": 6000, "oracle_evaluations": 6000,
                           "text_form_checks": 3000, "grid_cases": 1800,
                           "int_float_unconvertible_inputs": 500, "truncate:truncated": 60,
                           "truncate:kept_within_leeway": 15, "wordwrap:multi_line": 60,
                           "wordwrap:long_word_broken": 30, "indent:multi_line": 50,
                           "string_filter_changed_text": 500,
                           "case_filter_on_special_case_mappings": 400,
                           "case_word_start_titlecase_differs_from_uppercase": 100,
                           "filters_exercised_min_cases": 150,
                           # subject types: 200 grid cases + >= 150 random ones per shard
                           "typed_cases": 1800, "typed_grid_cases": 180,
                           "typed_contract_evaluations": 1100,
                           "typed_agreement_only_cases": 500,
                           "typed_html_protocol_contract_cases": 60,
                           "typed_striptags_of_html_object_with_tags": 20,
                           **{"typed_kind:" + k: 200 for k in SP.SUBJECT_KINDS},
                           **{"typed:" + f: 40 for f in SP.TYPED_ROTATION}}},
    "thorough": {"evaluations": 600000, "distinct": 120000,
                 "counters": {"calls:call": 150000, "calls:tmpl": 150000, "calls:acall": 150000,
                              "calls:atmpl": 150000, "oracle_evaluations": 150000,
                              "text_form_checks": 100000, "grid_cases": 1800,
                              "int_float_unconvertible_inputs": 10000,
                              "truncate:truncated": 4500, "truncate:kept_within_leeway": 1200,
                              "wordwrap:multi_line": 7000, "wordwrap:long_word_broken": 3500,
                              "indent:multi_line": 6000, "string_filter_changed_text": 50000,
                              "case_filter_on_special_case_mappings": 15000,
                              "case_word_start_titlecase_differs_from_uppercase": 4000,
                              "filters_exercised_min_cases": 8000,
                              "typed_cases": 50000, "typed_grid_cases": 180,
                              "typed_contract_evaluations": 30000,
                              "typed_agreement_only_cases": 12000,
                              "typed_html_protocol_contract_cases": 1500,
                              "typed_striptags_of_html_object_with_tags": 500,
                              **{"typed_kind:" + k: 5000 for k in SP.SUBJECT_KINDS},
                              **{"typed:" + f: 1000 for f in SP.TYPED_ROTATION}}},
}
N_RANDOM = {"quick": 2500, "thorough": 80000}
FILTERS = SP.ALL_FILTERS

# --------------------------------------------------------------- pools
WORDS = ["foo", "Bar", "BAZ", "hello", "World", "a", "I", "x", "lorem", "ipsum", "dolor", "sit",
         "well-known", "re-entry", "mother-in-law", "co-op", "naïve", "ÉCOLE", "mañana", "日本語",
         "Ελλάδα", "straße", "İstanbul", "ǅ", "ß", "😀", "ét́", "don't", "3rd",
         "foo_bar", "UPPER", "MiXeD", "a1b2", "42", "x" * 30, "y" * 95,
         "Pneumonoultramicroscopicsilicovolcanoconiosis", "end.", "(paren)", "semi;colon"]
SEPS = [" "] * 10 + ["  ", "   ", "\t", "\n", "\n", "\n\n", "\r\n", "\r", "\x0b", "\x0c", "\x1c",
                     "\x1d", "\x1e", "\x85", "\u2028", "\u2029", "\u00a0", "\u3000", "-", " - ",
                     "\u2014", ", ", ". ", "(", ")", "[", "{", "/", "_", " \n ", "\n  "]
PLAIN_SEPS = [" "] * 8 + ["  ", "\n", "\t", ", ", ". ", "-", " - ", "(", "[", "\r\n"]
MARKUP = ["<b>", "</b>", "<i class=\"x\">", "<br/>", "<br />", "<a href='u v'>", "</a>",
          "<!-- c -->", "<!--x-->", "<p\nid=1>", "<>", "</ p>", "<em\t>", "<!---->"]
STRAY = ["<", ">", " < ", " > ", "a<b", "1 > 0", "<!--", "-->"]
# words whose case mappings are NOT one-to-one / context free: digraphs with a
# separate titlecase form (U+01C4..U+01CC, U+01F1..U+01F3), sharp s, ligatures,
# letters whose uppercase has several characters (U+0149, U+01F0, U+0390, iota
# subscript), capital/final/medial sigma, Turkish dotted/dotless i, combining
# marks after the first letter, cased non-letters (roman numeral, circled letter)
SPECIAL_WORDS = ["ǆemal", "ǈubić", "Ǌ", "ǅ", "ǳ", "Ǳa", "ǄǄ", "ßtraße", "ß", "maß", "ﬁsh",
                 "ﬂour", "ŉ", "ǰx", "ΐ", "ᾳδης", "ΟΔΟΣ", "ΑΣ", "ας", "σ", "Σ", "ΣΑΣ", "όσος",
                 "İstanbul", "İİ", "ıi", "I", "e\u0301\u0301x", "E\u0301X", "a\u0308ǆ",
                 "Ⅷx", "ⓐⓑ", "ǅǅ", "ﬃ", "ẞ", "K", "Å"]
CASE_WORDS = WORDS + SPECIAL_WORDS + SPECIAL_WORDS
SIMPLE_WORDS = [w for w in WORDS if SP.simple_case(w)]

NUMBERS = [0, 1, -1, 2, 7, 42, -7, 255, 1000, 10 ** 6, 2 ** 53 + 1, 2 ** 63, -2 ** 63, 10 ** 30,
           10 ** 400, -10 ** 400, 0.0, -0.0, 0.5, -0.5, 1.5, 2.5, -2.5, 42.23, 42.55, -42.9, 1e3,
           1e22, 1e300, -1e300, 5e-324, 0.1, float("inf"), float("-inf"), float("nan"),
           True, False]
NUMSTR = ["1", " 1 ", "-1", "+1", "007", "42", "42.23", "-42.9", "+3.5", "1e3", "1E3", "1e400",
          "-1e400", "1e-400", "0x1f", "0X1F", "-0x1f", "0b101", "0B11", "0o17", "0O7", "1f", "ff",
          "FF", "101", "777", "1_000", "1__0", "_1", "1_", "1a", "inf", "-inf", "+inf", "Infinity",
          "-Infinity", "nan", "NaN", "-nan", "infinity", "١٢٣", "１２", "٣.٥", "1.", ".5", "-.5",
          "1.e2", "1.5e+3", "9" * 30, "9" * 5000, "1" * 400 + ".5", "0x", "0b", "1e", "e3", "1e+",
          "True", "None", "\n7\t", "\xa07\xa0", "7\u2003", "7\x00", "0.0", "-0", "-0.0",
          "00", "1 ", " 1", "12.50", "0x1.8p1", "1,000", "1 000", "²", "½", "1d", "1j"]
OTHERS = [None, [], [1], [1, 2], {}, {"a": 1}, (), (1,), (1, 2), set(), {1}, F.Obj(a=1),
          [[]], ["1"], {"1": 1}]
INT_FLOAT_VALUES = NUMBERS + NUMSTR + list(SP.NON_NUMERIC) + OTHERS


def argstyle(rng, names, values, keep=0):
    """Positional prefix + keywords; trailing parameters at their documented
    default may be omitted (the first ``keep`` are always passed)."""
    cut = rng.randint(0, len(names))
    args = list(values[:cut])
    kwargs = {k: v for k, v in zip(names[cut:], values[cut:])}
    return args, kwargs


def strip_defaults(rng, name, args, kwargs, p=0.6):
    sig = dict(SP.SIG[name])
    for k in list(kwargs):
        d = sig.get(k, SP.REQ)
        if d is not SP.REQ and type(d) is type(kwargs[k]) and d == kwargs[k] and rng.random() < p:
            del kwargs[k]
    names = [k for k, _ in SP.SIG[name]]
    while args and not kwargs:
        d = sig[names[len(args) - 1]]
        if d is not SP.REQ and type(d) is type(args[-1]) and d == args[-1] and rng.random() < p:
            args.pop()
        else:
            break
    return args, kwargs


def text(rng, words=WORDS, seps=SEPS, nmax=14):
    r = rng.random()
    if r < 0.04:
        return ""
    if r < 0.09:
        return "".join(rng.choice([" ", " ", "\n", "\t", "\r\n", "\u00a0", "\x0c"])
                       for _ in range(rng.randint(1, 6)))
    if r < 0.12:
        return rng.choice("xyé日") * rng.choice([1, 5, 79, 80, 81, 200, 260])
    n = rng.randint(1, nmax)
    if r < 0.2:
        n = rng.randint(30, 90)
    parts = []
    if rng.random() < 0.15:
        parts.append(rng.choice(seps))
    for i in range(n):
        parts.append(rng.choice(words))
        if i < n - 1 or rng.random() < 0.25:
            parts.append(rng.choice(seps))
    return "".join(parts)


# --------------------------------------------------------------- generators
def gen_case(rng, name):
    args, kwargs = [], {}
    leeway_policy = 5
    newline = "\n"
    if name == "truncate":
        s = text(rng, seps=PLAIN_SEPS if rng.random() < 0.7 else SEPS)
        end = rng.choice(["...", "...", "...", "", "…", " [more]", "->"])
        leeway = rng.choice([None, None, 0, 0, 1, 2, 5, 10])
        leeway_policy = rng.choice([5, 5, 0, 2])
        r = rng.random()
        if r < 0.55 and len(s) >= len(end):
            length = max(len(end), len(s) + rng.randint(-12, 3))
        elif r < 0.7:
            length = 255
            s = (s + " ") * (255 // (len(s) + 1) + 1)
            s = s[:255 + rng.randint(-8, 12)]
        else:
            length = rng.choice([len(end), len(end) + 1, 5, 9, 11, 20, 40, 80])
            length = max(length, len(end))
        args, kwargs = argstyle(rng, ["length", "killwords", "end", "leeway"],
                                [length, rng.random() < 0.5, end, leeway])
        args, kwargs = strip_defaults(rng, name, args, kwargs)
        value = s
    elif name == "wordwrap":
        s = text(rng, nmax=25)
        ws = rng.choice([None, None, None, "\n", "\r\n", "<br>\n", "¶", "|\n", "\n\n"])
        if ws is not None and any((not c.isspace()) and c in s for c in ws):
            ws = None
        if ws == "\n\n" and "\n" in s:
            ws = None
        newline = rng.choice(["\n", "\n", "\r\n"])
        width = rng.choice([1, 2, 3, 5, 8, 10, 13, 20, 40, 79, 79, 80])
        args, kwargs = argstyle(rng, ["width", "break_long_words", "wrapstring",
                                      "break_on_hyphens"],
                                [width, rng.random() < 0.7, ws, rng.random() < 0.6])
        args, kwargs = strip_defaults(rng, name, args, kwargs)
        value = s
    elif name == "indent":
        s = text(rng, nmax=10)
        width = rng.choice([4, 4, 0, 1, 2, 8, ">", "\t", "  | ", "", "··"])
        args, kwargs = argstyle(rng, ["width", "first", "blank"],
                                [width, rng.random() < 0.5, rng.random() < 0.5])
        args, kwargs = strip_defaults(rng, name, args, kwargs)
        value = s
    elif name == "center":
        s = text(rng, nmax=3, seps=[" ", "-", "  "])
        if len(s) > 60:
            s = s[:rng.randint(0, 60)]
        width = rng.choice([0, 1, max(0, len(s) - 1), len(s), len(s) + 1, len(s) + 2, len(s) + 3,
                            10, 11, 80, 80])
        args, kwargs = argstyle(rng, ["width"], [width])
        args, kwargs = strip_defaults(rng, name, args, kwargs)
        value = s if rng.random() < 0.95 else rng.choice([12, 1.5, None])
    elif name == "trim":
        core = text(rng, nmax=3)
        pad = [" ", "\n", "\t", "x", "y", "-", "_", "\u00a0", "\u3000", "a", ""]
        s = "".join(rng.choice(pad) for _ in range(rng.randint(0, 3))) + core + \
            "".join(rng.choice(pad) for _ in range(rng.randint(0, 3)))
        chars = rng.choice([None, None, None, " ", "xy", "\n", "-_", "a", " \t\n", "yx-"])
        args, kwargs = argstyle(rng, ["chars"], [chars])
        args, kwargs = strip_defaults(rng, name, args, kwargs)
        value = s
    elif name in ("title", "capitalize"):
        value = text(rng, words=SIMPLE_WORDS if rng.random() < 0.3 else CASE_WORDS, nmax=8)
    elif name in ("upper", "lower"):
        value = text(rng, words=CASE_WORDS, nmax=6) if rng.random() < 0.92 \
            else rng.choice([12, 1.5, None, True])
    elif name == "wordcount":
        value = text(rng, nmax=12)
    elif name == "replace":
        s = text(rng, nmax=8)
        r = rng.random()
        if s and r < 0.5:
            i = rng.randrange(len(s))
            old = s[i:i + rng.randint(1, 3)]
        elif r < 0.8:
            old = rng.choice(WORDS[:12] + [" ", "a", "o", "l", "-", "\n"])
        else:
            old = rng.choice(["zz", "oo", "aa", "  "])
        new = rng.choice(["", "X", "--", " ", "d'oh, ", old + old, "é"])
        count = rng.choice([None, None, None, 0, 1, 2, 5])
        args, kwargs = argstyle(rng, ["old", "new", "count"], [old, new, count])
        args, kwargs = strip_defaults(rng, name, args, kwargs)
        value = s
    elif name == "format":
        value, args, kwargs = rng.choice([
            ("%s, %s!", ["Hello", "World"], {}),
            ("%s, %s!", [rng.choice(WORDS), rng.randint(-5, 5)], {}),
            ("%d items", [rng.randint(-3, 1000)], {}),
            ("%5.2f|%-6s|%03d", [rng.choice([3.14159, -2.5, 0.0, 1e6]), "ab", rng.randint(0, 99)],
             {}),
            ("%r", [rng.choice(WORDS)], {}),
            ("100%%", [], {}),
            ("no format", [], {}),
            ("%(a)s-%(b)d", [], {"a": rng.choice(WORDS), "b": rng.randint(0, 9)}),
            ("%(a)s %(a)s", [], {"a": rng.choice([None, 1.5, "x"])}),
            ("%x %o %e", [255, 8, 12345.678], {}),
            ("%s", [[1, 2]], {}),
            ("%s|%s", [None, True], {}),
            ("%c%c", [65, "é"], {}),
            ("%10s|%-10s|", [rng.choice(WORDS), rng.choice(WORDS)], {}),
            ("é%sß", [rng.choice(WORDS)], {}),
            ("%+d %05d % d", [rng.randint(-9, 9), rng.randint(-9, 9), rng.randint(-9, 9)], {}),
            ("%.3s", [rng.choice(WORDS)], {}),
            ("%*d", [rng.randint(1, 6), rng.randint(0, 99)], {}),
        ])
    elif name == "striptags":
        r = rng.random()
        n = rng.randint(0, 10)
        parts = []
        for _ in range(n):
            parts.append(rng.choice(WORDS))
            parts.append(rng.choice(PLAIN_SEPS + ["\n\n", "   ", "\t\t", "\xa0", ""]))
            if rng.random() < 0.5:
                parts.append(rng.choice(MARKUP))
            if r < 0.2 and rng.random() < 0.3:
                parts.append(rng.choice(STRAY))
        value = "".join(parts)
    elif name == "urlencode":
        r = rng.random()
        pool = WORDS + ["a b", "a/b", "a?b=c&d", "100%", "a+b", "~user", "é/ü", "x=y", "#frag",
                        "", "a\nb", "q'\"", "\x00", ":@", "a;b", "[1]", "*", "!$&'()*+,;="]
        if r < 0.6:
            value = rng.choice(pool) if rng.random() < 0.5 else text(rng, nmax=4)
        elif r < 0.8:
            value = {}
            for _ in range(rng.randint(0, 4)):
                value[rng.choice(pool)] = rng.choice(pool + [1, 2.5, None, True, 10 ** 20])
        else:
            value = [(rng.choice(pool), rng.choice(pool + [1, 2.5, None]))
                     for _ in range(rng.randint(0, 4))]
            if rng.random() < 0.5:
                value = [list(x) for x in value]
    elif name == "filesizeformat":
        binary = rng.random() < 0.5
        base = 1024 if binary else 1000
        r = rng.random()
        if r < 0.5:
            k = rng.randint(0, 9)
            value = base ** k + rng.choice([-1, 0, 1, base ** k // 2, -base ** k // 1000 // 2 - 1])
            value = max(0, value)
        elif r < 0.8:
            value = rng.choice([1, 10, 999, 10 ** 5]) ** rng.randint(0, 4) * rng.random()
            value = float(f"{value:.3f}")
        else:
            value = int(10 ** rng.uniform(0, 27))
        if rng.random() < 0.15:
            value = str(value)
        args, kwargs = argstyle(rng, ["binary"], [binary])
        args, kwargs = strip_defaults(rng, name, args, kwargs)
    elif name == "round":
        r = rng.random()
        if r < 0.3:
            value = rng.choice([42.55, 2.7, 2.1, 2.1234, 21.3, 0.5, 1.5, 2.5, -0.5, -1.5, -2.5, 2.675,
                                1.005, 0.0, -0.0, 1e-7, 123456.789, -987.654, 99.95, 0.125, 0.375])
        elif r < 0.6:
            value = float(f"{rng.uniform(-2000, 2000):.{rng.randint(0, 6)}f}")
        else:
            value = rng.choice([0, 1, -1, 5, 15, 25, 42, 149, 150, 151, -150, 1234, 99999,
                                rng.randint(-10 ** 6, 10 ** 6)])
        args, kwargs = argstyle(rng, ["precision", "method"],
                                [rng.choice([0, 0, 1, 2, 3, 6, -1, -2]),
                                 rng.choice(["common", "common", "ceil", "floor"])])
        args, kwargs = strip_defaults(rng, name, args, kwargs)
    elif name in ("int", "float"):
        r = rng.random()
        if r < 0.55:
            value = rng.choice(INT_FLOAT_VALUES)
        elif r < 0.7:
            value = rng.choice([rng.randint(-10 ** 9, 10 ** 9), rng.uniform(-1e6, 1e6),
                                rng.randint(-10, 10) * 10 ** rng.randint(300, 420),
                                rng.uniform(-1, 1) * 10.0 ** rng.randint(-320, 308)])
        elif r < 0.9:
            # numeric string spellings assembled from parts
            body = rng.choice(["", "0", "7", "12", "007", "1_0", "ff", "1f", "101"])
            frac = rng.choice(["", "", ".", ".0", ".5", ".25"])
            exp = rng.choice(["", "", "", "e2", "E-2", "e400", "e+"])
            value = (rng.choice(["", "", " ", "\n", "\u00a0"]) + rng.choice(["", "", "-", "+", "--"])
                     + rng.choice(["", "", "", "0x", "0b", "0o", "0X"]) + body + frac + exp
                     + rng.choice(["", "", " ", "\t", "L", "\u3000"]))
        else:
            value = rng.choice(OTHERS)
        default = rng.choice([0, 0, 0, 7, -1, None, "n/a", 1.5, [], False]) if name == "int" \
            else rng.choice([0.0, 0.0, 0.0, 7.5, -1.0, None, "n/a", 3, float("nan"), []])
        if name == "int":
            base = rng.choice([10, 10, 10, 16, 2, 8])
            args, kwargs = argstyle(rng, ["default", "base"], [default, base])
        else:
            args, kwargs = argstyle(rng, ["default"], [default])
        args, kwargs = strip_defaults(rng, name, args, kwargs)
    else:
        raise AssertionError(name)
    return mk(name, value, args, kwargs, form=rng.choice(["rec", "rec", "text"]),
              inline=rng.random() < 0.3, leeway=leeway_policy, newline=newline,
              via_render=rng.random() < 0.03)


# --------------------------------------------------------------- subject types
def wrap(kind, text, alt=None):
    """The generated text held in another kind of subject (c23_spec.SUBJECT_KINDS)."""
    if kind == "strsub":
        return F.StrSub(text)
    if kind == "markup":
        from markupsafe import Markup

        return Markup(text)
    if kind == "stronly":
        return F.StrOnly(text)
    if kind == "lazy":
        return F.LazyStr(text)
    if kind == "html":
        return F.HasHtml(text, alt)
    if kind == "htmlonly":
        return F.HtmlOnly(text)
    raise AssertionError(kind)


def gen_typed_case(rng, name, kind=None, min_len=0):
    """A generated case of ``name`` with a str subject, the subject wrapped
    into another type; None if the generator gave no (long enough) str subject."""
    for _ in range(8):
        case = gen_case(rng, name)
        v = case["value"]
        if not isinstance(v, str) or len(v) < min_len:
            continue
        k = kind or rng.choice(SP.SUBJECT_KINDS + (["html", "htmlonly"] if name == "striptags"
                                                   else []))
        case["subject"] = k
        if k == "html":
            # str() of the object: a plain text that is not its markup
            alt = rng.choice(["", "Widget ", "<Field 1> ", "repr of "]) + \
                text(rng, words=WORDS[:12] + ["<x>", "<1>"], seps=PLAIN_SEPS, nmax=3)
            case["alt"] = alt if alt != v else alt + " (str)"
        case["form"] = rng.choice(["rec", "rec", "text"])
        return case
    return None


def typed_grid_cases():
    """Every (filter, subject kind) twice, from fixed seeds (the same list in
    every shard and for every VERIF_SEED)."""
    import random

    out = []
    for name in FILTERS:
        for kind in SP.SUBJECT_KINDS:
            rng = random.Random(f"c23-typed-grid:{name}:{kind}")
            for rep in range(2):
                case = gen_typed_case(rng, name, kind, min_len=1 + 4 * rep)
                if case is not None:
                    case["via_render"] = False
                    out.append(case)
    return out


def mk(name, value, args, kwargs, form="rec", inline=False, leeway=5, newline="\n",
       via_render=False):
    return {"filter": name, "value": F.enc(value), "args": F.enc(list(args)),
            "kwargs": F.enc(dict(kwargs)), "form": form, "inline": inline, "leeway": leeway,
            "newline": newline, "via_render": via_render}


def grid_cases():
    out = []
    i = 0
    for v in INT_FLOAT_VALUES:
        for default in (SP.REQ, 7):
            for base in (10, 16, 2, 8):
                i += 1
                args = [] if default is SP.REQ else [default]
                kw = {} if base == 10 else {"base": base}
                if base != 10 and default is SP.REQ and i % 2:
                    args, kw = [0, base], {}
                out.append(mk("int", v, args, kw, form=("rec", "text")[i % 2], inline=i % 3 == 0))
            i += 1
            out.append(mk("float", v, [] if default is SP.REQ else [7.5], {},
                          form=("rec", "text")[i % 2], inline=i % 3 == 0))
    s = "foo bar baz qux"
    for length in range(3, 19):
        for kill in (False, True):
            for leeway in (0, 1, 5, None):
                i += 1
                if leeway is None:
                    out.append(mk("truncate", s, [length, kill], {}, inline=i % 2 == 0))
                else:
                    out.append(mk("truncate", s, [length, kill, "...", leeway], {},
                                  inline=i % 2 == 0, form=("rec", "text")[i % 2]))
    vals = [42.55, 2.7, 2.1, 2.1234, 21.3, 0.5, 1.5, 2.5, -0.5, -2.5, 2.675, 1.005, 0.0, 99.95,
            -987.654, 0, 1, 5, 15, 25, 42, 150, -150, 1234]
    for v in vals:
        for prec in (0, 1, 2, -1, 3):
            for method in ("common", "ceil", "floor"):
                i += 1
                a = [prec, method]
                if prec == 0 and method == "common" and i % 2:
                    a = []
                out.append(mk("round", v, a, {}, inline=i % 2 == 0, form=("rec", "text")[i % 2]))
    for binary in (False, True):
        base = 1024 if binary else 1000
        for k in range(0, 10):
            for d in (-1, 0, 1):
                i += 1
                v = max(0, base ** k + d)
                out.append(mk("filesizeformat", v, [binary] if i % 2 else [],
                              {} if i % 2 else {"binary": binary}, inline=k < 4))
                out.append(mk("filesizeformat", float(v) * 1.5, [binary], {}))
        for v in (0, 1, 1.0, "1", 2, 999, 999.9, 999949, 999950, 999999, 10 ** 24, 10 ** 27,
                  10 ** 30, "1000000", 1023, 1048575, 13000, 4100000, 102):
            out.append(mk("filesizeformat", v, [binary], {}))
    return out


# --------------------------------------------------------------- execution
PATHS = ("call", "tmpl", "acall", "atmpl")


class Rigs:
    def __init__(self):
        self.rigs = {}

    def get(self, leeway, newline):
        k = (leeway, newline)
        if k not in self.rigs:
            self.rigs[k] = F.Rig(policies={"truncate.leeway": leeway}, newline_sequence=newline)
        return self.rigs[k]

    def close(self):
        for r in self.rigs.values():
            r.close()


def template_src(case, value, args, kwargs, variables, inline_subject=True):
    subject = "v"
    if case["inline"] and inline_subject:
        lit = F.literal(value)
        if lit is not None and not isinstance(value, list):
            subject = "(" + lit + ")"
    if subject == "v":
        variables["v"] = value
    expr = F.filter_expr(case["filter"], args, kwargs, variables, subject=subject,
                         inline=case["inline"])
    if case["form"] == "text":
        return "{{ " + expr + " }}"
    return "{{ rec(" + expr + ") }}"


def drive(rig, case, path, inline_subject=True):
    is_async = path[0] == "a"
    value = F.dec(case["value"])
    args = F.dec(case["args"])
    kwargs = F.dec(case["kwargs"])
    name = case["filter"]
    if case.get("subject"):
        # never written as a literal: the template gets the object as a variable
        value = wrap(case["subject"], value, case.get("alt"))
        inline_subject = False
    if path.endswith("call"):
        out = (rig.acall if is_async else rig.call)(name, value, args, kwargs)
    else:
        variables = {}
        src = template_src(case, value, args, kwargs, variables, inline_subject)
        out = rig.render(is_async, src, variables, via_render=case.get("via_render", False))
        if out.ok and case["form"] == "text":
            out = F.Outcome(True, out.text, text=out.text)
    return out, value, args, kwargs


def coverage_tags(name, value, args, kwargs, out, info):
    """Which branch of the contract this execution exercised (evidence only)."""
    if not out.ok:
        return [f"{name}:raised"]
    r = out.value
    tags = []
    if name == "truncate":
        p = SP.bind(name, args, kwargs)
        if r != value:
            tags.append("truncate:truncated")
        elif len(value) > p["length"]:
            tags.append("truncate:kept_within_leeway")
        else:
            tags.append("truncate:short")
    elif name == "wordwrap":
        p = SP.bind(name, args, kwargs)
        ws = p["wrapstring"] if p["wrapstring"] is not None else info["newline"]
        lines = r.split(ws)
        if len(lines) > 1:
            tags.append("wordwrap:multi_line")
        if any(len(x) > p["width"] for x in lines):
            tags.append("wordwrap:overlong_unbroken_line")
        if p["break_long_words"] and any(len(w) > p["width"] for w in value.split()):
            tags.append("wordwrap:long_word_broken")
    elif name == "indent":
        if "\n" in r:
            tags.append("indent:multi_line")
    elif name in ("int", "float"):
        p = SP.bind(name, args, kwargs)
        tags.append(f"{name}:default_returned" if F.Sameness(()).same(r, p["default"])
                    else f"{name}:converted")
    elif isinstance(value, str) and isinstance(r, str) and r != value:
        tags.append("string_filter_changed_text")
    if name in ("title", "capitalize", "upper", "lower") and isinstance(value, str):
        if not SP.simple_case(value):
            tags.append("case_filter_on_special_case_mappings")
        if name in ("title", "capitalize"):
            starts = list(value[:1]) if name == "capitalize" else [w[0] for w in value.split()]
            if any(c.title() != c.upper() for c in starts):
                tags.append("case_word_start_titlecase_differs_from_uppercase")
    return tags


def printable_constant(v):
    if isinstance(v, float):
        return math.isfinite(v)
    if isinstance(v, int):
        try:
            str(v)
        except ValueError:
            return False
    return True


class _Collector:
    """Stands in for the harness context while a typed case runs: counters
    pass through, violations are held back until their key is settled."""

    def __init__(self, ctx):
        self.ctx = ctx
        self.viol = []

    def ev(self, n=1):
        if self.ctx is not None:
            self.ctx.ev(n)

    def count(self, name, n=1):
        if self.ctx is not None:
            self.ctx.count(name, n)

    def violation(self, key, what, case):
        self.viol.append((key, what, case))


def run_case(ctx, rigs, case, count=True):
    """Typed cases: a violation that the same text as a plain str shows as well
    is reported under the key without the subject kind (the mechanism does not
    depend on the type of the subject)."""
    if not case.get("subject"):
        return _run_case(ctx, rigs, case, count)
    col = _Collector(ctx)
    _run_case(col, rigs, case, count)
    if col.viol:
        twin = {k: v for k, v in case.items() if k not in ("subject", "alt")}
        tcol = _Collector(None)
        _run_case(tcol, rigs, twin, count=False)
        tkeys = {k for k, _, _ in tcol.viol}
        tag = "/subject:" + case["subject"]
        for key, what, c in col.viol:
            base = key.replace(tag, "")
            ctx.violation(base if base in tkeys else key, what, c)


def _run_case(ctx, rigs, case, count=True):
    name = case["filter"]
    rig = rigs.get(case.get("leeway", 5), case.get("newline", "\n"))
    info = {"leeway": case.get("leeway", 5), "newline": case.get("newline", "\n")}
    ref = (F.fp(F.dec(case["value"])), F.fp(F.dec(case["args"])), F.fp(F.dec(case["kwargs"])))
    S = F.Sameness(())
    sync = None
    desc = None
    kind = case.get("subject")
    fkey = f"{name}/subject:{kind}" if kind else name
    ref = ref + (repr(wrap(kind, F.dec(case["value"]), case.get("alt"))),) if kind else ref
    for path in PATHS:
        # A literal subject is folded at compile time; a folded non-finite float
        # is written into the generated code as the bare name ``inf``/``nan``.
        # That is the compiler's constant folding (property C08), not the
        # filter: such a subject is passed as a variable instead.
        # The same holds for an int beyond sys.get_int_max_str_digits().
        fold_ok = sync is None or not sync.ok or printable_constant(sync.value)
        out, value, args, kwargs = drive(rig, case, path, inline_subject=fold_ok)
        ctx.ev()
        if count:
            ctx.count("calls:" + path)
        if desc is None:
            desc = f"{value!r:.200}|{name} args={args!r:.120} kwargs={kwargs!r:.120}"
            if info["leeway"] != 5 or info["newline"] != "\n":
                desc += f" env={info}"
        is_async = path[0] == "a"
        if path == "call" and kind:
            sync = out
            mode = SP.typed_mode(name, kind, args, kwargs)
            if mode is None:
                verdict = None
            else:
                got = out
                if out.ok and isinstance(out.value, F.LazyStr):
                    # a filter may hand a lazy string back unchanged; its text counts
                    got = F.Outcome(True, str(out.value))
                verdict = SP.check(name, value if mode == "object" else F.dec(case["value"]),
                                   args, kwargs, got, info)
            if count:
                ctx.count("typed_contract_evaluations" if mode else "typed_agreement_only_cases")
                if mode and kind in ("html", "htmlonly"):
                    ctx.count("typed_html_protocol_contract_cases")
            if verdict:
                ctx.violation(f"filter:{fkey}/{verdict[0]}", f"[{path}] {desc}: {verdict[1]}",
                              case)
        elif path == "call":
            sync = out
            verdict = SP.check(name, value, args, kwargs, out, info)
            if count:
                ctx.count("oracle_evaluations")
                if name in ("int", "float") and (
                        not out.ok or S.same(out.value, SP.bind(name, args, kwargs)["default"])):
                    ctx.count("int_float_unconvertible_inputs")
                if not out.ok:
                    ctx.count("sync_call_raised")
                for tag in coverage_tags(name, value, args, kwargs, out, info):
                    ctx.count(tag)
            if verdict:
                ctx.violation(f"filter:{name}/{verdict[0]}", f"[{path}] {desc}: {verdict[1]}", case)
        else:
            text_form = path.endswith("tmpl") and case["form"] == "text"
            unprintable = False
            if text_form and sync.ok and isinstance(sync.value, int):
                try:
                    str(sync.value)
                except ValueError:  # int too large to print: not a filter matter
                    unprintable = True
            if unprintable:
                agree = (not out.ok) and out.exc_name() == "ValueError"
            elif sync.ok != out.ok:
                agree = False
            elif not out.ok:
                agree = sync.exc_name() == out.exc_name()
            elif text_form:
                agree = out.value == str(sync.value)
            else:
                agree = S.norm(out.value) == S.norm(sync.value)
            if count and text_form:
                ctx.count("text_form_checks")
            if not agree:
                where = "async" if is_async else "template"
                ctx.violation(f"{where}:{fkey}/differs-from-sync-call_filter",
                              f"[{path}] {desc}: {out.describe()} but sync call_filter: "
                              f"{sync.describe()}", case)
        now = (F.fp(F.dec(case["value"]) if kind else value), F.fp(args), F.fp(kwargs))
        if kind:
            now = now + (repr(value),)
        if now != ref:
            ctx.violation(f"mutates:{name}/arguments",
                          f"[{path}] {desc}: arguments changed to {value!r:.100} {args!r:.100} "
                          f"{kwargs!r:.100}", case)


def nontrivial(case):
    return case["value"] not in ("", None)


def run_typed(ctx, rigs, case, tally):
    run_case(ctx, rigs, case)
    ctx.count("typed_cases")
    tally["filter"][case["filter"]] += 1
    tally["kind"][case["subject"]] += 1
    if case["subject"] in ("html", "htmlonly") and case["filter"] == "striptags" \
            and "<" in case["value"]:
        ctx.count("typed_striptags_of_html_object_with_tags")
    if nontrivial(case):
        ctx.dist([case["filter"], case["subject"], case["value"], case["args"], case["kwargs"]])


def run(ctx):
    rigs = Rigs()
    per_filter = {f: 0 for f in FILTERS}
    tally = {"filter": {f: 0 for f in FILTERS}, "kind": {k: 0 for k in SP.SUBJECT_KINDS}}
    try:
        tgrid = typed_grid_cases()
        for i, case in enumerate(tgrid):
            if ctx.mine(i):
                run_typed(ctx, rigs, case, tally)
                ctx.count("typed_grid_cases")
        ctx.extra["typed_grid_size"] = len(tgrid) if ctx.shard == 0 else 0
        trng = ctx.rng("typed")
        grid = grid_cases()
        for i, case in enumerate(grid):
            if not ctx.mine(i):
                continue
            run_case(ctx, rigs, case)
            ctx.count("grid_cases")
            per_filter[case["filter"]] += 1
            if nontrivial(case):
                ctx.dist([case["filter"], case["value"], case["args"], case["kwargs"]])
        ctx.extra["grid_size"] = len(grid) if ctx.shard == 0 else 0
        rng = ctx.rng("cases")
        n_max = N_RANDOM[ctx.tier]
        i = 0
        while ctx.more(i, n_max, floor=300):
            name = FILTERS[(i + ctx.shard) % len(FILTERS)]
            case = gen_case(rng, name)
            run_case(ctx, rigs, case)
            ctx.count("random_cases")
            per_filter[name] += 1
            if nontrivial(case):
                ctx.dist([name, case["value"], case["args"], case["kwargs"], case["leeway"]])
            if i < 3 and ctx.shard in (0, 7):
                ctx.sample(case)
            # ---- the same generators with the subject held in another type
            if i % 2 == 1:
                tname = SP.TYPED_ROTATION[(i // 2 + ctx.shard) % len(SP.TYPED_ROTATION)]
                tcase = gen_typed_case(trng, tname)
                if tcase is not None:
                    run_typed(ctx, rigs, tcase, tally)
                    if i < 8 and ctx.shard == 3:
                        ctx.sample(tcase)
            i += 1
        for f, c in tally["filter"].items():
            ctx.count("typed:" + f, c)
        for k, c in tally["kind"].items():
            ctx.count("typed_kind:" + k, c)
        for f, c in per_filter.items():
            ctx.count("cases:" + f, c)
        ctx.count("filters_exercised_min_cases", min(per_filter.values()))
    finally:
        rigs.close()


def replay(ctx, case):
    rigs = Rigs()
    try:
        run_case(ctx, rigs, case, count=False)
    finally:
        rigs.close()
