"""C03 — statements and scoping vs the reference interpreter, plus alpha-renaming."""
from __future__ import annotations

import json
import unicodedata

from vt import util
from vt.gen import jast, stmtgen
from vt.gen import c03_condstore
from vt.model import interp as M

PID = "C03"
LEVEL = "exploration"
TECHNIQUE = ("reference-interpreter monitor + metamorphic alpha-renaming over random statement "
             "trees; divergences classified by delta repair")
RULE = ("random statement trees (<=25 statements, depth<=4) over a pool of 5 names with "
        "if/for(else,filter,recursive,break/continue)/set/block-set/with/macro/call/filter/"
        "namespace, plus directed groups 'nested scope (loop/filter block/block set/with/macro) "
        "reads a name the program has not touched yet, then an if (with/without elif/else) whose "
        "branches - some or all - assign it'; each rendered on 3 data sets and compared with vt.model.interp (chained "
        "scopes written from docs/templates.rst), then re-rendered after consistent renamings "
        "(ASCII, Unicode, keyword-like, NFKC-colliding). distinct = distinct statement-kind "
        "skeletons exhibiting at least one of shadowing / conditional assignment / "
        "read-outer-in-inner / closure capture / loop-else / namespace write")
LEVEL_TEXT = "held on the generated programs and data only (bounded size/depth, 5-name pool)"
ASSUMPTIONS = [
    "autoescape off; values are ints, block-set strings or undefined",
    "for-else bodies and with/filter/block-set/macro/call bodies are scopes of their own",
    "`with` values are evaluated in the enclosing scope (docs: With Statement)",
]
NSHARDS = {"quick": 16, "thorough": 16}
BUDGET_S = {"quick": 25, "thorough": 600}
FLOORS = {
    "quick": {"evaluations": 4000, "distinct": 600,
              "counters": {"model_compares": 3000, "rename_compares": 1500, "namespace_from_context_compares": 60,
                           "feat_shadowing": 50, "feat_conditional_assignment": 50,
                           "feat_read_outer_in_inner": 50, "feat_closure_capture": 50,
                           "feat_loop_else": 50, "feat_namespace_write": 30,
                           "feat_cond_store_after_nested_read": 140,
                           "feat_cond_store_after_nested_read_every_branch": 70,
                           "feat_cond_store_after_nested_read_ctx_only": 110}},
    "thorough": {"evaluations": 100000, "distinct": 15000,
                 "counters": {"model_compares": 80000, "rename_compares": 40000, "namespace_from_context_compares": 1500,
                              "feat_shadowing": 1000, "feat_conditional_assignment": 1000,
                              "feat_read_outer_in_inner": 1000, "feat_closure_capture": 1000,
                              "feat_loop_else": 1000, "feat_namespace_write": 500,
                              "feat_cond_store_after_nested_read": 3500,
                              "feat_cond_store_after_nested_read_every_branch": 1750,
                              "feat_cond_store_after_nested_read_ctx_only": 2750}},
}

RENAMINGS = {
    "ascii": {"a": "zq1", "b": "A_", "c": "x9x", "d": "_d", "e": "ee"},
    "unicode": {"a": "переменная", "b": "变量", "c": "ñu", "d": "δd", "e": "ée"},
    # ONE identifier that is not in NFKC normal form (U+00B5 MICRO SIGN normalises to U+03BC)
    "nonnfkc": {"a": "a", "b": "b", "c": "c", "d": "µd", "e": "e"},
    "keywordlike": {"a": "class", "b": "None_", "c": "loop_", "d": "caller_", "e": "lambda"},
    "keywordlike2": {"a": "def", "b": "while", "c": "self_", "d": "yield", "e": "async"},
    # b <-> a swapped: still a bijection
    "swap": {"a": "b", "b": "a", "c": "e", "d": "c", "e": "d"},
    # two DISTINCT identifiers that NFKC-normalise to the same string
    "nfkc": {"a": "ﬁ", "b": "fi", "c": "c", "d": "d", "e": "e"},
}

_env = None


def env():
    global _env
    if _env is None:
        import jinja2

        _env = jinja2.Environment(extensions=["jinja2.ext.loopcontrols"])
    return _env


def engine_render(body, data):
    src = jast.ps(body)
    return util.capture(lambda: env().from_string(src).render(**data)), src


def model_render(body, data):
    it = M.Interp({"t": body})
    return util.capture(lambda: it.render("t", data))


def agree(mo, eo):
    if mo.ok and eo.ok:
        return None if mo.value == eo.value else f"engine {eo.value!r} != model {mo.value!r}"
    if not mo.ok and not eo.ok:
        return None if util.same_error(mo.exc, eo.exc) else f"engine {eo!r} / model {mo!r}"
    return f"engine {eo!r} / model {mo!r}"


def same_outcome(a, b):
    if a.ok and b.ok:
        return None if a.value == b.value else f"{a.value!r} != {b.value!r}"
    if not a.ok and not b.ok:
        return None if type(a.exc) is type(b.exc) else f"{a!r} / {b!r}"
    return f"{a!r} / {b!r}"


def rename_data(data, mp):
    return {mp.get(k, k): v for k, v in data.items()}


# ---- delta repair used to attribute a divergence to the known late-store mechanism
def all_names(body):
    names = []

    def add(n):
        if n not in names and n not in ("loop", "caller", "varargs", "kwargs", "range",
                                         "namespace", "super", "self"):
            names.append(n)

    def fn(st):
        for e in jast.stmt_exprs(st):
            jast.walk_expr(e, lambda x: add(x[1]) if x[0] == "name" else None)
        if st[0] in ("set", "setblock", "macro"):
            add(st[1])

    jast.walk_stmts(body, fn)
    return names


def preload(names):
    """A no-op statement that reads every name at the level where it stands."""
    e = None
    for n in names:
        t = ["test", ["name", n], "defined", [], False]
        e = t if e is None else ["or", e, t]
    return ["if", [[e, []]], None]


def plain_stores(body):
    """Names assigned by a statement standing directly in `body` (not inside an if branch)."""
    out = []
    for s in body:
        if s[0] in ("set", "setblock", "macro") and s[1] not in out:
            out.append(s[1])
    return out


def repair_late_store(body, names, top=True, narrow=False):
    """Insert the no-op pre-load at the start of every scope-opening body.

    narrow=True pre-loads, per scope body, only the names that a statement standing directly
    in that body assigns unconditionally - the recorded late-store mechanism.  An assignment
    that only happens inside the branches of an `if` is not part of it: the engine keeps the
    previous value of such a name visible until a branch has run."""
    def PL(b):
        if not narrow:
            return [preload(names)]
        mine = [n for n in plain_stores(b) if n in names]
        return [preload(mine)] if mine else []

    out = PL(body) if top else []
    for s in body:
        k = s[0]
        R = lambda b, scope: None if b is None else ((PL(b) if scope else []) + repair_late_store(b, names, False, narrow))
        if k == "if":
            out.append(["if", [[c, R(b, False)] for c, b in s[1]], R(s[2], False)])
        elif k == "for":
            out.append(["for", s[1], s[2], R(s[3], True), R(s[4], True), s[5], s[6]])
        elif k == "setblock":
            out.append(["setblock", s[1], R(s[2], True)] + list(s[3:]))
        elif k == "with":
            out.append(["with", s[1], R(s[2], True)])
        elif k == "macro":
            out.append(["macro", s[1], s[2], R(s[3], True)])
        elif k == "callblock":
            out.append(["callblock", s[1], s[2], R(s[3], True)])
        elif k == "filterblock":
            out.append(["filterblock", s[1], s[2], R(s[3], True)])
        else:
            out.append(s)
    return out


def skeleton(body):
    out = []
    for s in body:
        k = s[0]
        bs = jast.stmt_bodies(s)
        if bs:
            out.append([k] + [skeleton(b) for b in bs])
        else:
            out.append(k)
    return out


def check_program(ctx, body, recipe, renamings=("ascii", "unicode", "keywordlike", "nfkc")):
    data = dict(recipe)
    case = {"body": body, "data": recipe}
    mo = model_render(body, data)
    if not mo.ok and isinstance(mo.exc, (RecursionError,)) or \
            (not mo.ok and isinstance(mo.exc, M.ModelError) and mo.exc.cls == "StepBudget"):
        ctx.count("model_budget_skips")
        return
    eo, src = engine_render(body, data)
    ctx.ev()
    ctx.count("model_compares")
    if not mo.ok:
        ctx.count("model_raises")
    bad = agree(mo, eo)
    if bad:
        names = all_names(body)
        eo1, src1 = engine_render(repair_late_store(body, names, narrow=True), data)
        ctx.count("delta_repairs_tried")
        if agree(mo, eo1) is None:
            ctx.count("delta_repair_plain_store_agrees")
            ctx.violation("late-store-hides-outer-value",
                          f"{bad}; agrees after pre-loading, at the start of each scope, the names "
                          f"that scope assigns unconditionally | src={src!r}", case)
            return
        rep = repair_late_store(body, names)
        eo2, src2 = engine_render(rep, data)
        if agree(mo, eo2) is None:
            # pre-loading helps, but not for a name with a plain assignment at its level: the
            # value is hidden ahead of an assignment that only happens inside if-branches
            ctx.violation("store-in-if-branches-hides-outer-value",
                          f"{bad}; agrees only after pre-loading ALL names at scope starts (not just "
                          f"the unconditionally assigned ones) | src={src!r}", case)
        else:
            ctx.violation("scoping:" + first_diff_kind(body, mo, eo), f"{bad} | src={src!r}", case)
        return
    # metamorphic: the namespace object may as well come from the render context
    if renamings and body and body[0][:2] == ["set", "ns"]:
        from jinja2.utils import Namespace

        eo3, src3 = engine_render(body[1:], dict(data, ns=Namespace(v=0, w=1)))
        ctx.ev()
        ctx.count("namespace_from_context_compares")
        bad = same_outcome(eo, eo3)
        if bad:
            ctx.violation("namespace-from-context", f"{bad} | with ns=namespace(v=0, w=1) passed to render(): "
                          f"src={src3!r} orig={src!r}", {**case, "ns_from_context": True})
    # metamorphic: consistent renaming never changes the output
    for rn in renamings:
        mp = RENAMINGS[rn]
        b2 = stmtgen.rename_body(body, mp)
        d2 = rename_data(data, mp)
        eo2, src2 = engine_render(b2, d2)
        ctx.ev()
        ctx.count("rename_compares")
        ctx.count("rename_" + rn)
        bad = same_outcome(eo, eo2)
        if bad:
            if rn == "nonnfkc" and not passes_keyword(b2, "\u00b5d"):
                # the recorded finding needs a CALL that passes the renamed name by keyword;
                # any other difference under this renaming is a different mechanism
                ctx.violation("rename:nonnfkc:no-keyword-call", f"{bad} | src={src2!r} orig={src!r}",
                              {**case, "renaming": rn})
            elif rn == "nonnfkc":
                ctx.violation("non-nfkc-identifier-changes-behaviour",
                              f"renaming d->U+00B5 d changed output: {bad} | src={src2!r}",
                              {**case, "renaming": rn})
            elif rn == "nfkc":
                ctx.violation("nfkc-equal-identifiers-alias",
                              f"renaming a->U+FB01, b->fi changed output: {bad} | src={src2!r}",
                              {**case, "renaming": rn})
            else:
                ctx.violation("rename:" + rn, f"{bad} | src={src2!r} orig={src!r}",
                              {**case, "renaming": rn})


def passes_keyword(body, name):
    """Does some call in the program pass `name` as a keyword argument?"""
    found = []

    def fe(e):
        if e[0] == "call" and any(k == name for k, _ in e[3]):
            found.append(1)
        if e[0] in ("filter",) and any(k == name for k, _ in e[4]):
            found.append(1)

    def fs(st):
        for e in jast.stmt_exprs(st):
            if e is not None:
                jast.walk_expr(e, fe)
        if st[0] == "callblock":
            jast.walk_expr(st[2], fe)
    jast.walk_stmts(body, fs)
    return bool(found)


def first_diff_kind(body, mo, eo):
    kinds = sorted({s[0] for s in _flat(body)} - {"text", "out", "set", "if"})
    return "+".join(kinds)[:80] or "basic"


def _flat(body):
    out = []
    jast.walk_stmts(body, out.append)
    return out


def run(ctx):
    rng = ctx.rng("prog")
    n = 2500 if ctx.tier == "quick" else 120000
    i = 0
    while ctx.more(i, n, floor=100):
        g = c03_condstore.CondStoreGen(rng)
        body = g.program()
        feats = stmtgen.features(body)
        for f in c03_condstore.condstore_features(body):
            ctx.count("feat_" + f)
        for f in feats:
            ctx.count("feat_" + f)
        for f in g.feat:
            ctx.count("gen_" + f)
        rns = ["ascii", "unicode", "keywordlike", "nfkc", "nonnfkc"] if i % 3 == 0 else \
            [rng.choice(list(RENAMINGS))]
        for j in range(3):
            recipe = stmtgen.make_data(rng)
            check_program(ctx, body, recipe, rns if j == 0 else ())
        if feats:
            ctx.dist(skeleton(body))
        if i < 2:
            ctx.sample({"src": jast.ps(body), "data": recipe})
        i += 1


def replay(ctx, case):
    rn = case.get("renaming")
    check_program(ctx, case["body"], case["data"], (rn,) if rn else ())
