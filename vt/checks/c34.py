"""C34 — NativeEnvironment rendering returns native values as documented
(docs/nativetypes.rst, NativeTemplate.render docstring): a single non-string
output node is returned itself; otherwise the pieces are concatenated as
strings and ast.literal_eval'd when that parses, else the text is returned.
Checked for render / render_async, sync and async-enabled environments."""
from __future__ import annotations

import ast
import asyncio
import collections
import decimal
import enum
import math

PID = "C34"
LEVEL = "exploration"
TECHNIQUE = ("reference model (3 documented sentences) over generated segment templates and value recipes; "
             "render / caller-mutation / render histories with value + container-identity comparison")
RULE = ("case = (mode, template built from segments [data | {{ name }} | for-loop over a list | "
        "if-block | set | comment], value recipe): the model lists the runtime output pieces; "
        "1 non-string piece -> identity; else text=''.join(str(p)) -> ast.literal_eval(text) if it "
        "parses else text (leading blank/tab: either accepted, docs silent; empty output not "
        "checked). modes: sync env render, async env render_async, async env render (sync), "
        "sandboxed-native render. Plus single-node constant expressions with a known value. "
        "Producers: 26 custom filters/globals (registered as c34_<name>) returning instances of "
        "SUBCLASSES of builtin literal types (IntEnum, namedtuples, float/int/str/tuple/list/dict/set "
        "subclasses, OrderedDict, Counter, Markup), arbitrary objects, plain builtins and builtin "
        "types without a literal form (frozenset, range, Ellipsis, NotImplemented, non-finite "
        "complex), applied to a template LITERAL or to a variable, bare or inside a list/tuple/dict/"
        "conditional/default/subscript/attribute expression: a single-node template returns an "
        "object of that very type and value (Python computes the same expression), with data "
        "around it the text rule applies; builtin groupby/dictsort/batch/items on literals and "
        "variables return what Environment.call_filter returns. Blocks: template sets (DictLoader) "
        "[block | extends | overriding child | super() | super() through 2 levels | set s = super() "
        "| self.v() in set / printed / from a child block] whose block body is one value or several "
        "pieces: the rule is applied to the block's output to get the value of super()/self.x() and "
        "again to the template's output. "
        "Empty parts: ONE value node (mostly values whose text does not read back as an equal "
        "literal: custom objects, objects whose str() looks like a literal, Decimal, date, "
        "frozenset, nan/inf, range, function, generator, bytes, Markup, an undefined variable, "
        "containers of those) with 1-4 output nodes that render as NOTHING around it - 26 "
        "expressions, 16 constant at compile time ('', '' ~ '', ''|safe, []|join, "
        "none|default('', true), ' '|trim, ...) and 10 depending on data ('' variable, Markup(''), "
        "empty list|join, missing|default(''), ...) - before / after / on both sides, in the same "
        "output statement or outside the body that prints the value, and / or statements without "
        "any output (comment, set, empty if / for / with / block, include of an empty template), "
        "at the top level and inside if / for / with / block bodies and an if inside a for, "
        "optionally with text around: next to an empty output node the value is not the only node "
        "(text rule), with only silent statements around it is (identity). "
        "Warning texts: output text built around ONE quoted string literal (quotes ' \" ''', prefixes "
        "none/b/r/u) whose contents hold backslash sequences - unrecognised escapes (\\d \\s \\w \\. \\/ "
        "...), recognised escapes, escaped quotes, raw Windows paths, regular expressions, \\u / \\U / "
        "\\N{} / \\x escapes (valid and truncated), octal escapes (incl. > 0o377), trailing backslashes "
        "- bare or inside a list / dict value / dict key / tuple / set / nested containers / adjacent "
        "literals, plus 18 whole texts with a number directly followed by a keyword, `is` with a "
        "literal or a call of a literal; routes [one string node | text cut into data/variable pieces | "
        "structure as template data with the string CONTENTS as a variable | for-loop join of quoted "
        "items] x the four modes: the text rule with ast.literal_eval's verdict, Python's parser "
        "warnings (SyntaxWarning for unrecognised escapes ...) ignored - a warning is not a failure "
        "to parse; whether Python warns on the text is recorded per case. "
        "Histories: one literal text holding >=1 list/dict/set (nested up to 3 levels, also inside a "
        "tuple) rendered 5-8 times through 2-3 templates [text cut into data/variable pieces | one "
        "string node | for-loop join | {{ super() }} of a block producing it | set a = self.w() of a "
        "block producing it] x modes [the four above + two concurrent render_async in one event "
        "loop] x [shared environment | a fresh environment]; after each rendering the caller "
        "MODIFIES one reachable container of the value it got (append/extend/insert/setitem/pop/"
        "clear, dict setitem/overwrite/pop/update/clear, set add/discard/clear; nested ones too); "
        "every rendering must equal what an isolated first rendering returns (a new "
        "ast.literal_eval of the text) and no list/dict/set reachable from it may be the same "
        "object as one reachable from any earlier result. Within one rendering: self.w() / super() "
        "referenced twice or in a loop and one of the values modified (4-row table x modes). "
        "distinct = distinct (mode, segment-kind sequence, value kinds, expected-result kind) with "
        ">=1 variable segment; histories: (value type, container types, (mode, route) sequence)")
LEVEL_TEXT = ("held (modulo listed known findings) on K generated (template, data, mode) executions "
              "(segment templates, computed single nodes from custom filters/globals, block/extends/"
              "super()/self.x() template sets, render-mutate-render histories of one text across "
              "templates, modes and environments, literal texts with backslash sequences / parser warnings) + a 45-row table of constant expressions against the documented three-"
              "sentence model; values cover ints/floats/bools/None/containers/custom objects/"
              "literal-looking strings; not all templates")
ASSUMPTIONS = [
    "ast.literal_eval (named by the documentation) is the specification of 'parses as a literal'",
    "a text at which Python's parser only WARNS (unrecognised backslash escape in a string literal, "
    "number directly followed by a keyword) parses: its value is what ast.literal_eval returns with the "
    "warnings ignored, whatever warning filters the application has installed",
    "text with leading space/tab is accepted as either the text or its literal value (docs silent)",
    "templates never end in a newline and contain no \\r (newline normalisation is C12's subject)",
    "the value of {{ super() }} / {{ self.name() }} in a native environment is the documented native "
    "result of the referenced block's output (single non-string value itself, else literal-or-text)",
    "an output node whose value is the empty string is a node like any other ('If the result is a single "
    "node, its value is returned. Otherwise, the nodes are concatenated as strings'): `{{ x }}{{ \"\" }}` has "
    "two nodes; statements that output nothing (comments, set, if/for/with/block without output, an "
    "included empty template) are not nodes. What a macro call or a {% set %}{% endset %} block with empty "
    "output evaluates to in a native environment is not documented and not generated; a single undefined "
    "node is not checked",
    "a str-subclass / Markup single node is a string: the text rule applies to its text",
    "computed objects are compared by type and value (type-strict at every nesting level), objects "
    "handed in through render() by identity",
    "the literal value of a text is a NEW object on every rendering (ast.literal_eval, which the "
    "documentation names, builds new containers on every call): what a caller does to a list/dict/set "
    "it got back never shows in, and is never shared with, the result of another rendering; history "
    "templates get only strings/ints (and a list of strings) as data, so nothing handed in can be "
    "legitimately shared",
]
WARN_CLASSES = ["escaped-quote", "number-keyword-adjacency", "octal-escape", "recognised-escape",
                "regex", "trailing-backslash", "unicode-escape", "unrecognised-escape", "windows-path"]
NSHARDS = {"quick": 16, "thorough": 16}
BUDGET_S = {"quick": 20, "thorough": 300}
FLOORS = {
    # both tiers are count-bounded on an idle machine: quick 46.7k evaluations /
    # 17.4k distinct (4.5 s), thorough 1.95M / 309k (165 s); at load ~6x quick gave 21k / 9.7k
    "quick": {"evaluations": 8000, "distinct": 2800,
              "counters": {"identity_checks": 2300, "literal_results": 2500, "text_results": 2900,
                           "mode:sync.render": 2700, "mode:async.render_async": 2700,
                           "mode:async.render": 1350, "mode:sandbox.render": 1350,
                           "const_expr_checks": 100, "builtin_producer_checks": 100,
                           "producer_checks": 1700, "producer_literal_input": 1000,
                           "producer_variable_input": 700, "producer_single_nonstring": 1300,
                           "producer_single_subclass_or_object": 700, "block_checks": 1400,
                           "block_super_checks": 500, "block_self_checks": 500,
                           "block_reference_nonstring_output": 750,
                           # histories: count-bounded (45 cases per shard)
                           "history_cases": 350, "history_renders": 1400,
                           "history_renders_after_caller_mutation": 1200,
                           "history_mutations": 1200, "history_nested_mutations": 350,
                           "history_identity_checks": 2600, "history_after:same-template": 600,
                           "history_after:other-template": 500,
                           "history_after:other-environment": 1000, "history_sync_async_mix": 900,
                           "history_mode:sync.render": 220, "history_mode:async.render_async": 220,
                           "history_mode:async.render": 220, "history_mode:sandbox.render": 220,
                           "history_mode:async.gather": 450, "history_route:cut": 500,
                           "history_route:string-node": 190, "history_route:loop-join": 80,
                           "history_route:block-super": 190, "history_route:block-self-set": 190,
                           "history_within_render_checks": 12,
                           # empty parts: count-bounded (100 cases per shard x 4 modes)
                           "empty_part_cases": 2000, "empty_part:const": 1300,
                           "empty_part:runtime": 1000,
                           "empty_next_to_single_nonstring_value": 1300,
                           "empty_next_to_value_whose_text_is_not_its_literal": 1100,
                           "empty_only_silent_statements_around_single_value": 200,
                           "empty_scope:top": 700, "empty_scope:if": 230, "empty_scope:loop": 230,
                           "empty_scope:if-in-loop": 230, "empty_scope:with": 230,
                           "empty_scope:block": 230,
                           # warning texts: count-bounded (70 cases per shard x 4 modes = 4480)
                           "warn_text_cases": 2000, "warn_text_with_backslash": 1500,
                           "warn_text_python_warns_while_parsing": 500,
                           "warn_text_python_warns_and_text_is_a_literal": 350,
                           "warn_text_route:cut": 500, "warn_text_route:loop-join": 200,
                           "warn_text_route:quoted-variable": 400,
                           "warn_text_route:string-node": 300,
                           **{"warn_text:" + c: 100 for c in WARN_CLASSES}}},
    "thorough": {"evaluations": 350000, "distinct": 65000,
                 # time-boxed main loop: at load ~9x (load average 145 on 16 cores) a run gave
                 # identity_checks 78.9k / literal_results 86.6k / text_results 103.8k /
                 # mode:sync.render 109k, so these floors are half of the former (load ~6x) ones
                 "counters": {"identity_checks": 50000, "literal_results": 55000,
                              "text_results": 65000, "mode:sync.render": 60000,
                              "mode:async.render_async": 60000, "mode:async.render": 30000,
                              "mode:sandbox.render": 30000, "const_expr_checks": 100,
                              "builtin_producer_checks": 100,
                              # producers / blocks: 4000 cases per shard each (256k checks) when
                              # idle, time-boxed to 20% of the budget each (~70-100k at load ~6x)
                              "producer_checks": 15000, "producer_literal_input": 9000,
                              "producer_variable_input": 6000, "producer_single_nonstring": 11000,
                              "producer_single_subclass_or_object": 6000, "block_checks": 20000,
                              "block_super_checks": 7000, "block_self_checks": 7000,
                              "block_reference_nonstring_output": 10000,
                              # histories: 600 cases per shard (9.6k cases / ~75k renders),
                              # time-boxed to 6% of the budget
                              "history_cases": 1900, "history_renders": 15400,
                              "history_renders_after_caller_mutation": 13800,
                              "history_mutations": 13800, "history_nested_mutations": 3900,
                              "history_identity_checks": 27500,
                              "history_after:same-template": 6600,
                              "history_after:other-template": 5500,
                              "history_after:other-environment": 11000,
                              "history_sync_async_mix": 9900,
                              "history_mode:sync.render": 2500,
                              "history_mode:async.render_async": 2500,
                              "history_mode:async.render": 2500,
                              "history_mode:sandbox.render": 2500,
                              "history_mode:async.gather": 5000, "history_route:cut": 5500,
                              "history_route:string-node": 2200, "history_route:loop-join": 1000,
                              "history_route:block-super": 2200,
                              "history_route:block-self-set": 2200,
                              "history_within_render_checks": 12,
                              # empty parts: 5000 cases per shard, time-boxed to 10% of the budget
                              # (25.6k cases at load average ~70 on 16 cores)
                              "empty_part_cases": 6500, "empty_part:const": 4300,
                              "empty_part:runtime": 3200,
                              "empty_next_to_single_nonstring_value": 4300,
                              "empty_next_to_value_whose_text_is_not_its_literal": 3700,
                              "empty_only_silent_statements_around_single_value": 650,
                              "empty_scope:top": 2400, "empty_scope:if": 800,
                              "empty_scope:loop": 800, "empty_scope:if-in-loop": 800,
                              "empty_scope:with": 800, "empty_scope:block": 800,
                              # warning texts: 4000 cases per shard, time-boxed to 4% of the budget
                              # (37k cases in 7% of the budget at load average > 60 on 16 cores)
                              "warn_text_cases": 7000, "warn_text_with_backslash": 6000,
                              "warn_text_python_warns_while_parsing": 2800,
                              "warn_text_python_warns_and_text_is_a_literal": 2000,
                              "warn_text_route:cut": 2400, "warn_text_route:loop-join": 1000,
                              "warn_text_route:quoted-variable": 2000,
                              "warn_text_route:string-node": 1300,
                              **{"warn_text:" + c: 700 for c in WARN_CLASSES}}},
}

MODES = ["sync.render", "async.render_async", "async.render", "sandbox.render"]


class Foo:
    def __init__(self, v):
        self.value = v

    def __repr__(self):
        return f"Foo({self.value!r})"


class StrIsLiteral:
    """non-string object whose str() looks like a literal"""

    def __init__(self, s):
        self.s = s

    def __str__(self):
        return self.s


# ---- values whose type is a SUBCLASS of a builtin literal type (or that has no
# literal form at all): produced by custom filters / globals registered on the
# environments, from template literals as well as from variables
class Color(enum.IntEnum):
    RED = 1
    GREEN = 2


Version = collections.namedtuple("Version", "major minor")
Point = collections.namedtuple("Point", "x y")


class Celsius(float):
    def __repr__(self):
        return f"Celsius({float(self)!r})"

    __str__ = __repr__


class PlainFloat(float):
    pass


class MyInt(int):
    pass


class MyStr(str):
    pass


class TagStr(str):
    def __repr__(self):
        return f"TagStr({str.__repr__(self)})"


class MyTuple(tuple):
    pass


class MyList(list):
    pass


class MyDict(dict):
    pass


class MySet(set):
    pass


class Box:
    def __init__(self, v):
        self.v = v

    def __eq__(self, other):
        return type(other) is Box and other.v == self.v

    __hash__ = None

    def __repr__(self):
        return f"Box({self.v!r})"


def _markup(s):
    from markupsafe import Markup

    return Markup(s)


_SEQ_IN = [("[1, 2]", [1, 2]), ("(1,)", (1,)), ("[]", [])]
_STR_IN = [("'abc'", "abc"), ("'1'", "1"), ("'[1]'", "[1]"), ("' x'", " x")]
# (name, callable registered as filter c34_<name> and global c34_<name>,
#  inputs as (template literal, the same value in Python))
PRODUCERS = [
    ("color", lambda s: Color[s.upper()], [("'red'", "red"), ("'green'", "green")]),
    ("colorn", Color, [("1", 1), ("2", 2)]),
    ("version", lambda s: Version(*map(int, s.split("."))), [("'1.2'", "1.2"), ("'10.0'", "10.0")]),
    ("point", lambda q: Point(*q), [("[1, 2]", [1, 2]), ("(3, 'a')", (3, "a"))]),
    ("celsius", Celsius, [("36.6", 36.6), ("0", 0), ("-1.5", -1.5)]),
    ("pfloat", PlainFloat, [("1.5", 1.5), ("2", 2)]),
    ("myint", MyInt, [("5", 5), ("-3", -3), ("true", True)]),
    ("mystr", MyStr, _STR_IN),
    ("tagstr", TagStr, _STR_IN),
    ("markup", _markup, [("'<b>'", "<b>"), ("'1'", "1"), ("'a'", "a")]),
    ("mytuple", MyTuple, _SEQ_IN),
    ("mylist", MyList, _SEQ_IN + [("'ab'", "ab")]),
    ("mydict", MyDict, [("{'a': 1}", {"a": 1}), ("{}", {})]),
    ("odict", collections.OrderedDict, [("{'a': 1, 'b': [2]}", {"a": 1, "b": [2]})]),
    ("counter", collections.Counter, [("[1, 1, 2]", [1, 1, 2]), ("'aab'", "aab")]),
    ("myset", MySet, [("[1, 2]", [1, 2]), ("[]", [])]),
    ("box", Box, [("1", 1), ("[1]", [1]), ("'s'", "s")]),
    ("bytes", lambda s: s.encode(), [("'ab'", "ab")]),
    ("decimal", decimal.Decimal, [("'1.50'", "1.50")]),
    ("ident", lambda v: v, [("[1, 2]", [1, 2]), ("{'a': (1, 2.5)}", {"a": (1, 2.5)}), ("3", 3),
                            ("none", None), ("1.0", 1.0), ("(1, 'x')", (1, "x"))]),
    ("cx", lambda v: complex(v, 2), [("1", 1)]),
    # builtin types without a literal form
    ("fset", frozenset, [("[1, 2]", [1, 2]), ("[]", [])]),
    ("torange", range, [("3", 3)]),
    ("ellipsis", lambda v: ..., [("1", 1)]),
    ("notimpl", lambda v: NotImplemented, [("1", 1)]),
    ("cxinf", lambda v: complex(v, math.inf), [("1", 1)]),
]
_PROD = {p[0]: p for p in PRODUCERS}
# (name, expression around E, the same computation in Python, applicable(value))
WRAPPERS = [
    ("plain", "E", lambda x: x, None),
    ("plain", "E", lambda x: x, None),
    ("plain", "E", lambda x: x, None),
    ("in-list", "[E, 1]", lambda x: [x, 1], None),
    ("in-tuple", "(E, 'a')", lambda x: (x, "a"), None),
    ("in-dict", "{'k': E}", lambda x: {"k": x}, None),
    ("nested", "[[E], 2]", lambda x: [[x], 2], None),
    ("cond", "E if true else 0", lambda x: x, None),
    ("cond-test", "E if 2 is c34even else 0", lambda x: x, None),
    ("default", "(E)|default(0)", lambda x: x, None),
    ("item0", "(E)[0]", lambda x: x[0], lambda x: isinstance(x, (tuple, list)) and len(x) > 0),
    ("attr", "(E).real", lambda x: x.real, lambda x: isinstance(x, (int, float)) and x == x),
]


def make_value(recipe):
    k = recipe[0]
    if k in ("int", "float", "str", "bool"):
        return recipe[1]
    if k == "none":
        return None
    if k == "nan":
        return math.nan
    if k == "inf":
        return math.inf
    if k == "list":
        return [make_value(x) for x in recipe[1]]
    if k == "tuple":
        return tuple(make_value(x) for x in recipe[1])
    if k == "set":
        return set(make_value(x) for x in recipe[1])
    if k == "dict":
        return {a: make_value(b) for a, b in recipe[1]}
    if k == "foo":
        return Foo(recipe[1])
    if k == "strobj":
        return StrIsLiteral(recipe[1])
    if k == "decimal":
        return decimal.Decimal(recipe[1])
    if k == "complex":
        return complex(recipe[1], recipe[2])
    if k == "bytes":
        return recipe[1].encode()
    if k == "markup":
        from markupsafe import Markup

        return Markup(recipe[1])
    if k == "range":
        return range(recipe[1])
    if k == "gen":
        return (i for i in range(recipe[1]))
    if k == "func":
        return len
    if k == "date":
        import datetime

        return datetime.date(*recipe[1])
    if k == "fset":
        return frozenset(recipe[1])
    if k == "undef":
        return UNDEF
    raise AssertionError(recipe)


class _Undef:
    """Stands for a variable that is NOT handed to render(): the node's value is an undefined,
    whose text is the empty string (docs/templates.rst 'Variables')."""

    def __str__(self):
        return ""

    def __repr__(self):
        return "<not passed to render>"


UNDEF = _Undef()

# ---- expressions that render as NOTHING: an output node whose value is the empty string.
# (source, 'const' = the value is known when the template is compiled | 'runtime' = it depends
# on the data handed to render)
EMPTY_EXPRS = [
    ('""', "const"), ("''", "const"), ('"" ~ ""', "const"), ("''|safe", "const"),
    ("[]|join", "const"), ("[]|join(', ')", "const"), ("none|default('', true)", "const"),
    ("''|default('x')", "const"), ("'' if true else 'x'", "const"), ("''|string", "const"),
    ("' '|trim", "const"), ("''|e", "const"), ("'abc'[:0]", "const"), ("'' * 3", "const"),
    ("''|upper", "const"), ("('', 1)[0]", "const"),
    ("emp", "runtime"), ("emp ~ ''", "runtime"), ("emp|safe", "runtime"), ("empm", "runtime"),
    ("c34_nothing_passed|default('')", "runtime"), ("emptylist|join", "runtime"),
    ("emp|default('', true)", "runtime"), ("'' if yes else 'x'", "runtime"),
    ("emp|trim", "runtime"), ("emptylist|join('-')", "runtime"),
]
EMPTY_DATA = {"emp": ["str", ""], "empm": ["markup", ""], "emptylist": ["list", []],
              "yes": ["bool", True]}


STR_VALUES = ["1", "a", "'a'", '"b"', "[1, 2]", "{[1]: 2}", "{{1}}", " 1", "1 ", "", "\n1", "1\n",
              "True", "None", "1_000", "0x10", "1e3", "1.5", "-1", "+1", "1+2j", "1 + 2", "(1,)",
              "()", "{}", "{'a': 1}", "{1, 2}", "b'x'", "...", "x", "a b", "#", "1 # c", "é",
              "'é'", "\\", "'\\n'", "'''a'''", "f'a'", "-'a'", "[1, 2", "1,", "1, 2", "nan", "inf",
              "Foo(1)", "__import__('os')", "9" * 30, "0" * 5 + "1", "01", "1.", ".5", "1e999",
              "[[[[[[1]]]]]]", "{'a': [1, {2: (3,)}]}", "\t1", "  [1]", "lambda: 1", "1 if 1 else 2",
              "not 1", "-(1)", "- 1", "{**{}}", "[*()]", "\x00", "1\x00", "'a' 'b'", "'a'\n'b'"]
LITERALS = ["[1, 2, 3]", "{'a': 1, 'b': [2, 3]}", "(1, 'x', None)", "12345", "-7", "1.25", "1e3",
            "'hello world'", '"quo\'te"', "[[1], [2, [3]]]", "{1, 2}", "True", "None", "b'ab'",
            "{'k': (1, 2.5, 'v')}", "0x1f", "1_000", "[1,\n 2]", "( 1 , 2 )", "'a' 'b'", "1+2j",
            "[True, False, None]", "{}", "[]", "()", "''", "...", "{'a': {'b': {'c': [1]}}}",
            "3.0", "-0.0", "[1, 2, 3,]", "'é'", "'{x}'", "'%s'", "[1, [2, [3, [4, [5]]]]]"]
DATA = ["[", "]", "(", ")", "{", "}", ",", ", ", ":", ": ", "'", '"', " ", "\n", "\t", "1", "0", ".",
        "-", "+", "e", "_", "x", "True", "None", "False", "a", "b'", "#", "\\", "...", "j", "0x",
        "é", "[1, 2", "{'a': ", "{[1]: 2}", "1, 2", "0.000", "--host='", "' ", "''", "  ", "12",
        " * ", "1 + ", "(1,)", "{1: 2}", "{1}", "[]", "()", "\"\"\""]


def gen_value(r, depth=0):
    k = r.randrange(24)
    if k <= 3:
        return ["int", r.choice([0, 1, -1, 2, 7, 42, 10 ** 20, -5, 255])]
    if k <= 5:
        return ["float", r.choice([0.0, 1.5, -2.25, 1e20, 1e-7, 0.1, 3.0])]
    if k <= 9:
        return ["str", r.choice(STR_VALUES)]
    if k == 10:
        return ["bool", r.random() < 0.5]
    if k == 11:
        return ["none"]
    if k == 12:
        return [r.choice(["nan", "inf"])]
    if k in (13, 14) and depth < 2:
        return ["list", [gen_value(r, depth + 1) for _ in range(r.randrange(4))]]
    if k == 15 and depth < 2:
        return ["tuple", [gen_value(r, depth + 1) for _ in range(r.randrange(3))]]
    if k == 16:
        return ["set", [["int", i] for i in range(r.randrange(3))]]
    if k == 17 and depth < 2:
        return ["dict", [[r.choice(["a", "b", "c d", "1"]), gen_value(r, depth + 1)]
                         for _ in range(r.randrange(3))]]
    if k == 18:
        return ["foo", r.randrange(20)]
    if k == 19:
        return ["strobj", r.choice(["1", "[1]", "x", "'q'", " 2", "{[1]: 2}"])]
    if k == 20:
        return r.choice([["decimal", "1.50"], ["complex", 1, 2], ["bytes", "ab"], ["range", 3]])
    if k == 21:
        return ["markup", r.choice(["1", "<b>", "[1, 2]", "'a'"])]
    if k == 22:
        return r.choice([["gen", 2], ["func"]])
    return ["int", r.randrange(100)]


def gen_case(r):
    """-> {"segs": [...], "data": {name: recipe}}"""
    data = {}
    nv = [0]

    def newvar(recipe):
        nv[0] += 1
        n = f"v{nv[0]}"
        data[n] = recipe
        return n

    def seg(depth):
        k = r.random()
        if k < 0.36:
            return ["data", r.choice(DATA)]
        if k < 0.74:
            return ["var", newvar(gen_value(r)), r.choice(["", "", "-", "l", "r"])]
        if k < 0.82 and depth == 0:
            items = [gen_value(r, 1) for _ in range(r.randrange(4))]
            return ["for", newvar(["list", items]), r.choice([",", ", ", "", " "])]
        if k < 0.90 and depth == 0:
            flag = r.random() < 0.6
            return ["if", newvar(["bool", flag]), [seg(1) for _ in range(r.randint(1, 2))]]
        if k < 0.95:
            return ["set", newvar(gen_value(r))]
        return ["comment"]

    shape = r.random()
    if shape > 0.75:
        # a Python literal cut into data and variable pieces
        L = r.choice(LITERALS)
        cuts = sorted(r.sample(range(len(L) + 1), min(len(L) + 1, r.randint(1, 3))))
        parts = [L[a:b] for a, b in zip([0] + cuts, cuts + [len(L)])]
        segs = []
        for j, part in enumerate(parts):
            if not part:
                continue
            if (j + r.randrange(2)) % 2 or "{{" in part or "{%" in part or "{#" in part:
                if part.lstrip("-").isdigit() and not part.startswith("0") and r.random() < 0.7:
                    segs.append(["var", newvar(["int", int(part)]), ""])
                else:
                    segs.append(["var", newvar(["str", part]), ""])
            else:
                segs.append(["data", part])
        if r.random() < 0.2:
            segs.insert(r.randrange(len(segs) + 1), r.choice([["comment"], ["data", " "],
                                                              ["set", newvar(["int", 1])]]))
        return {"segs": segs, "data": data}
    if shape < 0.3:
        segs = [["var", newvar(gen_value(r)), r.choice(["", "-"])]]
        if r.random() < 0.3:
            segs.insert(r.randrange(2), r.choice([["comment"], ["set", newvar(gen_value(r))],
                                                  ["if", newvar(["bool", False]), [["data", "zz"]]]]))
        if r.random() < 0.2:
            segs = [["if", newvar(["bool", True]), segs]]
    else:
        segs = [seg(0) for _ in range(r.randint(1, 5))]
    return {"segs": segs, "data": data}


def gen_odd_value(r):
    """Mostly values whose text does NOT read back as an equal literal (the value itself and
    the literal-or-text of its string differ), some that do."""
    k = r.randrange(20)
    if k <= 2:
        return ["foo", r.randrange(20)]
    if k <= 4:
        return ["strobj", r.choice(["1", "[1]", "x", "'q'", "{[1]: 2}", "", "None"])]
    if k == 5:
        return ["decimal", r.choice(["1.50", "2", "NaN"])]
    if k == 6:
        return ["date", r.choice([[2024, 1, 31], [1999, 12, 1]])]
    if k == 7:
        return ["fset", r.choice([[1], [], [1, 2]])]
    if k == 8:
        return [r.choice(["nan", "inf"])]
    if k == 9:
        return r.choice([["range", 3], ["func"], ["gen", 2], ["bytes", "ab"]])
    if k in (10, 11):
        return ["undef"]
    if k == 12:
        return ["markup", r.choice(["1", "<b>", "[1, 2]"])]
    if k == 13:
        return ["tuple", [["foo", 1], ["int", 2]]]
    if k == 14:
        return ["list", [["decimal", "1.5"]]]
    if k == 15:
        return ["str", r.choice(STR_VALUES)]
    return gen_value(r)


def gen_empty_case(r):
    """ONE value node with output nodes that render as nothing (EMPTY_EXPRS) and / or statements
    without any output around it, at the top level or inside an if / for / with / block body.
    -> segment case (as gen_case) + "family": "empty-parts"."""
    data = dict(EMPTY_DATA)
    scope = r.choice(["top", "top", "top", "if", "loop", "with", "block", "if-in-loop"])
    recipe = gen_odd_value(r)
    if scope in ("loop", "if-in-loop") and recipe[0] in ("undef", "gen"):
        recipe = ["foo", 3]
    shape = r.random()
    nblock = [0]

    def empties(lo, hi):
        n = r.randint(lo, hi)
        if shape < 0.15:
            n = 0                   # control: no empty node at all, only silent statements
        out = []
        for _ in range(n):
            out.append(["empty", r.randrange(len(EMPTY_EXPRS))])
            if r.random() < 0.25:
                out.append(silent())
        return out

    def silent():
        kind = r.choice(["comment", "set", "emptyif", "emptyfor", "emptywith", "emptyblock",
                         "include"])
        if kind == "emptyblock" and scope in ("loop", "if-in-loop"):
            kind = "emptyif"
        if kind == "comment":
            return ["comment"]
        if kind == "set":
            return ["set", "yes"]
        nblock[0] += 1
        return ["nooutput", kind, "e%d" % nblock[0]]

    where = r.choice(["before", "after", "after", "both"])
    val = ["item"] if scope in ("loop", "if-in-loop") else ["var", "v1", ""]
    core = (empties(1, 2) if where in ("before", "both") else []) + [val] + \
        (empties(1, 2) if where in ("after", "both") else [])
    if shape < 0.15 or r.random() < 0.2:
        core.insert(r.randrange(len(core) + 1), silent())
    if scope in ("loop", "if-in-loop"):
        data["v1"] = ["list", [recipe]]
    else:
        data["v1"] = recipe
    if scope == "top":
        segs = core
    elif scope == "if":
        segs = [["if", "yes", core]]
    elif scope == "loop":
        segs = [["loop", "v1", core]]
    elif scope == "if-in-loop":
        segs = [["loop", "v1", [["if", "yes", core]]]]
    elif scope == "with":
        segs = [["with", core]]
    else:
        segs = [["blockof", "main_b", core]]
    extra = r.random()
    if extra < 0.12:
        # the empty node sits OUTSIDE the body that prints the value
        segs = segs + [["empty", r.randrange(len(EMPTY_EXPRS))]] if r.random() < 0.5 else \
            [["empty", r.randrange(len(EMPTY_EXPRS))]] + segs
    elif extra < 0.22:
        # text around: the value and the empty node inside a literal's brackets
        L, R = r.choice([("[", "]"), ("(", ",)"), ("'", "'"), ("x", ""), ("", " ")])
        segs = [["data", L]] + segs + ([["data", R]] if R else [])
    return {"family": "empty-parts", "scope": scope, "segs": segs, "data": data}


def _walk_segs(segs):
    for sg in segs:
        yield sg
        if sg[0] in ("if", "loop", "with", "blockof"):
            yield from _walk_segs(sg[-1])


def realize(segs, values):
    """One pass over the segment tree -> (template source in default
    delimiters, flat model list of ["data", s] / ["val", v, ws] / ["tag"] in
    runtime order).  Template data appears as itself; each {{ }} is its value;
    a for loop repeats its body per item; a false if-block contributes
    nothing (documentation of the statements, docs/templates.rst)."""
    out = []

    mute = [0]

    def emit_src(s, flat, live):
        if not mute[0]:
            out.append(s)

    def walk(sl, flat, live, item=None):
        for sg in sl:
            k = sg[0]
            if k == "empty":
                # an expression whose value is the empty string: an output node all the same
                emit_src("{{ " + EMPTY_EXPRS[sg[1]][0] + " }}", flat, live)
                if live:
                    flat.append(["val", "", ""])
            elif k == "item":
                emit_src("{{ item }}", flat, live)
                if live:
                    flat.append(["val", item, ""])
            elif k == "loop":
                # {% for item in <list> %} body {% endfor %}; the body may print the item
                emit_src("{% for item in " + sg[1] + " %}", flat, live)
                walk(sg[2], [], False)          # the body's source, once
                if live:
                    flat.append(["tag"])
                    mute[0] += 1
                    for it in values[sg[1]]:    # the body's output, per item
                        walk(sg[2], flat, True, it)
                        flat.append(["tag"])
                    mute[0] -= 1
                emit_src("{% endfor %}", flat, live)
            elif k in ("with", "blockof"):
                # a scope / a block around segments: tags that output nothing themselves
                emit_src("{% with %}" if k == "with" else "{% block " + sg[1] + " %}", flat, live)
                if live:
                    flat.append(["tag"])
                walk(sg[-1], flat, live, item)
                emit_src("{% endwith %}" if k == "with" else "{% endblock %}", flat, live)
                if live:
                    flat.append(["tag"])
            elif k == "nooutput":
                # statements that produce no output at all
                emit_src({"emptyif": "{% if yes %}{% endif %}",
                          "emptyfor": "{% for _e in emptylist %}x{% endfor %}",
                          "emptyblock": "{% block " + str(sg[2]) + " %}{% endblock %}",
                          "include": "{% include 'c34_empty' %}",
                          "emptywith": "{% with %}{% endwith %}"}[sg[1]], flat, live)
                if live:
                    flat.append(["tag"])
            elif k == "data":
                # never let a data '{' meet the '{' / '%' / '#' of what follows
                d = sg[1] + " " if sg[1].endswith("{") else sg[1]
                emit_src(d, flat, live)
                if live:
                    flat.append(["data", d])
            elif k == "var":
                ws = sg[2]
                emit_src("{{" + ("-" if ws in ("-", "l") else "") + " " + sg[1] + " " +
                         ("-" if ws in ("-", "r") else "") + "}}", flat, live)
                if live:
                    flat.append(["val", values[sg[1]], ws])
            elif k == "for":
                emit_src("{% for item in " + sg[1] + " %}{{ item }}" + sg[2] + "{% endfor %}",
                         flat, live)
                if live:
                    flat.append(["tag"])
                    for it in values[sg[1]]:
                        flat.append(["val", it, ""])
                        if sg[2]:
                            flat.append(["data", sg[2]])
                        flat.append(["tag"])
            elif k == "if":
                emit_src("{% if " + sg[1] + " %}", flat, live)
                if live:
                    flat.append(["tag"])
                walk(sg[2], flat, live and bool(values[sg[1]]), item)
                emit_src("{% endif %}", flat, live)
                if live:
                    flat.append(["tag"])
            elif k == "set":
                emit_src("{% set tmp = " + sg[1] + " %}", flat, live)
                if live:
                    flat.append(["tag"])
            elif k == "comment":
                emit_src("{# note #}", flat, live)
                if live:
                    flat.append(["tag"])

    flat = []
    walk(segs, flat, True)
    return "".join(out), flat


def expected_from_flat(flat):
    """Merge adjacent data, apply whitespace control ('-' strips the
    whitespace of the directly adjacent template data, docs/templates.rst
    'Whitespace Control'), drop empty data; -> list of pieces."""
    merged = []
    for f in flat:
        if f[0] == "data" and merged and merged[-1][0] == "data":
            merged[-1][1] += f[1]
        else:
            merged.append(list(f))
    n = len(merged)
    for i, f in enumerate(merged):
        if f[0] == "val" and f[2]:
            if f[2] in ("-", "l") and i > 0 and merged[i - 1][0] == "data":
                merged[i - 1][1] = merged[i - 1][1].rstrip()
            if f[2] in ("-", "r") and i + 1 < n and merged[i + 1][0] == "data":
                merged[i + 1][1] = merged[i + 1][1].lstrip()
    pieces = []
    for f in merged:
        if f[0] == "data":
            if f[1]:
                if pieces and pieces[-1][0] == "data":
                    pieces[-1][1] += f[1]
                else:
                    pieces.append(["data", f[1]])
        elif f[0] == "val":
            pieces.append(["val", f[1]])
    return pieces


def literal_or_text(text):
    """-> (kind, value, alt) kind in literal|text; alt: optional second accepted value."""
    def lit(s):
        try:
            return True, ast.literal_eval(s)
        except BaseException:  # noqa: BLE001 - "cannot be parsed" in any way
            return False, None

    if text[:1] in (" ", "\t"):
        ok, v = lit(text)
        return ("either", text, v if ok else text)
    ok, v = lit(text)
    return ("literal", v, None) if ok else ("text", text, None)


def same(a, b):
    """type-strict structural equality (nan-aware)."""
    if type(a) is not type(b):
        return False
    if isinstance(a, float):
        return (a != a and b != b) or a == b and math.copysign(1, a) == math.copysign(1, b)
    if isinstance(a, (list, tuple)):
        return len(a) == len(b) and all(same(x, y) for x, y in zip(a, b))
    if isinstance(a, dict):
        return list(map(repr, a.keys())) == list(map(repr, b.keys())) and \
            all(same(a[k], b[k]) for k in a)
    return a == b


_ENVS = {}


def make_env(key, loader=None):
    from jinja2.nativetypes import NativeEnvironment
    from jinja2.sandbox import SandboxedEnvironment

    if key == "sync":
        env = NativeEnvironment(keep_trailing_newline=True, loader=loader)
    elif key == "async":
        env = NativeEnvironment(keep_trailing_newline=True, enable_async=True, loader=loader)
    else:
        class SandboxedNativeEnvironment(SandboxedEnvironment, NativeEnvironment):
            pass

        env = SandboxedNativeEnvironment(keep_trailing_newline=True, loader=loader)
    for name, fn, _inputs in PRODUCERS:
        env.filters["c34_" + name] = fn
        env.globals["c34_" + name] = fn
    env.tests["c34even"] = lambda v: v % 2 == 0
    return env


def get_env(mode):
    key = mode.split(".")[0]
    if key not in _ENVS:
        _ENVS[key] = make_env(key)
    return _ENVS[key]


def do_render(mode, src, values, templates=None):
    if templates is not None:
        from jinja2 import DictLoader

        t = make_env(mode.split(".")[0], DictLoader(dict(templates))).get_template(src)
    else:
        t = get_env(mode).from_string(src)
    if mode.endswith("render_async"):
        return asyncio.run(t.render_async(**values))
    return t.render(**values)


def kinds_of(pieces):
    out = []
    for p in pieces:
        if p[0] == "data":
            out.append("d")
        else:
            v = p[1]
            out.append(type(v).__name__)
    return out


def check_case(ctx, mode, case):
    segs = case["segs"]
    values = {k: make_value(v) for k, v in case["data"].items()}
    src, flat = realize(segs, values)
    pieces = expected_from_flat(flat)
    ctx.ev()
    ctx.count("mode:" + mode)
    rec = {"kind": "segments", "mode": mode, "case": case, "src": src}
    if not pieces:
        ctx.count("empty_output_not_checked")
        return
    fam = case.get("family")
    templates = None
    if any(sg[0] == "nooutput" and sg[1] == "include" for sg in _walk_segs(segs)):
        templates = {"main": src, "c34_empty": ""}
    try:
        rvalues = {k: v for k, v in values.items() if v is not UNDEF}
        got = do_render(mode, "main" if templates else src, rvalues, templates)
    except BaseException as e:  # noqa: BLE001
        lit = "".join(str(p[1]) for p in pieces)
        single = len(pieces) == 1 and pieces[0][0] == "val" and not isinstance(pieces[0][1], str)
        tc = _textclass(lit)
        if not single and tc == "literal_eval-" + type(e).__name__:
            # the text is not a literal and literal_eval's own error escaped
            key = f"{tc}-propagates"
        else:
            key = f"{mode}:raises:{type(e).__name__}:" + ("single-node" if single else tc)
        ctx.violation(key, f"{mode} of {src!r} with {case['data']} raised {type(e).__name__}: "
                           f"{str(e)[:200]}", rec)
        return
    nvar = sum(1 for p in pieces if p[0] == "val")
    if fam == "empty-parts":
        return check_empty_parts(ctx, mode, case, src, pieces, got, rec)
    if fam == "warning-text":
        return check_warn_text(ctx, mode, case, src, pieces, got, rec)
    if len(pieces) == 1 and pieces[0][0] == "val" and not isinstance(pieces[0][1], str):
        ctx.count("identity_checks")
        exp_kind = "identity"
        if got is not pieces[0][1]:
            ctx.violation(f"{mode}:single-node-not-identity:{type(pieces[0][1]).__name__}",
                          f"{src!r}: single non-string node {pieces[0][1]!r} came back as "
                          f"{type(got).__name__} {got!r}", rec)
    else:
        exp_kind = judge_text(ctx, mode, src, "".join(str(p[1]) for p in pieces), got, rec)
    if nvar:
        ctx.dist((mode, [s[0] for s in segs], kinds_of(pieces), exp_kind))


def check_empty_parts(ctx, mode, case, src, pieces, got, rec):
    """docs/nativetypes.rst: 'Rendering a Python object produces that object as long as it is
    the only node'; NativeTemplate.render: 'If the result is a single node, its value is
    returned.  Otherwise, the nodes are concatenated as strings' and literal_eval'd / returned as
    the string.  An output node whose value is the empty string is a node: next to it the value
    is NOT the only node, the text rule applies.  Statements without output are no nodes."""
    segs = case["segs"]
    scope = case["scope"]
    value = pieces[[i for i, p in enumerate(pieces) if p[0] == "val" and p[1] != "" or
                    p[1] is UNDEF][0]][1] if any(p[0] == "val" and (p[1] != "" or p[1] is UNDEF)
                                                 for p in pieces) else ""
    used = [EMPTY_EXPRS[sg[1]] for sg in _walk_segs(segs) if sg[0] == "empty"]
    silent = [sg for sg in _walk_segs(segs) if sg[0] in ("nooutput", "comment", "set")]
    ekinds = sorted({k for _, k in used})
    ctx.count("empty_part_cases")
    ctx.count("empty_scope:" + scope)
    for k in ekinds:
        ctx.count("empty_part:" + k)
    has_data = any(p[0] == "data" for p in pieces)
    single = len(pieces) == 1 and pieces[0][0] == "val" and not isinstance(pieces[0][1], str)
    text = "".join(str(p[1]) for p in pieces)
    if single:
        # only silent statements around the value: it is the only node
        ctx.count("identity_checks")
        ctx.count("empty_only_silent_statements_around_single_value")
        exp_kind = "identity"
        if value is UNDEF:
            ctx.count("single_undefined_not_checked")
        elif got is not value:
            ctx.violation(f"{mode}:single-node-next-to-silent-statement-not-identity:"
                          + "+".join(sorted({sg[1] if sg[0] == "nooutput" else sg[0]
                                             for sg in silent})),
                          f"{src!r}: the only output node is {value!r} (the other statements "
                          f"output nothing) but the template returned {type(got).__name__} "
                          f"{got!r}", rec)
    else:
        nonstr = not isinstance(value, str)
        if nonstr and used and not has_data:
            ctx.count("empty_next_to_single_nonstring_value")
            kind, v, alt = literal_or_text(text)
            if value is UNDEF or not (same(value, v) or (alt is not None and same(value, alt))):
                # the documented result differs observably from the value itself
                ctx.count("empty_next_to_value_whose_text_is_not_its_literal")
            accepted = ((isinstance(got, str) and got == v) or same(got, alt)) \
                if kind == "either" else same(got, v) if kind == "literal" else \
                (isinstance(got, str) and got == v)
            if not accepted and (got is value or (
                    value is UNDEF and not isinstance(got, str) and
                    type(got).__name__.endswith("Undefined"))):
                ctx.violation(
                    f"{mode}:value-next-to-empty-node:{'+'.join(ekinds)}-empty:{scope}:"
                    "returned-the-value-itself",
                    f"{src!r} with {case['data']}: the template has the output nodes "
                    f"{[p[1] for p in pieces]!r}, not a single node; documented result: the "
                    f"concatenated text {text!r} as a literal if it is one, else the text; got "
                    f"the object {got!r} itself", rec)
                ctx.dist((mode, "empty", scope, ekinds, type(value).__name__, "violated"))
                return
        exp_kind = judge_text(ctx, mode, src, text, got, rec,
                              keypfx=f"{mode}:empty-parts")
    ctx.dist((mode, "empty", scope, [e for e, _ in used][:3], len(silent) > 0,
              type(value).__name__, has_data, exp_kind))


# ---- texts whose string literals contain BACKSLASH sequences, and other texts at which Python
# itself emits a warning while parsing (configuration templating: quoted Windows paths, regular
# expressions).  "Parses as a literal" is ast.literal_eval's verdict (the function the
# documentation names) with Python's warnings ignored: a warning is not a failure to parse.
# class -> contents of a string literal (placed between quotes by the generator)
ESC_CONTENTS = {
    "unrecognised-escape": ["\\d+", "^\\s*#", "\\w+\\.\\w+", "a\\/b", "\\.", "\\ ", "x\\-y", "\\(\\)",
                            "100\\%", "\\d", "\\s", "\\w", "a\\qb", "\\_", "\\: \\;"],
    "recognised-escape": ["a\\nb", "\\t", "\\\\", "a\\\\b", "\\x41", "\\101", "\\0", "\\a\\b\\f\\v",
                          "line\\n\\tnext", "\\\\d", "q\\\\", "\\\\\\\\host"],
    "escaped-quote": ["it\\'s", "say \\\"hi\\\"", "\\'", "a\\\"b\\'c"],
    "windows-path": ["C:\\data\\new", "C:\\dir\\file.txt", "D:\\temp\\x.txt", "C:\\Users\\me",
                     "\\\\server\\share", "C:\\Program Files\\App", "C:\\dir\\",
                     "c:\\windows\\system32", "..\\lib\\site-packages", "C:\\\\ok\\\\path"],
    "regex": ["^\\d{3}-\\d{4}$", "\\bword\\b", "(\\w+)@(\\w+)\\.com", "[^\\]]+", "\\s+|\\S+", "\\A\\Z",
              "^\\[(.*)\\]$", "(?P<n>\\d+)\\1", "\\$\\{name\\}", "a\\|b"],
    "unicode-escape": ["\\u00e9", "\\N{BULLET}", "\\U0001F600", "\\u12", "\\N{NO SUCH NAME}",
                       "\\u00e9\\d", "\\x4", "\\xe9t\\xe9", "\\ud800"],
    "octal-escape": ["\\400", "\\777", "\\8", "\\18", "\\1234"],
    "trailing-backslash": ["abc\\", "abc\\\\", "abc\\\\\\", "\\"],
}
# whole texts: a number directly followed by a keyword, `is` with a literal, calling a literal
ODD_TEXTS = ["1if 1else 2", "1or 2", "0x1for x in y", "[1]if 1else[2]", "1in[1]", "1is 1", "1 is 1",
             "'a' is 'a'", "[1, 2](3)", "1and 0", "0o7if 1else 2", "1.5if 1else 2", "1jor 2",
             "[1for x in y]", "{1:1if 1else 2}", "(1)is not 1", "1_0if 1else 0", "'a'[1, 2]"]
ESC_CLASSES = sorted(ESC_CONTENTS)
ESC_QUOTES = ["'", "'", '"', "'" * 3]
# (name, text with S for the string literal)
ESC_SHAPES = [("scalar", "S"), ("list", "[S, 'x']"), ("dict-value", "{'pattern': S, 'n': 2}"),
              ("tuple", "(S,)"), ("dict-key", "{S: 1}"), ("nested", "[[S], {'k': (S, 1.5)}]"),
              ("adjacent", "S 'b'"), ("set", "{S, 'z'}")]


def parse_warnings(text):
    """Categories of the warnings Python emits while parsing `text` as an expression."""
    import warnings

    with warnings.catch_warnings(record=True) as rec:
        warnings.simplefilter("always")
        try:
            ast.parse(text, mode="eval")
        except BaseException:  # noqa: BLE001 - not an expression
            pass
    return sorted({w.category.__name__ for w in rec})


def gen_warn_case(r):
    """-> segment case (as gen_case) + "family": "warning-text", "cls", "shape", "route"."""
    data = {}
    nv = [0]

    def newvar(recipe):
        nv[0] += 1
        n = f"v{nv[0]}"
        data[n] = recipe
        return n

    def cut(text, ncuts):
        cuts = sorted(r.sample(range(len(text) + 1), min(len(text) + 1, ncuts)))
        parts = [text[a:b] for a, b in zip([0] + cuts, cuts + [len(text)])]
        segs = []
        for j, part in enumerate(parts):
            if not part:
                continue
            if (j + r.randrange(2)) % 2 or "{{" in part or "{%" in part or "{#" in part \
                    or part.endswith("{"):
                segs.append(["var", newvar(["str", part]), ""])
            else:
                segs.append(["data", part])
        return segs

    if r.random() < 0.12:
        text = r.choice(ODD_TEXTS)
        route = r.choice(["string-node", "cut"])
        segs = [["var", newvar(["str", text]), ""]] if route == "string-node" else \
            cut(text, r.randint(1, 3))
        return {"family": "warning-text", "cls": "number-keyword-adjacency", "shape": "scalar",
                "route": route, "segs": segs, "data": data}
    cls = r.choice(ESC_CLASSES)
    content = r.choice(ESC_CONTENTS[cls])
    q = r.choice(ESC_QUOTES)
    prefix = r.choice(["", "", "", "", "b", "r", "u"])
    if prefix == "b" and not content.isascii():
        prefix = ""
    shape, pattern = r.choice(ESC_SHAPES)
    lit = prefix + q + content + q
    text = pattern.replace("S", lit)
    route = r.choice(["string-node", "cut", "cut", "quoted-variable", "quoted-variable",
                      "loop-join"])
    if route == "string-node":
        segs = [["var", newvar(["str", text]), ""]]
    elif route == "cut":
        segs = cut(text, r.randint(1, 4))
    elif route == "quoted-variable":
        # the structure is template data, the contents of the string literal are a variable
        segs = []
        parts = pattern.split("S")
        for j, part in enumerate(parts):
            if part:
                segs.append(["data", part])
            if j + 1 < len(parts):
                segs.append(["data", prefix + q])
                segs.append(["var", newvar(["str", content]), ""])
                segs.append(["data", q])
    else:
        # [{% for item in xs %}{{ item }}, {% endfor %}] over quoted items
        items = [["str", lit], ["str", "'x'"]]
        if r.random() < 0.5:
            items.reverse()
        shape = "list"
        segs = [["data", "["], ["for", newvar(["list", items]), ", "], ["data", "]"]]
    return {"family": "warning-text", "cls": cls, "shape": shape, "route": route,
            "segs": segs, "data": data}


def check_warn_text(ctx, mode, case, src, pieces, got, rec):
    """NativeTemplate.render: 'the nodes are concatenated as strings. If the result can be parsed
    with ast.literal_eval, the parsed value is returned. Otherwise, the string is returned.' -
    for texts at which Python's parser emits a warning (unrecognised backslash escapes in a
    string literal, a number directly followed by a keyword) exactly as for any other text."""
    text = "".join(str(p[1]) for p in pieces)
    cls = case["cls"]
    ctx.count("warn_text_cases")
    ctx.count("warn_text:" + cls)
    ctx.count("warn_text_route:" + case["route"])
    cats = parse_warnings(text)
    if "\\" in text:
        ctx.count("warn_text_with_backslash")
    if cats:
        ctx.count("warn_text_python_warns_while_parsing")
    exp_kind = judge_text(ctx, mode, src, text, got, rec,
                          keypfx=f"{mode}:text-with-{cls}" +
                          (":python-parser-warns" if cats else ""))
    if cats and exp_kind.startswith("literal"):
        ctx.count("warn_text_python_warns_and_text_is_a_literal")
    ctx.dist((mode, "warning-text", cls, case["shape"], case["route"], cats, exp_kind))


def judge_text(ctx, mode, src, text, got, rec, keypfx=None):
    """The 'any other template' rule: literal value of the text if it parses, else the text."""
    keypfx = keypfx or mode
    kind, v, alt = literal_or_text(text)
    exp_kind = kind if kind != "literal" else "literal:" + type(v).__name__
    if kind == "either":
        ctx.count("leading_blank_either")
        # v is the text (any str equal to it), alt its literal value if it has one
        if not ((isinstance(got, str) and got == v) or same(got, alt)):
            ctx.violation(f"{keypfx}:leading-blank-neither",
                          f"{mode}: {src!r}: text {text!r} -> got {got!r}", rec)
    elif kind == "literal":
        ctx.count("literal_results")
        if not same(got, v):
            ctx.violation(f"{keypfx}:literal-mismatch:{type(v).__name__}",
                          f"{mode}: {src!r}: text {text!r} is the literal {v!r} but got "
                          f"{type(got).__name__} {got!r}", rec)
    else:
        ctx.count("text_results")
        # the text itself: any str (Markup is a str) equal to it
        if not (isinstance(got, str) and got == v):
            ctx.violation(f"{keypfx}:text-mismatch:{_textclass(text)}",
                          f"{mode}: {src!r}: text {text!r} is not a literal but got "
                          f"{type(got).__name__} {got!r}", rec)
    return exp_kind


def _textclass(text):
    try:
        ast.literal_eval(text)
        return "literal"
    except BaseException as e:  # noqa: BLE001
        return "literal_eval-" + type(e).__name__


def _deep(x):
    if isinstance(x, list):
        return [_deep(y) for y in x]
    return x


# ---------------------------------------------------------------- producers
def gen_producer_case(r):
    name, _fn, inputs = r.choice(PRODUCERS)
    multi = r.random() < 0.2
    return {"prod": name, "inp": r.randrange(len(inputs)), "literal": r.random() < 0.6,
            "via": r.choice(["filter", "filter", "global"]), "wrap": r.randrange(len(WRAPPERS)),
            "pre": r.choice(["x", "[", "1", " "]) if multi and r.random() < 0.6 else "",
            "post": r.choice(["]", " ", "0", "y"]) if multi and r.random() < 0.6 else ""}


def check_producer(ctx, mode, case):
    """A single expression built from a custom filter / global (c34_<name>) applied to a
    template literal or to a variable: the template's only node is the computed object."""
    name, fn, inputs = _PROD[case["prod"]]
    lit, pyval = inputs[case["inp"]]
    wname, wsrc, wfn, wok = WRAPPERS[case["wrap"]]
    exp = fn(pyval)
    if wok is not None and not wok(exp):
        wname, wsrc, wfn = "plain", "E", (lambda x: x)
    exp = wfn(exp)
    arg = "(" + lit + ")" if case["literal"] else "v"
    e = f"{arg}|c34_{name}" if case["via"] == "filter" else f"c34_{name}({arg})"
    src = case["pre"] + "{{ " + wsrc.replace("E", e) + " }}" + case["post"]
    values = {} if case["literal"] else {"v": pyval}
    inkind = "literal-input" if case["literal"] else "variable-input"
    rec = {"kind": "producer", "mode": mode, "case": case, "src": src}
    ctx.ev()
    ctx.count("mode:" + mode)
    ctx.count("producer_checks")
    ctx.count("producer_" + inkind.replace("-", "_"))
    try:
        got = do_render(mode, src, values)
    except BaseException as ex:  # noqa: BLE001
        ctx.violation(f"{mode}:raises:{type(ex).__name__}:computed:{inkind}:{name}",
                      f"{mode} of {src!r} with {values} raised {type(ex).__name__}: "
                      f"{str(ex)[:200]}", rec)
        return
    single = not case["pre"] and not case["post"]
    if single and not isinstance(exp, str):
        ctx.count("producer_single_nonstring")
        if type(exp) not in (int, float, bool, list, tuple, dict, set, type(None), complex):
            ctx.count("producer_single_subclass_or_object")
        exp_kind = "value"
        if not same(got, exp):
            if isinstance(got, str):
                how = "became-text"
            elif type(got) is not type(exp):
                how = "came-back-as-" + type(got).__name__
            else:
                how = "value-differs"
            ctx.violation(f"computed-single-node:{inkind}:{name}:{how}",
                          f"{mode}: {src!r} with {values}: the only node is the "
                          f"{type(exp).__name__} {exp!r} but the template returned "
                          f"{type(got).__name__} {got!r}", rec)
    else:
        exp_kind = judge_text(ctx, mode, src, case["pre"] + str(exp) + case["post"], got, rec,
                              keypfx=f"{mode}:computed:{inkind}")
    ctx.dist((mode, "producer", name, inkind, case["via"], wname, single, exp_kind))


def check_builtin_producers(ctx, mode):
    """Builtin filters documented to return namedtuples (groupby: 'namedtuple of
    (grouper, list)'), Markup, ...: value = what the filter returns for that input
    (Environment.call_filter of the sync environment)."""
    rows = [("groupby", [{"k": 1, "n": "a"}, {"k": 2, "n": "b"}, {"k": 1, "n": "c"}],
             "[{'k': 1, 'n': 'a'}, {'k': 2, 'n': 'b'}, {'k': 1, 'n': 'c'}]", ["k"], "'k'"),
            ("groupby", [{"k": 1}], "[{'k': 1}]", ["k"], "'k'"),
            ("dictsort", {"b": 1, "a": 2}, "{'b': 1, 'a': 2}", [], ""),
            ("batch", [1, 2, 3], "[1, 2, 3]", [2], "2"),
            ("items", {"a": 1}, "{'a': 1}", [], "")]
    for fname, pyval, lit, args, argsrc in rows:
        for literal in (True, False):
            for wsrc, wfn in (("E", lambda x: x), ("(E)|list", list), ("[(E)|list, 1]", lambda x: [list(x), 1])):
                exp = wfn(get_env("sync.render").call_filter(fname, pyval, list(args)))
                e = (lit if literal else "v") + "|" + fname + (f"({argsrc})" if argsrc else "")
                src = "{{ " + wsrc.replace("E", e) + " }}"
                inkind = "literal-input" if literal else "variable-input"
                rec = {"kind": "builtin-producers", "mode": mode, "src": src}
                ctx.ev()
                ctx.count("mode:" + mode)
                ctx.count("builtin_producer_checks")
                try:
                    got = do_render(mode, src, {} if literal else {"v": pyval})
                    if not isinstance(exp, (list, tuple)):
                        # lazily evaluated results: compare the items
                        exp, got = list(exp), list(got)
                except BaseException as ex:  # noqa: BLE001
                    ctx.violation(f"{mode}:raises:{type(ex).__name__}:computed:{inkind}:{fname}",
                                  f"{mode} of {src!r} raised {type(ex).__name__}: {str(ex)[:200]}", rec)
                    continue
                if not same(got, exp):
                    ctx.violation(f"computed-single-node:{inkind}:{fname}:differs-from-filter-result",
                                  f"{mode}: {src!r}: the filter returns {_typed(exp)} but the "
                                  f"template returned {_typed(got)}", rec)
                ctx.dist((mode, "builtin-producer", fname, inkind, wsrc))


def _typed(v):
    if isinstance(v, (list, tuple)):
        return f"{type(v).__name__}[" + ", ".join(_typed(x) for x in v) + "]"
    return f"{type(v).__name__}:{v!r}"


# ------------------------------------------------------------------- blocks
BLOCK_SHAPES = ["block", "extends", "override", "super", "super", "super2", "super-set", "self-set",
                "self-print", "self-child", "self-child-override"]


def native_outcomes(vals):
    """The documented rule on a list of output values -> acceptable results."""
    if len(vals) == 1 and not isinstance(vals[0], str):
        return [vals[0]]
    kind, v, alt = literal_or_text("".join(str(x) for x in vals))
    return [v, alt] if kind == "either" else [v]


def gen_block_case(r):
    data = {}
    nv = [0]

    def newvar(recipe):
        nv[0] += 1
        n = f"v{nv[0]}"
        data[n] = recipe
        return n

    def body():
        k = r.random()
        if k < 0.45:
            return [["var", newvar(gen_value(r)), ""]]
        out = []
        for _ in range(r.choice([1, 2, 2, 3])):
            if r.random() < 0.6:
                out.append(["var", newvar(gen_value(r)), ""])
            else:
                out.append(["data", r.choice(DATA)])
        return out

    def edge():
        k = r.random()
        if k < 0.6:
            return []
        return [r.choice([["comment"], ["set", newvar(["int", 1])], ["data", r.choice(DATA)]])]

    def side():
        return r.choice(["", "", "", "[", "]", "x", " ", "1", "'"])

    return {"shape": r.choice(BLOCK_SHAPES), "b1": body(), "b2": body(), "pre": edge(),
            "post": edge(), "L": side(), "R": side(), "data": data}


def build_block_case(case, values):
    """-> (templates, acceptable results as a list or None when there is no output,
    block output values that went through super()/self.x())"""
    def real(segs):
        src, flat = realize(segs, values)
        return src, [p[1] for p in expected_from_flat(flat)]

    sh = case["shape"]
    b1s, b1 = real(case["b1"])
    b2s, b2 = real(case["b2"])
    pres, pre = real(case["pre"])
    posts, post = real(case["post"])
    L, R = case["L"], case["R"]
    # a data '{' must not meet the '{' of the following tag
    Ls = L + " " if L.endswith("{") else L
    lr = lambda mid: ([Ls] if Ls else []) + [mid] + ([R] if R else [])  # noqa: E731
    blk = lambda n, bs: "{% block " + n + " %}" + bs + "{% endblock %}"  # noqa: E731
    base = pres + blk("v", b1s) + posts
    T = {}
    through = None
    if sh == "block":
        T["main"] = base
        tops = [pre + b1 + post]
    elif sh == "extends":
        T["base"] = base
        T["main"] = "{% extends 'base' %}"
        tops = [pre + b1 + post]
    elif sh == "override":
        T["base"] = base
        T["main"] = "{% extends 'base' %}" + blk("v", b2s)
        tops = [pre + b2 + post]
    elif sh in ("super", "super-set"):
        T["base"] = base
        inner = "{{ super() }}" if sh == "super" else "{% set s = super() %}{{ s }}"
        T["main"] = "{% extends 'base' %}" + blk("v", Ls + inner + R)
        through = b1
        tops = [pre + lr(S) + post for S in native_outcomes(b1)] if b1 else None
    elif sh == "super2":
        T["base"] = base
        T["mid"] = "{% extends 'base' %}" + blk("v", "{{ super() }}")
        T["main"] = "{% extends 'mid' %}" + blk("v", Ls + "{{ super() }}" + R)
        through = b1
        tops = [pre + lr(S2) + post for S in native_outcomes(b1) for S2 in native_outcomes([S])] \
            if b1 else None
    elif sh == "self-set":
        T["main"] = base + "{% set again = self.v() %}"
        through = b1
        tops = [pre + b1 + post]
    elif sh == "self-print":
        T["main"] = base + Ls + "{{ self.v() }}" + R
        through = b1
        tops = [pre + b1 + post + lr(S) for S in native_outcomes(b1)] if b1 else None
    elif sh in ("self-child", "self-child-override"):
        T["base"] = pres + "{% block v %}{% endblock %}" + blk("w", b1s) + posts
        T["main"] = "{% extends 'base' %}" + blk("v", Ls + "{{ self.w() }}" + R)
        w = b1
        if sh == "self-child-override":
            T["main"] += blk("w", b2s)
            w = b2
        through = w
        tops = [pre + lr(S) + w + post for S in native_outcomes(w)] if w else None
    else:
        raise AssertionError(sh)
    if tops is None or not all(tops):
        return T, None, through
    return T, tops, through


def accept(got, o):
    if isinstance(o, str):
        return isinstance(got, str) and got == o
    return got is o or same(got, o)


def check_block_case(ctx, mode, case):
    values = {k: make_value(v) for k, v in case["data"].items()}
    T, tops, through = build_block_case(case, values)
    sh = case["shape"]
    ctx.ev()
    ctx.count("mode:" + mode)
    rec = {"kind": "blocks", "mode": mode, "case": case, "templates": T}
    if tops is None:
        ctx.count("empty_output_not_checked")
        return
    ctx.count("block_checks")
    nonstr = through is not None and any(not isinstance(x, str) for x in through)
    if through is not None:
        ctx.count("block_super_checks" if sh.startswith("super") else "block_self_checks")
        if nonstr:
            ctx.count("block_reference_nonstring_output")
    tag = "super" if sh.startswith("super") else "self" if sh.startswith("self") else "plain"
    try:
        got = do_render(mode, "main", values, templates=T)
    except BaseException as e:  # noqa: BLE001
        ctx.violation(f"{mode}:block-{tag}:raises:{type(e).__name__}:"
                      + ("nonstring-block-output" if nonstr else "text-block-output"),
                      f"{mode} of templates {T} with {case['data']} raised {type(e).__name__}: "
                      f"{str(e)[:200]}", rec)
        return
    outs = []
    for top in tops:
        outs += native_outcomes(top)
    # one non-string node that is one of the objects handed to render (not a value the
    # rule itself computed from a block's text)
    single = len(tops) == 1 and len(tops[0]) == 1 and not isinstance(tops[0][0], str) and \
        any(tops[0][0] is x for x in values.values())
    if single:
        ctx.count("identity_checks")
        ctx.count("block_identity_checks")
        if got is not tops[0][0]:
            ctx.violation(f"{mode}:block-{tag}:single-node-not-identity:{type(tops[0][0]).__name__}",
                          f"{T}: single non-string node {tops[0][0]!r} came back as "
                          f"{type(got).__name__} {got!r}", rec)
    elif not any(accept(got, o) for o in outs):
        ctx.violation(f"{mode}:block-{tag}:mismatch:" + ("str" if isinstance(outs[0], str) else "literal"),
                      f"{T} with {case['data']}: documented result {outs[0]!r}"
                      f"{' (or ' + repr(outs[1:]) + ')' if len(outs) > 1 else ''} but got "
                      f"{type(got).__name__} {got!r}", rec)
    ctx.dist((mode, "blocks", sh, [type(x).__name__ for x in (through or [])][:3],
              "identity" if single else type(outs[0]).__name__, len(tops[0])))


# ---------------------------------------------------------------- histories
# One text, many renderings: the value a rendering returns belongs to the
# caller, who may modify it; every later rendering (same template, another
# template producing the same text, another mode, another environment) still
# returns the literal value of ITS text as a new object.
HIST_ROUTES = ["cut", "cut", "cut2", "string-node", "loop-join", "block-super", "block-self-set"]
HIST_MODES = MODES + ["async.gather"]


def gen_hist_value(r, depth=0, top=True):
    """recipe of a literal value; the top level is (or holds) a list / dict / set."""
    def scalar():
        k = r.randrange(7)
        if k == 0:
            return ["str", r.choice(["a", "x y", "1", "", "é", "it's"])]
        if k == 1:
            return ["float", r.choice([1.5, -2.25, 0.0])]
        if k == 2:
            return r.choice([["bool", True], ["none"]])
        return ["int", r.choice([0, 1, 2, 3, 7, 42, -5])]

    def item():
        if depth < 2 and r.random() < 0.35:
            return gen_hist_value(r, depth + 1, False)
        return scalar()

    k = r.randrange(10) if not top else r.randrange(9)
    if k <= 3:
        return ["list", [item() for _ in range(r.randrange(0 if depth else 1, 4))]]
    if k <= 5:
        return ["dict", [[key, item()] for key in r.sample(["a", "b", "k 1", "tags"], r.randrange(1, 3))]]
    if k == 6:
        return ["set", [["int", i] for i in r.sample(range(6), r.randrange(1, 4))]]
    if k <= 8:
        # an immutable outside with a mutable inside
        return ["tuple", [scalar(), ["list", [item() for _ in range(r.randrange(3))]]]
                + ([["dict", [["k", item()]]]] if r.random() < 0.4 else [])]
    return ["tuple", [scalar() for _ in range(r.randrange(3))]]


def _cut(r, text, ncuts):
    """text cut into data / variable pieces -> (segments, data)"""
    data = {}
    cuts = sorted(r.sample(range(len(text) + 1), min(len(text) + 1, ncuts)))
    parts = [text[a:b] for a, b in zip([0] + cuts, cuts + [len(text)])]
    segs = []
    flip = r.randrange(2)
    for j, part in enumerate(parts):
        if not part:
            continue
        if (j + flip) % 2 or "{{" in part or "{%" in part or "{#" in part or part.endswith("{"):
            n = f"p{len(data) + 1}"
            if part.isdigit() and not (len(part) > 1 and part.startswith("0")) and r.random() < 0.7:
                data[n] = ["int", int(part)]
            else:
                data[n] = ["str", part]
            segs.append(["var", n, ""])
        else:
            segs.append(["data", part])
    if not any(s[0] == "var" for s in segs):
        segs.append(["var", "pe", ""])
        data["pe"] = ["str", ""]
    if len(segs) == 1:
        segs.append(["comment"])
    return segs, data


def gen_hist_case(r):
    recipe = gen_hist_value(r)
    text = repr(make_value(recipe))
    routes = []
    for _ in range(r.randint(2, 3)):
        route = r.choice(HIST_ROUTES)
        if route == "loop-join" and recipe[0] != "list":
            route = "cut"
        if route in ("cut", "cut2"):
            segs, data = _cut(r, text, r.randint(1, 3))
            routes.append({"route": route, "segs": segs, "data": data})
        elif route == "string-node":
            routes.append({"route": route, "segs": [["var", "s", ""]], "data": {"s": ["str", text]}})
        elif route == "loop-join":
            routes.append({"route": route, "sep": r.choice([", ", ","])})
        else:
            segs, data = _cut(r, text, r.randint(1, 2))
            routes.append({"route": route, "segs": segs, "data": data})
    steps = []
    for _ in range(r.randint(4, 7)):
        steps.append({"t": r.randrange(len(routes)), "mode": r.choice(HIST_MODES),
                      "fresh_env": r.random() < 0.2, "mutate": r.random() < 0.85,
                      "mseed": r.randrange(10 ** 6)})
    # at least one plain repetition of an earlier (template, mode) after a mutation
    steps[0]["mutate"] = True
    steps.append(dict(steps[0], fresh_env=False, mseed=r.randrange(10 ** 6)))
    return {"recipe": recipe, "routes": routes, "steps": steps}


def mutable_containers(v, out=None):
    """every list / dict / set reachable from a result, in traversal order"""
    out = [] if out is None else out
    if isinstance(v, (list, dict, set)):
        out.append(v)
    if isinstance(v, (list, tuple)):
        for x in v:
            mutable_containers(x, out)
    elif isinstance(v, dict):
        for x in v.values():
            mutable_containers(x, out)
    return out


def mutate_result(v, mseed):
    """What a caller does with a value it owns: one visible modification of one reachable
    container.  -> (container type name, operation, nested?) or None."""
    import random

    r = random.Random(mseed)
    cs = mutable_containers(v)
    if not cs:
        return None
    i = r.randrange(len(cs))
    c = cs[i]
    if isinstance(c, list):
        op = r.choice(["append", "append", "extend", "setitem", "clear", "pop", "insert"])
        if not c and op in ("setitem", "clear", "pop"):
            op = "append"
        if op == "append":
            c.append(99)
        elif op == "extend":
            c.extend(["extra", [0]])
        elif op == "setitem":
            c[r.randrange(len(c))] = "changed"
        elif op == "clear":
            c.clear()
        elif op == "pop":
            c.pop()
        else:
            c.insert(0, None)
    elif isinstance(c, dict):
        op = r.choice(["setitem-new", "setitem-new", "overwrite", "clear", "pop", "update"])
        if not c and op in ("overwrite", "clear", "pop"):
            op = "setitem-new"
        if op == "setitem-new":
            c["added"] = True
        elif op == "overwrite":
            c[next(iter(c))] = "changed"
        elif op == "clear":
            c.clear()
        elif op == "pop":
            c.pop(next(iter(c)))
        else:
            c.update(zz=[1])
    else:
        op = r.choice(["add", "add", "discard", "clear"])
        if not c and op != "add":
            op = "add"
        if op == "add":
            c.add(777)
        elif op == "discard":
            c.discard(sorted(c)[0])
        else:
            c.clear()
    return type(c).__name__, op, i > 0


class _History:
    """compiled templates of one history, per (route index, environment key, generation)"""

    def __init__(self, case):
        self.case = case
        self.value = make_value(case["recipe"])
        self.text = repr(self.value)
        self.tpls = {}
        self.envs = {}
        self.gen = {}

    def env(self, key, fresh, loader_templates, ti):
        if fresh:
            self.gen[key] = self.gen.get(key, 0) + 1
        g = self.gen.get(key, 0)
        k = (key, g, ti if loader_templates else None)
        if k not in self.envs:
            if loader_templates is None and g == 0:
                self.envs[k] = get_env(key)
            else:
                from jinja2 import DictLoader

                self.envs[k] = make_env(key, DictLoader(dict(loader_templates))
                                        if loader_templates else None)
        return self.envs[k], g

    def template(self, ti, mode, fresh):
        rt = self.case["routes"][ti]
        key = mode.split(".")[0]
        route = rt["route"]
        values = {}
        T = None
        if route == "loop-join":
            src = ("{% for x in xs %}{{ '[' if loop.first }}{{ x }}{{ '" + rt["sep"]
                   + "' if not loop.last else ']' }}{% endfor %}")
            values = {"xs": [repr(x) for x in self.value]}
        else:
            values = {k: make_value(v) for k, v in rt["data"].items()}
            body, _flat = realize(rt["segs"], values)
            if route == "block-super":
                T = {"base": "{% block v %}" + body + "{% endblock %}",
                     "main": "{% extends 'base' %}{% block v %}{{ super() }}{% endblock %}"}
            elif route == "block-self-set":
                T = {"main": "{% if false %}{% block w %}" + body + "{% endblock %}{% endif %}"
                             "{% set a = self.w() %}{{ a }}"}
            else:
                src = body
        env, g = self.env(key, fresh, T, ti)
        ck = (ti, key, g)
        if ck not in self.tpls:
            self.tpls[ck] = env.get_template("main") if T else env.from_string(src)
        return self.tpls[ck], values, (T or src), g


def _hist_render(t, mode, values):
    """-> list of results (two for async.gather)"""
    if mode == "async.render_async":
        return [asyncio.run(t.render_async(**values))]
    if mode == "async.gather":
        async def both():
            return list(await asyncio.gather(t.render_async(**values), t.render_async(**values)))

        return asyncio.run(both())
    return [t.render(**values)]


def check_history(ctx, case):
    h = _History(case)
    text = h.text
    rec = {"kind": "history", "case": case}
    ctx.count("history_cases")
    earlier = []   # (result kept alive, step index, route index, env key, generation, mode)
    seen = {}      # id(container) -> index into earlier
    keep = []      # every container ever seen stays alive: ids are never reused
    mutated = False
    shape = []
    for si, st in enumerate(case["steps"]):
        mode = st["mode"]
        ti = st["t"]
        route = case["routes"][ti]["route"]
        try:
            t, values, src, g = h.template(ti, mode, st["fresh_env"])
            results = _hist_render(t, mode, values)
        except BaseException as e:  # noqa: BLE001
            ctx.violation(f"history:raises:{type(e).__name__}:{route}",
                          f"history over text {text!r}: step {si} ({mode}, route {route}) raised "
                          f"{type(e).__name__}: {str(e)[:200]}", rec)
            return
        ekey = mode.split(".")[0]
        for got in results:
            ctx.ev()
            ctx.count("history_renders")
            ctx.count("history_mode:" + mode)
            ctx.count("history_route:" + route)
            want = ast.literal_eval(text)   # what an isolated first rendering returns
            if mutated:
                ctx.count("history_renders_after_caller_mutation")
            # relation of this rendering to the earlier ones
            rels = set()
            for (_r, _si, eti, eenv, eg, emode) in earlier:
                if eenv != ekey or eg != g:
                    rels.add("other-environment")
                elif eti == ti:
                    rels.add("same-template")
                else:
                    rels.add("other-template")
            for rel in rels:
                ctx.count("history_after:" + rel)
            if any(emode.startswith("async") != mode.startswith("async") for *_x, emode in earlier):
                ctx.count("history_sync_async_mix")
            cs = mutable_containers(got)
            shared = None
            for c in cs:
                ctx.count("history_identity_checks")
                if id(c) in seen and shared is None:
                    shared = (c, earlier[seen[id(c)]])
            ok = same(got, want)
            if shared is not None:
                c, (_r, esi, eti, eenv, eg, emode) = shared
                rel = ("other-environment" if (eenv != ekey or eg != g) else
                       "same-template" if eti == ti else "other-template")
                ctx.violation(
                    f"history:result-shares-container-with-earlier-result:{rel}:{type(c).__name__}",
                    f"text {text!r}: step {si} ({mode}, route {route}, {src!r}) returned a value whose "
                    f"{type(c).__name__} is the very object returned by step {esi} ({emode}, route "
                    f"{case['routes'][eti]['route']}); current value {got!r}, literal value of the "
                    f"text {want!r}", rec)
            if not ok:
                ctx.violation(
                    f"history:literal-mismatch-after-caller-modified-earlier-result:{type(want).__name__}"
                    if mutated else f"history:literal-mismatch:{type(want).__name__}",
                    f"text {text!r}: step {si} ({mode}, route {route}, {src!r}) returned "
                    f"{type(got).__name__} {got!r}, the literal value of its text is {want!r} "
                    f"(earlier results had been modified by their caller: {mutated})", rec)
            if shared is not None or not ok:
                return
            idx = len(earlier)
            earlier.append((got, si, ti, ekey, g, mode))
            keep.append(cs)
            for c in cs:
                seen[id(c)] = idx
            if st["mutate"]:
                m = mutate_result(got, st["mseed"] + idx)
                if m is not None:
                    mutated = True
                    ctx.count("history_mutations")
                    ctx.count("history_mutation:" + m[0] + "." + m[1])
                    if m[2]:
                        ctx.count("history_nested_mutations")
        shape.append((mode, route))
    ctx.dist(("history", type(h.value).__name__, [type(c).__name__ for c in
                                                   mutable_containers(h.value)][:4], shape))


# within ONE rendering: two references to the same block are two values
WITHIN = [
    ("self-twice", "{% if false %}{% block w %}[{{ x }}, 2]{% endblock %}{% endif %}"
                   "{% set a = self.w() %}{% set b = self.w() %}{% set _ = a.append(9) %}{{ b }}",
     None, [1, 2]),
    ("self-twice-pair", "{% if false %}{% block w %}{'k': [{{ x }}]}{% endblock %}{% endif %}"
                        "{% set a = self.w() %}{% set b = self.w() %}{% set _ = a['k'].append(9) %}"
                        "{{ [a, b] }}", None, [{"k": [1, 9]}, {"k": [1]}]),
    ("super-twice", "{% extends 'base' %}{% block v %}{% set a = super() %}{% set b = super() %}"
                    "{% set _ = a.append(9) %}{{ b }}{% endblock %}",
     "{% block v %}[{{ x }}, 2]{% endblock %}", [1, 2]),
    ("self-in-loop", "{% if false %}{% block w %}[{{ x }}]{% endblock %}{% endif %}"
                     "{% set ns = namespace(acc=[]) %}{% for i in range(3) %}{% set a = self.w() %}"
                     "{% set _ = a.append(i) %}{% set _ = ns.acc.append(a) %}{% endfor %}{{ ns.acc }}",
     None, [[1, 0], [1, 1], [1, 2]]),
]


def check_within(ctx, mode, i):
    name, main, base, want = WITHIN[i]
    T = {"main": main}
    if base:
        T["base"] = base
    rec = {"kind": "within", "mode": mode, "index": i, "templates": T}
    ctx.ev()
    ctx.count("mode:" + mode)
    ctx.count("history_within_render_checks")
    try:
        got = do_render(mode, "main", {"x": 1}, templates=T)
    except BaseException as e:  # noqa: BLE001
        ctx.violation(f"within-render:{name}:raises:{type(e).__name__}",
                      f"{mode} of {T} raised {type(e).__name__}: {str(e)[:200]}", rec)
        return
    if not same(got, want):
        ctx.violation(f"within-render:{name}:block-reference-values-not-independent",
                      f"{mode}: {T} with x=1: every self.w() / super() is the literal value of the "
                      f"block's text, expected {want!r}, got {got!r}", rec)
    ctx.dist((mode, "within", name))


# single-node constant expressions (value known without a model)
CONST_EXPRS = [
    ("{{ 1 + 2 }}", "eq", 3), ("{{ [1, 2] }}", "eq", [1, 2]), ("{{ (1, 2) }}", "eq", (1, 2)),
    ("{{ {'a': 1} }}", "eq", {"a": 1}), ("{{ none }}", "eq", None), ("{{ true }}", "eq", True),
    ("{{ 1.5 }}", "eq", 1.5), ("{{ 'a' }}", "eq", "a"), ("{{ '1' }}", "eq", 1),
    ("{{ \"'a'\" }}", "eq", "a"), ("{{ 2 ** 70 }}", "eq", 2 ** 70), ("{{ 1 / 2 }}", "eq", 0.5),
    ("{{ [1, 2]|reverse }}", "iter", [2, 1]), ("{{ (1, 2)|reverse }}", "iter", [2, 1]),
    ("{{ [1, 2]|batch(1) }}", "iter", [[1], [2]]), ("{{ [1, 2, 3]|slice(2) }}", "iter", [[1, 2], [3]]),
    ("{{ range(3) }}", "eq", range(3)), ("{{ [3, 1]|sort }}", "eq", [1, 3]),
    ("{{ {'b': 1}|dictsort }}", "eq", [("b", 1)]), ("{{ 'a,b'.split(',') }}", "eq", ["a", "b"]),
    ("{{ [1, 2]|map('string') }}", "iter", ["1", "2"]), ("{{ {'a': 1}.items() }}", "iter", [("a", 1)]),
    ("{{ 'abc'|reverse }}", "eq", "cba"), ("{{ [1, 2]|length }}", "eq", 2),
    ("{{ [1, 2]|first }}", "eq", 1), ("{{ 'a'|upper }}", "eq", "A"), ("{{ 3 > 2 }}", "eq", True),
    ("{{ x + y }}", "eq", 6), ("{{ x * 1.0 }}", "eq", 4.0), ("{{ [x, y] }}", "eq", [4, 2]),
    ("{{ (x, y)|list }}", "eq", [4, 2]), ("{{ x is even }}", "eq", True),
    ("{%- macro m() -%}{{- [1, 2] -}}{%- endmacro -%}{{- m()[1] -}}", "eq", 2),
    ("{% set q = [1, 2] %}{{ q }}", "eq", [1, 2]), ("{{ x }}{# c #}", "eq", 4),
    ("[{% for item in data %}{{ item + 1 }},{% endfor %}]", "eq", [1, 2, 3, 4, 5]),
    ("{{ x }} * {{ y }}", "eq", "4 * 2"), ("0.000{{ a7 }}", "eq", 0.0007),
    ("--host='{{ host }}' --user \"{{ user }}\"", "eq", "--host='localhost' --user \"Jinja\""),
    # a single node whose (constant-folded) value is a float without a literal
    # form: still "a single non-string value".  4th field = mechanism label
    # (mode-independent key)
    ("{{ 'inf'|float }}", "eq", math.inf, "folded-nonfinite-float-becomes-text"),
    ("{{ 1e999 }}", "eq", math.inf, "folded-nonfinite-float-becomes-text"),
    ("{{ 'nan'|float }}", "eq", math.nan, "folded-nonfinite-float-becomes-text"),
    ("{{ [1e999, 1] }}", "eq", [math.inf, 1], "folded-nonfinite-float-becomes-text"),
    ("{{ x * 1e999 }}", "eq", math.inf), ("{{ inf_s|float }}", "eq", math.inf),
]
CONST_DATA = {"x": 4, "y": 2, "a7": 7, "host": "localhost", "user": "Jinja", "inf_s": "inf"}


def check_const(ctx, mode, i):
    src, how, exp = CONST_EXPRS[i][:3]
    label = CONST_EXPRS[i][3] if len(CONST_EXPRS[i]) > 3 else None
    values = dict(CONST_DATA, data=range(5))
    ctx.ev()
    ctx.count("const_expr_checks")
    ctx.count("mode:" + mode)
    rec = {"kind": "const", "mode": mode, "index": i, "src": src}
    try:
        got = do_render(mode, src, values)
    except BaseException as e:  # noqa: BLE001
        key = f"{mode}:raises:{type(e).__name__}:const-expr"
        ctx.violation(key, f"{mode} of {src!r} raised {type(e).__name__}: {str(e)[:200]}", rec)
        return
    if how == "eq":
        ok = same(got, exp)
    elif hasattr(got, "__aiter__") and mode.startswith("async"):
        # async-enabled environments may hand out the async variant of a filter
        async def collect():
            return [x async for x in got]

        ok = asyncio.run(collect()) == exp
    else:
        ok = not isinstance(got, (str, list, tuple)) and hasattr(got, "__iter__") and \
            [list(x) if not isinstance(x, (str, int, tuple)) else x for x in got] == exp
    if not ok:
        ctx.violation(f"const-expr:{label}" if label else f"{mode}:const-expr:{how}",
                      f"{mode}: {src!r}: expected {how} {exp!r}, got {type(got).__name__} {got!r}",
                      rec)
    ctx.dist((mode, "const", i))


def run(ctx):
    import warnings

    warnings.simplefilter("ignore")  # SyntaxWarning from literal_eval of odd texts
    quick = ctx.tier == "quick"
    idx = 0
    for mode in MODES:
        for i in range(len(CONST_EXPRS)):
            idx += 1
            if ctx.mine(idx):
                check_const(ctx, mode, i)
    for mode in MODES:
        idx += 1
        if ctx.mine(idx):
            check_builtin_producers(ctx, mode)
    for mode in MODES:
        for i in range(len(WITHIN)):
            idx += 1
            if ctx.mine(idx):
                check_within(ctx, mode, i)
    rng = ctx.rng("histories")
    t0 = ctx.elapsed()
    for i in range(45 if quick else 600):
        case = gen_hist_case(rng)
        check_history(ctx, case)
        if i < 2:
            ctx.sample({"history_text": repr(make_value(case["recipe"])), "routes": case["routes"],
                        "steps": case["steps"]})
        if not quick and ctx.elapsed() - t0 > ctx.budget_s * 0.06:
            ctx.count("histories_timeboxed")
            break
    rng = ctx.rng("producers")
    for i in range(110 if quick else 4000):
        case = gen_producer_case(rng)
        for mode in MODES:
            check_producer(ctx, mode, case)
        if not quick and ctx.elapsed() > ctx.budget_s * 0.2:
            ctx.count("producers_timeboxed")
            break
    rng = ctx.rng("blocks")
    for i in range(90 if quick else 4000):
        case = gen_block_case(rng)
        for mode in MODES:
            check_block_case(ctx, mode, case)
        if i < 2:
            ctx.sample({"templates": build_block_case(case, {k: make_value(v) for k, v in
                                                             case["data"].items()})[0],
                        "data": case["data"]})
        if not quick and ctx.elapsed() > ctx.budget_s * 0.4:
            ctx.count("blocks_timeboxed")
            break
    rng = ctx.rng("empties")
    for i in range(100 if quick else 5000):
        case = gen_empty_case(rng)
        for mode in MODES:
            check_case(ctx, mode, case)
        if i < 2:
            ctx.sample({"src": realize(case["segs"], {k: make_value(v) for k, v in
                                                      case["data"].items()})[0],
                        "data": case["data"]})
        if not quick and ctx.elapsed() > ctx.budget_s * 0.5:
            ctx.count("empties_timeboxed")
            break
    rng = ctx.rng("warning-texts")
    for i in range(70 if quick else 4000):
        case = gen_warn_case(rng)
        for mode in MODES:
            check_case(ctx, mode, case)
        if i < 2:
            ctx.sample({"src": realize(case["segs"], {k: make_value(v) for k, v in
                                                      case["data"].items()})[0],
                        "data": case["data"], "class": case["cls"]})
        if not quick and ctx.elapsed() > ctx.budget_s * 0.54:
            ctx.count("warning_texts_timeboxed")
            break
    rng = ctx.rng("cases")
    n_max = 700 if quick else 30000
    i = 0
    while ctx.more(i, n_max, 250):
        case = gen_case(rng)
        for mode in MODES:
            # the two secondary modes run on every second case
            if mode in ("async.render", "sandbox.render") and i % 2:
                continue
            check_case(ctx, mode, case)
        if i < 4:
            ctx.sample({"src": realize(case["segs"], {k: make_value(v) for k, v in
                                                      case["data"].items()})[0],
                        "data": case["data"]})
        i += 1


def replay(ctx, case):
    import warnings

    warnings.simplefilter("ignore")
    if case["kind"] == "const":
        check_const(ctx, case["mode"], case["index"])
    elif case["kind"] == "producer":
        check_producer(ctx, case["mode"], case["case"])
    elif case["kind"] == "builtin-producers":
        check_builtin_producers(ctx, case["mode"])
    elif case["kind"] == "blocks":
        check_block_case(ctx, case["mode"], case["case"])
    elif case["kind"] == "history":
        check_history(ctx, case["case"])
    elif case["kind"] == "within":
        check_within(ctx, case["mode"], case["index"])
    else:
        check_case(ctx, case["mode"], case["case"])
