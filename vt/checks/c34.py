"""C34 — NativeEnvironment rendering returns native values as documented
(docs/nativetypes.rst, NativeTemplate.render docstring): a single non-string
output node is returned itself; otherwise the pieces are concatenated as
strings and ast.literal_eval'd when that parses, else the text is returned.
Checked for render / render_async, sync and async-enabled environments."""
from __future__ import annotations

import ast
import asyncio
import decimal
import math

PID = "C34"
LEVEL = "exploration"
TECHNIQUE = "reference model (3 documented sentences) over generated segment templates and value recipes"
RULE = ("case = (mode, template built from segments [data | {{ name }} | for-loop over a list | "
        "if-block | set | comment], value recipe): the model lists the runtime output pieces; "
        "1 non-string piece -> identity; else text=''.join(str(p)) -> ast.literal_eval(text) if it "
        "parses else text (leading blank/tab: either accepted, docs silent; empty output not "
        "checked). modes: sync env render, async env render_async, async env render (sync), "
        "sandboxed-native render. Plus single-node constant expressions with a known value. "
        "distinct = distinct (mode, segment-kind sequence, value kinds, expected-result kind) with "
        ">=1 variable segment")
LEVEL_TEXT = ("held (modulo listed known findings) on K generated (template, data, mode) executions "
              "+ a 45-row table of constant expressions against the documented three-"
              "sentence model; values cover ints/floats/bools/None/containers/custom objects/"
              "literal-looking strings; not all templates")
ASSUMPTIONS = [
    "ast.literal_eval (named by the documentation) is the specification of 'parses as a literal'",
    "text with leading space/tab is accepted as either the text or its literal value (docs silent)",
    "templates never end in a newline and contain no \\r (newline normalisation is C12's subject)",
]
NSHARDS = {"quick": 16, "thorough": 16}
BUDGET_S = {"quick": 12, "thorough": 300}
FLOORS = {
    # both tiers are count-bounded on this machine: quick 33.8k evaluations /
    # 11.2k distinct, thorough 1.44M / 269k
    "quick": {"evaluations": 8000, "distinct": 2800,
              "counters": {"identity_checks": 2300, "literal_results": 2500, "text_results": 2900,
                           "mode:sync.render": 2700, "mode:async.render_async": 2700,
                           "mode:async.render": 1350, "mode:sandbox.render": 1350,
                           "const_expr_checks": 100}},
    "thorough": {"evaluations": 350000, "distinct": 65000,
                 "counters": {"identity_checks": 100000, "literal_results": 110000,
                              "text_results": 130000, "mode:sync.render": 120000,
                              "mode:async.render_async": 120000, "mode:async.render": 60000,
                              "mode:sandbox.render": 60000, "const_expr_checks": 100}},
}

MODES = ["sync.render", "async.render_async", "async.render", "sandbox.render"]


class Foo:
    def __init__(self, v):
        self.value = v

    def __repr__(self):
        return f"Foo({self.value!r})"


class StrIsLiteral:
    """non-string object whose str() looks like a literal"""

    def __init__(self, s):
        self.s = s

    def __str__(self):
        return self.s


def make_value(recipe):
    k = recipe[0]
    if k in ("int", "float", "str", "bool"):
        return recipe[1]
    if k == "none":
        return None
    if k == "nan":
        return math.nan
    if k == "inf":
        return math.inf
    if k == "list":
        return [make_value(x) for x in recipe[1]]
    if k == "tuple":
        return tuple(make_value(x) for x in recipe[1])
    if k == "set":
        return set(make_value(x) for x in recipe[1])
    if k == "dict":
        return {a: make_value(b) for a, b in recipe[1]}
    if k == "foo":
        return Foo(recipe[1])
    if k == "strobj":
        return StrIsLiteral(recipe[1])
    if k == "decimal":
        return decimal.Decimal(recipe[1])
    if k == "complex":
        return complex(recipe[1], recipe[2])
    if k == "bytes":
        return recipe[1].encode()
    if k == "markup":
        from markupsafe import Markup

        return Markup(recipe[1])
    if k == "range":
        return range(recipe[1])
    if k == "gen":
        return (i for i in range(recipe[1]))
    if k == "func":
        return len
    raise AssertionError(recipe)


STR_VALUES = ["1", "a", "'a'", '"b"', "[1, 2]", "{[1]: 2}", "{{1}}", " 1", "1 ", "", "\n1", "1\n",
              "True", "None", "1_000", "0x10", "1e3", "1.5", "-1", "+1", "1+2j", "1 + 2", "(1,)",
              "()", "{}", "{'a': 1}", "{1, 2}", "b'x'", "...", "x", "a b", "#", "1 # c", "é",
              "'é'", "\\", "'\\n'", "'''a'''", "f'a'", "-'a'", "[1, 2", "1,", "1, 2", "nan", "inf",
              "Foo(1)", "__import__('os')", "9" * 30, "0" * 5 + "1", "01", "1.", ".5", "1e999",
              "[[[[[[1]]]]]]", "{'a': [1, {2: (3,)}]}", "\t1", "  [1]", "lambda: 1", "1 if 1 else 2",
              "not 1", "-(1)", "- 1", "{**{}}", "[*()]", "\x00", "1\x00", "'a' 'b'", "'a'\n'b'"]
LITERALS = ["[1, 2, 3]", "{'a': 1, 'b': [2, 3]}", "(1, 'x', None)", "12345", "-7", "1.25", "1e3",
            "'hello world'", '"quo\'te"', "[[1], [2, [3]]]", "{1, 2}", "True", "None", "b'ab'",
            "{'k': (1, 2.5, 'v')}", "0x1f", "1_000", "[1,\n 2]", "( 1 , 2 )", "'a' 'b'", "1+2j",
            "[True, False, None]", "{}", "[]", "()", "''", "...", "{'a': {'b': {'c': [1]}}}",
            "3.0", "-0.0", "[1, 2, 3,]", "'é'", "'{x}'", "'%s'", "[1, [2, [3, [4, [5]]]]]"]
DATA = ["[", "]", "(", ")", "{", "}", ",", ", ", ":", ": ", "'", '"', " ", "\n", "\t", "1", "0", ".",
        "-", "+", "e", "_", "x", "True", "None", "False", "a", "b'", "#", "\\", "...", "j", "0x",
        "é", "[1, 2", "{'a': ", "{[1]: 2}", "1, 2", "0.000", "--host='", "' ", "''", "  ", "12",
        " * ", "1 + ", "(1,)", "{1: 2}", "{1}", "[]", "()", "\"\"\""]


def gen_value(r, depth=0):
    k = r.randrange(24)
    if k <= 3:
        return ["int", r.choice([0, 1, -1, 2, 7, 42, 10 ** 20, -5, 255])]
    if k <= 5:
        return ["float", r.choice([0.0, 1.5, -2.25, 1e20, 1e-7, 0.1, 3.0])]
    if k <= 9:
        return ["str", r.choice(STR_VALUES)]
    if k == 10:
        return ["bool", r.random() < 0.5]
    if k == 11:
        return ["none"]
    if k == 12:
        return [r.choice(["nan", "inf"])]
    if k in (13, 14) and depth < 2:
        return ["list", [gen_value(r, depth + 1) for _ in range(r.randrange(4))]]
    if k == 15 and depth < 2:
        return ["tuple", [gen_value(r, depth + 1) for _ in range(r.randrange(3))]]
    if k == 16:
        return ["set", [["int", i] for i in range(r.randrange(3))]]
    if k == 17 and depth < 2:
        return ["dict", [[r.choice(["a", "b", "c d", "1"]), gen_value(r, depth + 1)]
                         for _ in range(r.randrange(3))]]
    if k == 18:
        return ["foo", r.randrange(20)]
    if k == 19:
        return ["strobj", r.choice(["1", "[1]", "x", "'q'", " 2", "{[1]: 2}"])]
    if k == 20:
        return r.choice([["decimal", "1.50"], ["complex", 1, 2], ["bytes", "ab"], ["range", 3]])
    if k == 21:
        return ["markup", r.choice(["1", "<b>", "[1, 2]", "'a'"])]
    if k == 22:
        return r.choice([["gen", 2], ["func"]])
    return ["int", r.randrange(100)]


def gen_case(r):
    """-> {"segs": [...], "data": {name: recipe}}"""
    data = {}
    nv = [0]

    def newvar(recipe):
        nv[0] += 1
        n = f"v{nv[0]}"
        data[n] = recipe
        return n

    def seg(depth):
        k = r.random()
        if k < 0.36:
            return ["data", r.choice(DATA)]
        if k < 0.74:
            return ["var", newvar(gen_value(r)), r.choice(["", "", "-", "l", "r"])]
        if k < 0.82 and depth == 0:
            items = [gen_value(r, 1) for _ in range(r.randrange(4))]
            return ["for", newvar(["list", items]), r.choice([",", ", ", "", " "])]
        if k < 0.90 and depth == 0:
            flag = r.random() < 0.6
            return ["if", newvar(["bool", flag]), [seg(1) for _ in range(r.randint(1, 2))]]
        if k < 0.95:
            return ["set", newvar(gen_value(r))]
        return ["comment"]

    shape = r.random()
    if shape > 0.75:
        # a Python literal cut into data and variable pieces
        L = r.choice(LITERALS)
        cuts = sorted(r.sample(range(len(L) + 1), min(len(L) + 1, r.randint(1, 3))))
        parts = [L[a:b] for a, b in zip([0] + cuts, cuts + [len(L)])]
        segs = []
        for j, part in enumerate(parts):
            if not part:
                continue
            if (j + r.randrange(2)) % 2 or "{{" in part or "{%" in part or "{#" in part:
                if part.lstrip("-").isdigit() and not part.startswith("0") and r.random() < 0.7:
                    segs.append(["var", newvar(["int", int(part)]), ""])
                else:
                    segs.append(["var", newvar(["str", part]), ""])
            else:
                segs.append(["data", part])
        if r.random() < 0.2:
            segs.insert(r.randrange(len(segs) + 1), r.choice([["comment"], ["data", " "],
                                                              ["set", newvar(["int", 1])]]))
        return {"segs": segs, "data": data}
    if shape < 0.3:
        segs = [["var", newvar(gen_value(r)), r.choice(["", "-"])]]
        if r.random() < 0.3:
            segs.insert(r.randrange(2), r.choice([["comment"], ["set", newvar(gen_value(r))],
                                                  ["if", newvar(["bool", False]), [["data", "zz"]]]]))
        if r.random() < 0.2:
            segs = [["if", newvar(["bool", True]), segs]]
    else:
        segs = [seg(0) for _ in range(r.randint(1, 5))]
    return {"segs": segs, "data": data}


def realize(segs, values):
    """One pass over the segment tree -> (template source in default
    delimiters, flat model list of ["data", s] / ["val", v, ws] / ["tag"] in
    runtime order).  Template data appears as itself; each {{ }} is its value;
    a for loop repeats its body per item; a false if-block contributes
    nothing (documentation of the statements, docs/templates.rst)."""
    out = []

    def emit_src(s, flat, live):
        out.append(s)

    def walk(sl, flat, live):
        for sg in sl:
            k = sg[0]
            if k == "data":
                # never let a data '{' meet the '{' / '%' / '#' of what follows
                d = sg[1] + " " if sg[1].endswith("{") else sg[1]
                emit_src(d, flat, live)
                if live:
                    flat.append(["data", d])
            elif k == "var":
                ws = sg[2]
                emit_src("{{" + ("-" if ws in ("-", "l") else "") + " " + sg[1] + " " +
                         ("-" if ws in ("-", "r") else "") + "}}", flat, live)
                if live:
                    flat.append(["val", values[sg[1]], ws])
            elif k == "for":
                emit_src("{% for item in " + sg[1] + " %}{{ item }}" + sg[2] + "{% endfor %}",
                         flat, live)
                if live:
                    flat.append(["tag"])
                    for it in values[sg[1]]:
                        flat.append(["val", it, ""])
                        if sg[2]:
                            flat.append(["data", sg[2]])
                        flat.append(["tag"])
            elif k == "if":
                emit_src("{% if " + sg[1] + " %}", flat, live)
                if live:
                    flat.append(["tag"])
                walk(sg[2], flat, live and bool(values[sg[1]]))
                emit_src("{% endif %}", flat, live)
                if live:
                    flat.append(["tag"])
            elif k == "set":
                emit_src("{% set tmp = " + sg[1] + " %}", flat, live)
                if live:
                    flat.append(["tag"])
            elif k == "comment":
                emit_src("{# note #}", flat, live)
                if live:
                    flat.append(["tag"])

    flat = []
    walk(segs, flat, True)
    return "".join(out), flat


def expected_from_flat(flat):
    """Merge adjacent data, apply whitespace control ('-' strips the
    whitespace of the directly adjacent template data, docs/templates.rst
    'Whitespace Control'), drop empty data; -> list of pieces."""
    merged = []
    for f in flat:
        if f[0] == "data" and merged and merged[-1][0] == "data":
            merged[-1][1] += f[1]
        else:
            merged.append(list(f))
    n = len(merged)
    for i, f in enumerate(merged):
        if f[0] == "val" and f[2]:
            if f[2] in ("-", "l") and i > 0 and merged[i - 1][0] == "data":
                merged[i - 1][1] = merged[i - 1][1].rstrip()
            if f[2] in ("-", "r") and i + 1 < n and merged[i + 1][0] == "data":
                merged[i + 1][1] = merged[i + 1][1].lstrip()
    pieces = []
    for f in merged:
        if f[0] == "data":
            if f[1]:
                if pieces and pieces[-1][0] == "data":
                    pieces[-1][1] += f[1]
                else:
                    pieces.append(["data", f[1]])
        elif f[0] == "val":
            pieces.append(["val", f[1]])
    return pieces


def literal_or_text(text):
    """-> (kind, value, alt) kind in literal|text; alt: optional second accepted value."""
    def lit(s):
        try:
            return True, ast.literal_eval(s)
        except BaseException:  # noqa: BLE001 - "cannot be parsed" in any way
            return False, None

    if text[:1] in (" ", "\t"):
        ok, v = lit(text)
        return ("either", text, v if ok else text)
    ok, v = lit(text)
    return ("literal", v, None) if ok else ("text", text, None)


def same(a, b):
    """type-strict structural equality (nan-aware)."""
    if type(a) is not type(b):
        return False
    if isinstance(a, float):
        return (a != a and b != b) or a == b and math.copysign(1, a) == math.copysign(1, b)
    if isinstance(a, (list, tuple)):
        return len(a) == len(b) and all(same(x, y) for x, y in zip(a, b))
    if isinstance(a, dict):
        return list(map(repr, a.keys())) == list(map(repr, b.keys())) and \
            all(same(a[k], b[k]) for k in a)
    return a == b


_ENVS = {}


def get_env(mode):
    from jinja2.nativetypes import NativeEnvironment
    from jinja2.sandbox import SandboxedEnvironment

    key = mode.split(".")[0]
    if key not in _ENVS:
        if key == "sync":
            _ENVS[key] = NativeEnvironment(keep_trailing_newline=True)
        elif key == "async":
            _ENVS[key] = NativeEnvironment(keep_trailing_newline=True, enable_async=True)
        else:
            class SandboxedNativeEnvironment(SandboxedEnvironment, NativeEnvironment):
                pass

            _ENVS[key] = SandboxedNativeEnvironment(keep_trailing_newline=True)
    return _ENVS[key]


def do_render(mode, src, values):
    env = get_env(mode)
    t = env.from_string(src)
    if mode.endswith("render_async"):
        return asyncio.run(t.render_async(**values))
    return t.render(**values)


def kinds_of(pieces):
    out = []
    for p in pieces:
        if p[0] == "data":
            out.append("d")
        else:
            v = p[1]
            out.append(type(v).__name__)
    return out


def check_case(ctx, mode, case):
    segs = case["segs"]
    values = {k: make_value(v) for k, v in case["data"].items()}
    src, flat = realize(segs, values)
    pieces = expected_from_flat(flat)
    ctx.ev()
    ctx.count("mode:" + mode)
    rec = {"kind": "segments", "mode": mode, "case": case, "src": src}
    if not pieces:
        ctx.count("empty_output_not_checked")
        return
    try:
        got = do_render(mode, src, values)
    except BaseException as e:  # noqa: BLE001
        lit = "".join(str(p[1]) for p in pieces)
        single = len(pieces) == 1 and pieces[0][0] == "val" and not isinstance(pieces[0][1], str)
        tc = _textclass(lit)
        if not single and tc == "literal_eval-" + type(e).__name__:
            # the text is not a literal and literal_eval's own error escaped
            key = f"{tc}-propagates"
        else:
            key = f"{mode}:raises:{type(e).__name__}:" + ("single-node" if single else tc)
        ctx.violation(key, f"{mode} of {src!r} with {case['data']} raised {type(e).__name__}: "
                           f"{str(e)[:200]}", rec)
        return
    nvar = sum(1 for p in pieces if p[0] == "val")
    if len(pieces) == 1 and pieces[0][0] == "val" and not isinstance(pieces[0][1], str):
        ctx.count("identity_checks")
        exp_kind = "identity"
        if got is not pieces[0][1]:
            ctx.violation(f"{mode}:single-node-not-identity:{type(pieces[0][1]).__name__}",
                          f"{src!r}: single non-string node {pieces[0][1]!r} came back as "
                          f"{type(got).__name__} {got!r}", rec)
    else:
        text = "".join(str(p[1]) for p in pieces)
        kind, v, alt = literal_or_text(text)
        exp_kind = kind if kind != "literal" else "literal:" + type(v).__name__
        if kind == "either":
            ctx.count("leading_blank_either")
            if not (same(got, v) or same(got, alt)):
                ctx.violation(f"{mode}:leading-blank-neither",
                              f"{src!r}: text {text!r} -> got {got!r}", rec)
        elif kind == "literal":
            ctx.count("literal_results")
            if not same(got, v):
                ctx.violation(f"{mode}:literal-mismatch:{type(v).__name__}",
                              f"{src!r}: text {text!r} is the literal {v!r} but got "
                              f"{type(got).__name__} {got!r}", rec)
        else:
            ctx.count("text_results")
            # the text itself: any str (Markup is a str) equal to it
            if not (isinstance(got, str) and got == v):
                ctx.violation(f"{mode}:text-mismatch:{_textclass(text)}",
                              f"{src!r}: text {text!r} is not a literal but got "
                              f"{type(got).__name__} {got!r}", rec)
    if nvar:
        ctx.dist((mode, [s[0] for s in segs], kinds_of(pieces), exp_kind))


def _textclass(text):
    try:
        ast.literal_eval(text)
        return "literal"
    except BaseException as e:  # noqa: BLE001
        return "literal_eval-" + type(e).__name__


def _deep(x):
    if isinstance(x, list):
        return [_deep(y) for y in x]
    return x


# single-node constant expressions (value known without a model)
CONST_EXPRS = [
    ("{{ 1 + 2 }}", "eq", 3), ("{{ [1, 2] }}", "eq", [1, 2]), ("{{ (1, 2) }}", "eq", (1, 2)),
    ("{{ {'a': 1} }}", "eq", {"a": 1}), ("{{ none }}", "eq", None), ("{{ true }}", "eq", True),
    ("{{ 1.5 }}", "eq", 1.5), ("{{ 'a' }}", "eq", "a"), ("{{ '1' }}", "eq", 1),
    ("{{ \"'a'\" }}", "eq", "a"), ("{{ 2 ** 70 }}", "eq", 2 ** 70), ("{{ 1 / 2 }}", "eq", 0.5),
    ("{{ [1, 2]|reverse }}", "iter", [2, 1]), ("{{ (1, 2)|reverse }}", "iter", [2, 1]),
    ("{{ [1, 2]|batch(1) }}", "iter", [[1], [2]]), ("{{ [1, 2, 3]|slice(2) }}", "iter", [[1, 2], [3]]),
    ("{{ range(3) }}", "eq", range(3)), ("{{ [3, 1]|sort }}", "eq", [1, 3]),
    ("{{ {'b': 1}|dictsort }}", "eq", [("b", 1)]), ("{{ 'a,b'.split(',') }}", "eq", ["a", "b"]),
    ("{{ [1, 2]|map('string') }}", "iter", ["1", "2"]), ("{{ {'a': 1}.items() }}", "iter", [("a", 1)]),
    ("{{ 'abc'|reverse }}", "eq", "cba"), ("{{ [1, 2]|length }}", "eq", 2),
    ("{{ [1, 2]|first }}", "eq", 1), ("{{ 'a'|upper }}", "eq", "A"), ("{{ 3 > 2 }}", "eq", True),
    ("{{ x + y }}", "eq", 6), ("{{ x * 1.0 }}", "eq", 4.0), ("{{ [x, y] }}", "eq", [4, 2]),
    ("{{ (x, y)|list }}", "eq", [4, 2]), ("{{ x is even }}", "eq", True),
    ("{%- macro m() -%}{{- [1, 2] -}}{%- endmacro -%}{{- m()[1] -}}", "eq", 2),
    ("{% set q = [1, 2] %}{{ q }}", "eq", [1, 2]), ("{{ x }}{# c #}", "eq", 4),
    ("[{% for item in data %}{{ item + 1 }},{% endfor %}]", "eq", [1, 2, 3, 4, 5]),
    ("{{ x }} * {{ y }}", "eq", "4 * 2"), ("0.000{{ a7 }}", "eq", 0.0007),
    ("--host='{{ host }}' --user \"{{ user }}\"", "eq", "--host='localhost' --user \"Jinja\""),
    # a single node whose (constant-folded) value is a float without a literal
    # form: still "a single non-string value".  4th field = mechanism label
    # (mode-independent key)
    ("{{ 'inf'|float }}", "eq", math.inf, "folded-nonfinite-float-becomes-text"),
    ("{{ 1e999 }}", "eq", math.inf, "folded-nonfinite-float-becomes-text"),
    ("{{ 'nan'|float }}", "eq", math.nan, "folded-nonfinite-float-becomes-text"),
    ("{{ [1e999, 1] }}", "eq", [math.inf, 1], "folded-nonfinite-float-becomes-text"),
    ("{{ x * 1e999 }}", "eq", math.inf), ("{{ inf_s|float }}", "eq", math.inf),
]
CONST_DATA = {"x": 4, "y": 2, "a7": 7, "host": "localhost", "user": "Jinja", "inf_s": "inf"}


def check_const(ctx, mode, i):
    src, how, exp = CONST_EXPRS[i][:3]
    label = CONST_EXPRS[i][3] if len(CONST_EXPRS[i]) > 3 else None
    values = dict(CONST_DATA, data=range(5))
    ctx.ev()
    ctx.count("const_expr_checks")
    ctx.count("mode:" + mode)
    rec = {"kind": "const", "mode": mode, "index": i, "src": src}
    try:
        got = do_render(mode, src, values)
    except BaseException as e:  # noqa: BLE001
        key = f"{mode}:raises:{type(e).__name__}:const-expr"
        ctx.violation(key, f"{mode} of {src!r} raised {type(e).__name__}: {str(e)[:200]}", rec)
        return
    if how == "eq":
        ok = same(got, exp)
    elif hasattr(got, "__aiter__") and mode.startswith("async"):
        # async-enabled environments may hand out the async variant of a filter
        async def collect():
            return [x async for x in got]

        ok = asyncio.run(collect()) == exp
    else:
        ok = not isinstance(got, (str, list, tuple)) and hasattr(got, "__iter__") and \
            [list(x) if not isinstance(x, (str, int, tuple)) else x for x in got] == exp
    if not ok:
        ctx.violation(f"const-expr:{label}" if label else f"{mode}:const-expr:{how}",
                      f"{mode}: {src!r}: expected {how} {exp!r}, got {type(got).__name__} {got!r}",
                      rec)
    ctx.dist((mode, "const", i))


def run(ctx):
    import warnings

    warnings.simplefilter("ignore")  # SyntaxWarning from literal_eval of odd texts
    quick = ctx.tier == "quick"
    idx = 0
    for mode in MODES:
        for i in range(len(CONST_EXPRS)):
            idx += 1
            if ctx.mine(idx):
                check_const(ctx, mode, i)
    rng = ctx.rng("cases")
    n_max = 700 if quick else 30000
    i = 0
    while ctx.more(i, n_max, 150):
        case = gen_case(rng)
        for mode in MODES:
            # the two secondary modes run on every second case
            if mode in ("async.render", "sandbox.render") and i % 2:
                continue
            check_case(ctx, mode, case)
        if i < 4:
            ctx.sample({"src": realize(case["segs"], {k: make_value(v) for k, v in
                                                      case["data"].items()})[0],
                        "data": case["data"]})
        i += 1


def replay(ctx, case):
    if case["kind"] == "const":
        check_const(ctx, case["mode"], case["index"])
    else:
        check_case(ctx, case["mode"], case["case"])
