"""C37 — concurrent async renders on one environment do not interfere.

2-3 asyncio tasks render generated templates on ONE environment; every task's
async data function ``g`` awaits numbered gates; a controller coroutine
releases the gates in a prescribed global order, so exactly one task runs at a
time and the interleaving of the tasks' await points is the order.  All orders
are enumerated (sampled above a cap).  Oracle: each task's output equals the
output of the same (template, data) rendered alone in a fresh environment."""
from __future__ import annotations

import asyncio

from vt import core
from vt.mon import c37_gen as GEN

PID = "C37"
LEVEL = "exploration"
RULE = ("case = generated template set (import library cached per environment, with-context "
        "import, includes, parent with blocks; main templates = 1-3 labelled fragments drawn from: "
        "loop state (index/length/revindex/cycle/changed/previtem/nextitem), nested loops, "
        "namespace accumulation, imported macros incl. call blocks / local namespace / "
        "cycler+joiner / defaults / recursion, autoescape blocks (constant and data-dependent), "
        "local macros and call blocks, set/filter blocks, with, recursive loops, async filters, "
        "loop filters, top-level assignments, super()/self.block()) x 2-3 tasks (same or different "
        "main template, different data) x gate positions (a start gate + <=4 of the task's g() "
        "calls) x release order.  distinct = (template-set+task hash, release order) actually "
        "executed with >= 2 task switches; 'interleavings' = number of distinct orders executed")
TECHNIQUE = "gate-scheduled asyncio tasks, enumerated release orders, differential vs solo render"
LEVEL_TEXT = ("held on the executed gate-release orders (all orders of each case when their number "
              "is below the cap, a uniform sample otherwise); await points are those of the data "
              "function, a start gate included")
ASSUMPTIONS = [
    "tasks suspend only at data await points (the engine adds none), so gate-release orders are "
    "all interleavings of the chosen await points",
    "<= 5 gates per task (start + 4); orders sampled above the per-case cap (quick 400, thorough "
    "5000)",
    "solo output = render of the same template+data alone in a fresh environment built from the "
    "same sources; cases whose solo render is not repeatable in one environment are skipped",
]
NSHARDS = {"quick": 16, "thorough": 16}
BUDGET_S = {"quick": 12, "thorough": 420}
FLOORS = {
    "quick": {"evaluations": 3000, "distinct": 2500,
              "counters": {"schedules": 3000, "task_outputs_compared": 6000, "cases": 15,
                           "gates_released": 12000, "schedules_fresh_env": 150}},
    "thorough": {"evaluations": 120000, "distinct": 120000,
                 "counters": {"schedules": 120000, "task_outputs_compared": 300000, "cases": 70,
                              "gates_released": 1500000, "schedules_fresh_env": 6000}},
}


def make_env(case):
    from jinja2 import DictLoader, Environment

    return Environment(loader=DictLoader(dict(case["tpls"])), enable_async=True,
                       autoescape=bool(case["autoescape"]))


class TaskData:
    def __init__(self, spec, gate_at, gate):
        self.spec = spec
        self.calls = 0
        self.gate_at = frozenset(gate_at)
        self.gate = gate
        self.passed = 0

    async def g(self, tag):
        self.calls += 1
        if self.calls in self.gate_at:
            await self.gate()
            self.passed += 1
        return f"{self.spec['name']}.{tag}"

    def vars(self):
        s = self.spec
        return {"name": s["name"], "xs": list(s["xs"]), "ys": list(s["ys"]), "skip": s["skip"],
                "ae": s["ae"], "tree": s["tree"], "g": self.g}


def solo(loop, env, spec):
    async def nogate():
        return None

    td = TaskData(spec, (), nogate)
    out = loop.run_until_complete(env.get_template(spec["main"]).render_async(**td.vars()))
    return out, td.calls


class Stuck(Exception):
    pass


async def run_schedule(loop, env, tasks, gates, order):
    """Returns (outputs or exceptions per task, gates released, deviation?)."""
    n = len(tasks)
    waiting = [None] * n

    def mk_gate(tid):
        async def gate():
            fut = loop.create_future()
            waiting[tid] = fut
            await fut
        return gate

    async def runner(tid):
        gate = mk_gate(tid)
        await gate()
        td = TaskData(tasks[tid], gates[tid], gate)
        return await env.get_template(tasks[tid]["main"]).render_async(**td.vars())

    ts = [loop.create_task(runner(i)) for i in range(n)]

    async def settle(tid):
        for _ in range(2000):
            if waiting[tid] is not None or ts[tid].done():
                return
            await asyncio.sleep(0)
        raise Stuck(f"task {tid} neither at a gate nor done")

    released = 0
    deviation = False
    try:
        for i in range(n):
            await settle(i)
        for tid in order:
            fut = waiting[tid]
            if fut is None:
                deviation = True
                continue
            waiting[tid] = None
            fut.set_result(None)
            released += 1
            await settle(tid)
        # drain anything left (only when a task's gate count deviated from its solo run)
        for _ in range(1000):
            if all(t.done() for t in ts):
                break
            for i in range(n):
                if waiting[i] is not None:
                    deviation = True
                    f, waiting[i] = waiting[i], None
                    f.set_result(None)
                    released += 1
            await asyncio.sleep(0)
    finally:
        for t in ts:
            if not t.done():
                t.cancel()
        res = await asyncio.gather(*ts, return_exceptions=True)
    return res, released, deviation


def first_diff_label(a, b):
    sa, sb = a.split(GEN.SEP), b.split(GEN.SEP)
    if len(sa) != len(sb):
        return "structure"
    for x, y in zip(sa, sb):
        if x != y:
            lx = x.split(GEN.LAB, 1)[0] if GEN.LAB in x else "?"
            ly = y.split(GEN.LAB, 1)[0] if GEN.LAB in y else "?"
            return lx if lx == ly else "structure"
    return "none"


def switches(order):
    return sum(1 for a, b in zip(order, order[1:]) if a != b)


def check_schedule(ctx, case, loop, env, gates, solo_out, order, fresh):
    tasks = case["tasks"]
    rcase = {"case": case, "gates": gates, "order": list(order), "fresh": fresh}
    try:
        res, released, dev = loop.run_until_complete(run_schedule(loop, env, tasks, gates, order))
    except Stuck as e:
        ctx.inconc("scheduler stuck: %s" % e)
        return False
    ctx.ev()
    ctx.count("schedules")
    ctx.count("gates_released", released)
    if fresh:
        ctx.count("schedules_fresh_env")
    if dev:
        ctx.count("schedules_with_gate_count_deviation")
    if switches(order) >= 2:
        ctx.dist((core.h8([case["tpls"], case["tasks"], gates]), list(order)))
    ok = True
    for tid, r in enumerate(res):
        ctx.count("task_outputs_compared")
        if isinstance(r, BaseException):
            ok = False
            ctx.violation("interference:raises:" + type(r).__name__,
                          "task %d (%s) raised %r under order %s but renders alone to %r"
                          % (tid, tasks[tid]["main"], r, list(order), solo_out[tid][:200]),
                          rcase)
        elif r != solo_out[tid]:
            ok = False
            lab = first_diff_label(solo_out[tid], r)
            ctx.violation("interference:" + lab,
                          "task %d (%s, name=%r) under release order %s produced %r, alone %r "
                          "(first differing fragment: %s; template %r)"
                          % (tid, tasks[tid]["main"], tasks[tid]["name"], list(order), r[:400],
                             solo_out[tid][:400], lab, case["tpls"][tasks[tid]["main"]][:400]),
                          rcase)
    return ok


def prepare(ctx, case, loop, maxg=4):
    """Solo outputs + gate positions; None if the case is unusable."""
    tasks = case["tasks"]
    try:
        env0 = make_env(case)
        solo_out, ncalls = [], []
        for spec in tasks:
            o, c = solo(loop, env0, spec)
            solo_out.append(o)
            ncalls.append(c)
        # repeatability in one environment (sequential state is another property's business)
        for spec, o in zip(tasks, solo_out):
            o2, _ = solo(loop, env0, spec)
            if o2 != o:
                ctx.count("case_skipped_solo_not_repeatable")
                return None
        # and in a second fresh environment
        env1 = make_env(case)
        for spec, o in zip(tasks, solo_out):
            if solo(loop, env1, spec)[0] != o:
                ctx.count("case_skipped_solo_not_repeatable")
                return None
    except Exception as e:
        ctx.count("case_rejected:" + type(e).__name__)
        return None
    gates = [GEN.choose_gates(spec["gate_picks"], c, maxg) for spec, c in zip(tasks, ncalls)]
    return solo_out, gates


def run_case(ctx, case, quick, rng, loop):
    prep = prepare(ctx, case, loop)
    if prep is None:
        return
    solo_out, gates = prep
    tasks = case["tasks"]
    counts = [len(g) + 1 for g in gates]
    total = GEN.n_orders(counts)
    cap = 400 if quick else 5000
    ctx.count("cases")
    ctx.count("cases_%d_tasks" % len(tasks))
    if len({t["main"] for t in tasks}) < len(tasks):
        ctx.count("cases_sharing_a_main_template")
    for t in tasks:
        src = case["tpls"][t["main"]]
        for lab in sorted({seg.split(GEN.LAB, 1)[0] for seg in src.split(GEN.SEP) if GEN.LAB in seg}):
            ctx.count("fragment:" + lab.split("%}")[-1])
    if len(ctx.samples) < 3:
        ctx.sample({"tasks": [{k: t[k] for k in ("main", "name", "xs", "ae")} for t in tasks],
                    "mains": {t["main"]: case["tpls"][t["main"]] for t in tasks},
                    "gates_at_g_call": gates, "orders_total": total})
    if total <= cap:
        orders = GEN.all_orders(counts)
        ctx.count("cases_all_orders_enumerated")
        ctx.extra["orders_of_fully_enumerated_cases"] = \
            ctx.extra.get("orders_of_fully_enumerated_cases", 0) + total
    else:
        seen = set()
        lst = []
        for _ in range(cap * 3):
            o = GEN.random_order(rng, counts)
            if o not in seen:
                seen.add(o)
                lst.append(o)
            if len(lst) >= cap:
                break
        orders = iter(lst)
        ctx.count("cases_orders_sampled")
    warm = make_env(case)
    nfresh = 12 if quick else 60
    executed = 0
    for i, order in enumerate(orders):
        # the first few orders of the list, and then every 40th, run in a brand-new
        # environment (first import of the shared library happens inside the race)
        fresh = i < nfresh or i % 40 == 0
        env = make_env(case) if fresh else warm
        check_schedule(ctx, case, loop, env, gates, solo_out, order, fresh)
        executed += 1
        if i % 50 == 49 and ctx.elapsed() > ctx.budget_s * 1.5:
            ctx.count("cases_cut_by_time")
            break
    ctx.extra["interleavings_executed"] = ctx.extra.get("interleavings_executed", 0) + executed


def run(ctx):
    quick = ctx.tier == "quick"
    rng = ctx.rng("gen")
    loop = asyncio.new_event_loop()
    try:
        i = 0
        nmax = 400 if quick else 20000
        while ctx.more(i, nmax, floor=2):
            case = GEN.gen_case(rng)
            run_case(ctx, case, quick, ctx.rng("case%d" % i), loop)
            i += 1
    finally:
        loop.run_until_complete(loop.shutdown_asyncgens())
        loop.close()


def replay(ctx, obj):
    case = obj["case"]
    loop = asyncio.new_event_loop()
    try:
        prep = prepare(ctx, case, loop)
        if prep is None:
            return
        solo_out, _ = prep
        env = make_env(case)
        if not obj.get("fresh", True):
            # the failing schedule ran in an environment that had rendered before
            counts = [len(g) + 1 for g in obj["gates"]]
            warm_order = tuple(i for i, c in enumerate(counts) for _ in range(c))
            loop.run_until_complete(run_schedule(loop, env, case["tasks"], obj["gates"],
                                                 warm_order))
        check_schedule(ctx, case, loop, env, obj["gates"], solo_out,
                       tuple(obj["order"]), bool(obj.get("fresh", True)))
    finally:
        loop.close()
