"""C37 — concurrent async renders on one environment do not interfere.

2-3 asyncio tasks render generated templates on ONE environment; every task's
async data function ``g`` awaits numbered gates; a controller coroutine
releases the gates in a prescribed global order, so exactly one task runs at a
time and the interleaving of the tasks' await points is the order.  All orders
are enumerated (sampled above a cap).  Oracle: each task's output equals the
output of the same (template, data) rendered alone in a fresh environment.  State
that is global to the process is shared by concurrent tasks too: the first renders
of every shard process serve as alone-outputs of an untouched process, and every
task is rendered alone again before and after the schedules of its case.  The
fragments include every built-in filter in plain and rare argument forms (the
forms that touch environment policies and other state outside the call), used by
both tasks before and after their await points; environments carry policy values
of their own or the process-wide defaults.  Small extra cases load the tasks' main
templates with different template-level globals that the shared (cached)
libraries read."""
from __future__ import annotations

import asyncio
import re

import copy

from vt import core
from vt.mon import c37_filters as FF
from vt.mon import c37_gen as GEN
from vt.mon import c37_kinds as KN

PID = "C37"
LEVEL = "exploration"
RULE = ("case = generated template set (import library cached per environment, with-context "
        "import, includes, parent with blocks; main templates = 1-3 labelled fragments drawn from: "
        "loop state (index/length/revindex/cycle/changed/previtem/nextitem), nested loops, "
        "namespace accumulation (namespace(k=v), argument-less namespace() initialised by later "
        "{% set ns.x %} assignments, namespace(mapping) with a per-render dict / a dict shared by the "
        "concurrently rendering tasks / a dict literal / mapping + keywords; in the main template, in "
        "an imported macro and in an included template), imported macros incl. call blocks / local namespace / "
        "cycler+joiner / defaults / recursion, autoescape blocks (constant and data-dependent), "
        "local macros and call blocks, set/filter blocks, with, recursive loops, async filters, "
        "loop filters, top-level assignments, super()/self.block(); ARGUMENT FORMS OF THE BUILT-IN "
        "FILTERS ('filter-forms' fragments): every name in Environment.filters (54) has 1-2 plain "
        "and 0-4 rare argument forms in a table (62 rare forms of 32 filters: tojson(indent=) / "
        "positional, truncate(leeway=) / killwords / positional, urlize(extra_schemes= / target= / "
        "rel= / trim+nofollow), sort / dictsort / unique / groupby / min / max(case_sensitive=), "
        "attribute= / default= / start= / fill_with= forms, wordwrap(break_long_words= / wrapstring= "
        "/ break_on_hyphens=), indent(first= / blank= / width string), xmlattr(autospace=), "
        "int(base=), round(method=), replace(count=), trim(chars=), select / reject without test "
        "...) over per-task data, every use printed as [F:<filter>/<form>=...] and announced to the "
        "harness (fuse()); every generated-template case is followed by a small PAIR CASE "
        "(2-3 tasks, <= 3 gates + start each, usually all orders): task 0 = g(), one rare form of "
        "each of 8 filters, g() / task 1 = plain forms of the same 8 filters, g(), the plain forms "
        "again, each next to 0-2 other fragments (40%: 2-4 uses of random filters in random forms "
        "around g() calls, else any fragment of the list above), with the g() calls of the pair "
        "always among the gates; shard and case number select the 8 filters (consecutive slices of the 32), so "
        "every filter with a rare form is paired whatever the seed; schedules_rare_filter_form_"
        "in_one_task_between_plain_uses_in_another counts schedules in which a task used a rare "
        "form of a filter between two plain uses of that filter by another task; ENVIRONMENT "
        "POLICIES: 3 of 4 cases configure policy values of their own (json.dumps_kwargs, "
        "truncate.leeway, urlize.rel / target / extra_schemes; fresh objects per environment), the "
        "others keep the default policy objects; SHARED EVAL CONTEXT OF THE CACHED "
        "LIBRARY: imported macros that await g() inside an autoescape block (true / false / "
        "data-dependent / nested / around caller()) and imported probe macros whose output depends "
        "on the eval context they are handed (join / replace / xmlattr / urlize over text + Markup, a "
        "sibling macro call, a pass_eval_context harness function), drawn like any fragment and "
        "forced into every second such case as task 0 = block macro, task 1 = probe; KINDS OF VALUES "
        "that pass the engine's await-if-awaitable wrapper ('awaitable-kinds' fragments, 2-9 values "
        "each, printed as [channel.kind=...]): awaitable = native coroutine / @types.coroutine "
        "generator-based coroutine / object with __await__ / awaitable subclass of a plain class / "
        "awaitable base class / finished asyncio.Future / asyncio.Task (all but the Future delegate "
        "to g(), i.e. contain a gate), plain = generator object / instance of another class with the "
        "same name / the plain base class / subclass with __await__ = None / list iterator / range / "
        "list, + engine-made lazy filter results (batch, slice, unique: generators; map, select: async "
        "generators; reverse); channels = method call, function, functools.partial, callable object, "
        "attribute, item, filter result, per-item result of |map; kinds sharing a TYPE FAMILY (same "
        "Python type, equal class name, one class hierarchy) differ in awaitability; every third such "
        "case pairs task 0 = starts with a plain member of a family before its first gate, task 1 = "
        "an awaitable member behind its first gate, the first case of each shard does so for all "
        "four mixed families) x 2-3 tasks (same or different "
        "main template, different data) x gate positions (a start gate + <=4 of the task's g() "
        "calls) x release order.  distinct = (template-set+task hash, release order) actually "
        "executed with >= 2 task switches; 'interleavings' = number of distinct orders executed. "
        "Every second case is a MODULE-BODY RACE: a generated library mlib.j2 (variables v1,v2 and "
        "macros m1,m2 + a macro awaiting the task's gate inside an autoescape block + an "
        "eval-context probe macro, optionally importing a second gated library) whose top-level body awaits a "
        "gated async environment global 1-3 times before / between / after its definitions, and "
        "2-3 tasks on a BRAND-NEW environment per schedule whose main templates reach that library "
        "through import, from-import, an include of an importing template or an import inside a "
        "block (optionally after a task gate, optionally sharing one main template); gates = start "
        "+ every g() call + every module-body call made by the task that is evaluating the body; "
        "all release orders are enumerated depth-first by executing (waiting sets are dynamic), "
        "capped at 120 (quick) / 3000 (thorough) + the same number of uniformly chosen orders; "
        "modrace_import_while_body_suspended counts schedules in which a task entered the module "
        "body while another task was suspended inside it; the library's zone() calls tell the harness "
        "when a task is inside a scoped eval-context block: schedules_with_task_suspended_inside_"
        "imported_autoescape_block counts schedules in which a task stayed suspended there while "
        "another task ran, schedules_probing_eval_context_during_such_suspension those in which "
        "another task evaluated a probe at that time. TEMPLATE-LEVEL GLOBALS: every generated-"
        "template case is also followed by a small TG CASE (2-3 tasks, <= 3 gates + start each, "
        "usually all orders) and every module-body race by a smaller one (order cap 50 quick / "
        "1000 thorough) whose main templates are loaded with "
        "Environment.get_template(name, globals=...) and DIFFERENT template-level globals (six "
        "variants over the names SITE / TG2 and their mirror images, selected by shard and case "
        "number: one main with, the other without; both with "
        "different values; disjoint names; tasks that share a main template share its globals, in a "
        "module-body race a single shared main is copied under a second name), and the shared "
        "library reads those names without defining them (a macro, an exported top-level "
        "variable): the TG case's mains hold 1-2 fragments (kinds rotating with shard and case "
        "number) drawn from: macro + "
        "variable of the library imported at the head of the template around a g() call, a "
        "from-import of them, an import of the library BEHIND an await point, an include WITHOUT "
        "context of a template that imports the library, the globals read directly, next to 0-1 "
        "fragments of the list above; in the module-"
        "body races every import of mlib.j2 is followed by [TG=macro + variable]; values are "
        "alphanumeric so these outputs do not depend on the eval context; alone-outputs as "
        "before (the task alone, its main loaded with its globals in a fresh environment); the "
        "other cases keep templates without template-level globals, because an importer with such "
        "globals gets a library module of its own and shares no macro objects with other tasks; "
        "schedules_importer_with_template_level_globals_starts_after_task_with_others counts "
        "schedules in which a task with globals started after a task with other (or no) "
        "globals had started, .._in_new_environment those in an environment that had not "
        "imported the library yet; a difference is keyed interference:<fragment label> resp. "
        "interference:<module-race label>:template-level-globals-of-the-importer. "
        "An output difference in a fragment that runs "
        "library code in such a schedule gets the mechanism key interference:eval-context-of-cached-"
        "module-shared-between-tasks:suspended-in=<construct>, any other difference "
        "interference:<fragment label>; after such a schedule (and after any violation) the "
        "long-lived environment is replaced. PROCESS-LEVEL STATE: new processes cost ~0.3-9 s each "
        "on this machine, so the untouched-process reference is the shard process itself: the first "
        "case of each shard first releases its tasks one after the other (start gates only; the "
        "shard number decides which goes first) as the FIRST renders of the process - the first "
        "task's output is its alone-output in a process whose engine-level state is untouched - "
        "then renders every task alone and requires the same outputs "
        "(first_renders_of_a_process_used_as_reference). In every case the alone renders are made "
        "in rotated task order (shard + case number) before the schedules, and again after them "
        "(alone_renders_after-the-schedules): a difference is keyed interference:persisted-in-"
        "process:<fragment label>. Inside an awaitable-kinds fragment the label carries the value: "
        "awaitable-kinds:<kind>-via-<channel>, inside a filter-forms fragment the use: filter-forms:"
        "<filter>/<form of the differing use>[:other-task-used:<filter>/<forms other tasks used in "
        "that schedule>]. Before the schedules every task is also rendered alone once more in a "
        "brand-new environment with the other tasks' alone renders in between "
        "(alone_renders_before-the-schedules). schedules_same_type_family_plain_then_awaitable_in_"
        "other_task / ..awaitable_then_plain.. count schedules in which a type family went through "
        "the engine as a plain value in one task and later (earlier) as an awaitable in another")
TECHNIQUE = ("gate-scheduled asyncio tasks, enumerated release orders, differential vs solo render; "
             "solo renders repeated after the schedules and against the first renders of the process")
LEVEL_TEXT = ("held on the executed gate-release orders (all orders of each case when their number "
              "is below the cap, a uniform sample otherwise); await points are those of the data "
              "function, a start gate included")
ASSUMPTIONS = [
    "tasks suspend only at data await points (the engine adds none), so gate-release orders are "
    "all interleavings of the chosen await points",
    "<= 5 gates per task (start + 4; start + 3 in the small filter-form pair cases); orders "
    "sampled above the per-case cap (quick 400, thorough 5000; pair cases 120 / 1500)",
    "solo output = render of the same template+data alone in a fresh environment built from the "
    "same sources and policy values; a case is skipped when a task's alone render, repeated twice "
    "in an environment of its own, differs from its reference (the template's own business); the "
    "tasks do not share that environment - what one task's render leaves behind for another "
    "task's render on the same environment is what the schedules have to show",
    "the forms table covers the built-in filters by name (builtin_filters_with_argument_forms; a "
    "filter of Environment.filters without an entry is counted as builtin_filter_without_"
    "argument_forms:<name> and not used); all forms are deterministic over the per-task data "
    "(random only over a one-element list); fuse() is a harness global that only records",
    "the mapping `shared_init` handed to namespace(...) is one dict per schedule shared by that "
    "schedule's tasks (a fresh one for each solo render); namespace() is documented to be "
    "initialised FROM a mapping, so writes to the namespace must not reach the mapping",
    "environments of one shard share a harness-side in-memory BytecodeCache (public API; compiled "
    "code objects keyed by template name + source + autoescape default): no template, module or "
    "context objects are shared",
    "engine-level state that is global to the process is observed only through outputs: (a) the "
    "first renders of each of the 16 shard processes (one case per process, either task order) "
    "against alone renders made right afterwards, (b) alone renders before vs after the schedules "
    "of every case; alone renders of later cases start from whatever state the shard process has "
    "reached, so state that changed once and for all before a case started is not visible in that "
    "case",
    "awaitable kinds resolve to '<task name>.<tag>' and plain kinds print / iterate "
    "deterministically; the Task kind runs the data function in its own asyncio task (gates are "
    "keyed by the rendering task, not by asyncio.current_task())",
    "zone() / ectx() are harness globals called by the generated library: zone() only records, "
    "ectx() returns 'A1'/'A0' from eval_ctx.autoescape (documented pass_eval_context use)",
    "template-level globals: a template imported without context sees the importing template's "
    "globals (docs/api.rst 'The Global Namespace': globals 'are also available to templates that "
    "are imported or included without context'; CHANGES 3.0.x: imported macros have access to the "
    "current template globals); a template included without context is evaluated with its own "
    "globals only; globals are per main template and never changed after loading; two names "
    "(SITE, TG2), string values",
    "module-body races: the gated environment global returns a value that does not depend on the "
    "calling task and the library keeps no mutable state, because the module of an import "
    "without context is cached per environment by documented design; which task evaluates the "
    "body (or whether several do) is therefore unobservable in a correct engine and is not "
    "checked - only each task's output against its solo render",
]
NSHARDS = {"quick": 16, "thorough": 16}
BUDGET_S = {"quick": 12, "thorough": 420}
_PAIR = "cases_pairing_rare_filter_forms_in_one_task_with_plain_uses_around_a_gate_in_another"
FF_FLOORS_QUICK = {
    "builtin_filters_with_argument_forms": 640, _PAIR: 8, "cases_with_filter_forms_fragment": 12,
    "filter_form_uses": 30000, "filter_form_uses_rare_argument_form": 9000,
    "schedules_rare_filter_form_in_one_task_between_plain_uses_in_another": 200,
    "distinct_rare_filter_argument_forms_in_case": 100,
    "cases_with_environment_specific_policy_values": 12, "cases_with_default_policy_objects": 4,
    "alone_renders_before-the-schedules": 30,
    **{"cases_with_rare_form_between_plain_uses_of_other_task:" + f: 2 for f in FF.WITH_RARE},
}
FF_FLOORS_THOROUGH = {
    "builtin_filters_with_argument_forms": 640, _PAIR: 50, "cases_with_filter_forms_fragment": 50,
    "filter_form_uses": 800000, "filter_form_uses_rare_argument_form": 230000,
    "schedules_rare_filter_form_in_one_task_between_plain_uses_in_another": 9000,
    "distinct_rare_filter_argument_forms_in_case": 500,
    "cases_with_environment_specific_policy_values": 70, "cases_with_default_policy_objects": 25,
    "alone_renders_before-the-schedules": 200,
    **{"cases_with_rare_form_between_plain_uses_of_other_task:" + f: 12 for f in FF.WITH_RARE},
}
_TGS = "schedules_importer_with_template_level_globals_starts_after_task_with_others"
TG_FLOORS_QUICK = {
    "cases_with_template_level_globals": 4,
    "cases_tasks_loaded_with_different_template_level_globals": 4,
    "cases_template_level_globals_in_one_task_none_in_another": 3,
    "modrace_cases_with_template_level_globals": 3,
    "modrace_cases_tasks_loaded_with_different_template_level_globals": 3,
    "schedules_of_tasks_with_template_level_globals": 1000, _TGS: 700,
    _TGS + "_in_new_environment": 50,
    "modrace_schedules_of_tasks_with_template_level_globals": 500, "modrace_" + _TGS: 300,
    **{"fragment:" + lab: 2 for lab in GEN.TG_LABELS},
}
TG_FLOORS_THOROUGH = {
    "cases_with_template_level_globals": 16,
    "cases_tasks_loaded_with_different_template_level_globals": 16,
    "cases_template_level_globals_in_one_task_none_in_another": 10,
    "modrace_cases_with_template_level_globals": 15,
    "modrace_cases_tasks_loaded_with_different_template_level_globals": 15,
    "schedules_of_tasks_with_template_level_globals": 38000, _TGS: 30000,
    _TGS + "_in_new_environment": 1400,
    "modrace_schedules_of_tasks_with_template_level_globals": 26000, "modrace_" + _TGS: 19000,
    **{"fragment:" + lab: 9 for lab in GEN.TG_LABELS},
}
FLOORS = {
    "quick": {"evaluations": 3000, "distinct": 2500,
              "counters": {"schedules": 2000, "task_outputs_compared": 6000, "cases": 8,
                           "gates_released": 12000, "schedules_fresh_env": 150,
                           "cases_with_argless_namespace": 2,
                           "cases_with_namespace_from_data_mapping": 1,
                           "cases_with_imported_macro_awaiting_inside_autoescape_block": 7,
                           "cases_with_imported_autoescape_macro_and_evalctx_probe": 6,
                           "schedules_with_task_suspended_inside_imported_autoescape_block": 1500,
                           "schedules_probing_eval_context_during_such_suspension": 1000,
                           "evalctx_probe_evaluations": 15000,
                           "cases_with_awaitable_kinds_fragment": 8,
                           "cases_same_type_family_awaitable_in_one_task_plain_in_another": 5,
                           "kind_values_awaitable": 12000, "kind_values_plain": 18000,
                           **{"kind_values:" + k: 400 for k in sorted(KN.KINDS)},
                           "kind_values:engine-made-lazy-filter-result": 1500,
                           "schedules_same_type_family_plain_then_awaitable_in_other_task": 1000,
                           "schedules_same_type_family_awaitable_then_plain_in_other_task": 1000,
                           "first_renders_of_a_process_used_as_reference": 8,
                           "first_renders_of_a_process_same_type_family_plain_then_awaitable_in_other_task": 3,
                           "first_renders_of_a_process_same_type_family_awaitable_then_plain_in_other_task": 3,
                           "alone_renders_compared_with_earlier_alone_render": 50,
                           "alone_renders_after-the-schedules": 45,
                           "modrace_schedules_with_task_suspended_inside_imported_autoescape_block": 800,
                           "modrace_schedules_probing_eval_context_during_such_suspension": 400,
                           "modrace_cases": 6, "modrace_schedules": 800,
                           "modrace_import_while_body_suspended": 500,
                           "modrace_cases_all_orders_enumerated": 3,
                           **TG_FLOORS_QUICK,
                           **FF_FLOORS_QUICK}},
    "thorough": {"evaluations": 120000, "distinct": 120000,
                 "counters": {"schedules": 120000, "task_outputs_compared": 300000, "cases": 70,
                              "gates_released": 1500000, "schedules_fresh_env": 6000,
                              "cases_with_argless_namespace": 9,
                              "cases_with_namespace_from_data_mapping": 3,
                              "cases_with_imported_macro_awaiting_inside_autoescape_block": 60,
                              "cases_with_imported_autoescape_macro_and_evalctx_probe": 50,
                              "schedules_with_task_suspended_inside_imported_autoescape_block": 60000,
                              "schedules_probing_eval_context_during_such_suspension": 40000,
                              "evalctx_probe_evaluations": 700000,
                              "modrace_schedules_with_task_suspended_inside_imported_autoescape_block": 90000,
                              "modrace_schedules_probing_eval_context_during_such_suspension": 45000,
                              "cases_with_awaitable_kinds_fragment": 45,
                              "cases_same_type_family_awaitable_in_one_task_plain_in_another": 25,
                              "kind_values_awaitable": 500000, "kind_values_plain": 700000,
                              **{"kind_values:" + k: 40000 for k in sorted(KN.KINDS)},
                              "kind_values:engine-made-lazy-filter-result": 250000,
                              "schedules_same_type_family_plain_then_awaitable_in_other_task": 40000,
                              "schedules_same_type_family_awaitable_then_plain_in_other_task": 40000,
                              "first_renders_of_a_process_used_as_reference": 8,
                              "first_renders_of_a_process_same_type_family_plain_then_awaitable_in_other_task": 3,
                              "first_renders_of_a_process_same_type_family_awaitable_then_plain_in_other_task": 3,
                              "alone_renders_compared_with_earlier_alone_render": 350,
                              "alone_renders_after-the-schedules": 330,
                              "modrace_cases": 90, "modrace_schedules": 100000,
                              "modrace_import_while_body_suspended": 80000,
                              "modrace_cases_all_orders_enumerated": 70,
                              **TG_FLOORS_THOROUGH,
                              **FF_FLOORS_THOROUGH}},
}


class Watch:
    """Per schedule: which task is inside which scoped eval-context construct of a
    cached library (told by the library's zone() calls), and whether a task stayed
    suspended inside one while other tasks ran (``overlap``)."""

    def __init__(self):
        self.task_of = {}      # asyncio task -> task id
        self.zone_of = {}      # task id -> zone name ('' = none)
        self.ticks = 0         # advances whenever any task runs
        self.overlap = set()   # zones a task was suspended in while another task ran
        self.probes = 0
        self.probes_exposed = 0
        # (task id, type family, awaitable?, kind) of every value of the kinds workload
        # handed to the engine, in execution order
        self.kind_events = []
        # (task id, filter, argument form) of every use in a filter-forms fragment, in
        # execution order
        self.filter_events = []

    def fuse(self, filt, form):
        self.filter_events.append((self.tid(), filt, form))
        return ""

    def kind_orders(self):
        """-> set of 'plain-then-awaitable' / 'awaitable-then-plain': some type family
        went through the engine as a plain value in one task and LATER (resp. EARLIER)
        as an awaitable in another task."""
        out = set()
        seen = {}
        for tid, fam, aw, _ in self.kind_events:
            for (otid, oaw) in seen.get(fam, ()):
                if otid != tid and oaw != aw:
                    out.add("plain-then-awaitable" if aw else "awaitable-then-plain")
            seen.setdefault(fam, set()).add((tid, aw))
        return out

    def tid(self):
        try:
            t = asyncio.current_task()
        except RuntimeError:
            t = None
        return self.task_of.get(t)

    def zone(self, name):
        self.zone_of[self.tid()] = name
        return ""

    def foreign(self, tid):
        return sorted({z for o, z in self.zone_of.items() if o != tid and z})

    def ectx(self, eval_ctx):
        self.probes += 1
        if self.foreign(self.tid()):
            self.probes_exposed += 1
        return "A1" if eval_ctx.autoescape else "A0"

    async def gated(self, tid, gate):
        """Suspend task tid at a gate; afterwards note whether it was inside a scoped
        construct of the cached library while other tasks ran."""
        z = self.zone_of.get(tid)
        t0 = self.ticks
        await gate()
        if z and self.ticks != t0:
            self.overlap.add(z)
        self.ticks += 1


class Holder:
    def __init__(self):
        self.watch = Watch()


_BCC = {}


def _mem_cache(autoescape):
    """Harness-side in-memory bytecode cache (public BytecodeCache / Bucket API), one
    per compile-relevant configuration and process: the many environments of a shard
    share the compiled code objects of templates with identical name + source and
    nothing else (no template objects, modules or contexts)."""
    from jinja2 import BytecodeCache

    class Mem(BytecodeCache):
        def __init__(self):
            self.d = {}

        def load_bytecode(self, bucket):
            code = self.d.get((bucket.key, bucket.checksum))
            if code is not None:
                bucket.code = code

        def dump_bytecode(self, bucket):
            self.d[(bucket.key, bucket.checksum)] = bucket.code

    if autoescape not in _BCC:
        _BCC[autoescape] = Mem()
    return _BCC[autoescape]


def make_env(case):
    from jinja2 import DictLoader, Environment, pass_eval_context

    env = Environment(loader=DictLoader(dict(case["tpls"])), enable_async=True,
                      autoescape=bool(case["autoescape"]),
                      bytecode_cache=_mem_cache(bool(case["autoescape"])))
    holder = Holder()
    env.extend(vt_holder=holder)

    @pass_eval_context
    def ectx(eval_ctx):
        return holder.watch.ectx(eval_ctx)

    env.globals["zone"] = lambda name: holder.watch.zone(name)
    env.globals["ectx"] = ectx
    env.globals["fuse"] = lambda filt, form: holder.watch.fuse(filt, form)
    env.filters["mk"] = KN.mk_filter
    # environment-specific policy values: fresh objects for every environment
    for key, val in (case.get("policies") or {}).items():
        env.policies[key] = copy.deepcopy(val)
    return env


def new_shared_init():
    return {"n": 0, "acc": "s"}


class TaskData:
    def __init__(self, spec, gate_at, gate, shared_init=None, watch=None, tid=None):
        self.spec = spec
        self.watch = watch if watch is not None else Watch()
        self.tid = tid
        # mapping handed to namespace(...): one per schedule, shared by its tasks
        self.shared_init = shared_init if shared_init is not None else new_shared_init()
        self.calls = 0
        self.tags = []
        self.gate_at = frozenset(gate_at)
        self.gate = gate
        self.passed = 0

    async def g(self, tag):
        self.calls += 1
        self.tags.append(str(tag))
        self.watch.ticks += 1
        if self.calls in self.gate_at:
            await self.watch.gated(self.tid, self.gate)
            self.passed += 1
        return f"{self.spec['name']}.{tag}"

    def vars(self):
        s = self.spec
        return {"name": s["name"], "xs": list(s["xs"]), "ys": list(s["ys"]), "skip": s["skip"],
                "ae": s["ae"], "tree": s["tree"], "g": self.g,
                "init": {"n": 0, "acc": s["name"]}, "shared_init": self.shared_init,
                "k": KN.Kinds(s["name"], self.g, self._note),
                **FF.data(s["name"], list(s["xs"]))}

    def _note(self, family, aw, kind):
        self.watch.kind_events.append((self.tid, family, aw, kind))


def load_main(env, spec):
    """The task's main template, loaded with the task's template-level globals (tasks
    that share a main template share them)."""
    tg = spec.get("tglobals")
    return env.get_template(spec["main"], globals=dict(tg) if tg else None)


def tg_key(spec):
    return tuple(sorted((spec.get("tglobals") or {}).items()))


def late_globals_importers(tasks, order):
    """Tasks WITH template-level globals that start (their first gate release; the
    import of the shared library follows) after a task with other template-level
    globals (or none) has started."""
    seen, out = [], []
    for tid in order:
        if tid in seen:
            continue
        if tg_key(tasks[tid]) and any(tg_key(tasks[o]) != tg_key(tasks[tid]) for o in seen):
            out.append(tid)
        seen.append(tid)
    return out


def solo3(loop, env, spec):
    """-> (output, number of g() calls, their tags)"""
    async def nogate():
        return None

    env.vt_holder.watch = Watch()
    td = TaskData(spec, (), nogate, watch=env.vt_holder.watch)
    out = loop.run_until_complete(load_main(env, spec).render_async(**td.vars()))
    return out, td.calls, td.tags


def solo(loop, env, spec):
    return solo3(loop, env, spec)[:2]


class Stuck(Exception):
    pass


async def run_schedule(loop, env, tasks, gates, order):
    """Returns (outputs or exceptions per task, gates released, deviation?, watch)."""
    n = len(tasks)
    waiting = [None] * n
    shared_init = new_shared_init()
    watch = env.vt_holder.watch = Watch()

    def mk_gate(tid):
        async def gate():
            fut = loop.create_future()
            waiting[tid] = fut
            await fut
        return gate

    async def runner(tid):
        watch.task_of[asyncio.current_task()] = tid
        gate = mk_gate(tid)
        await gate()
        watch.ticks += 1
        td = TaskData(tasks[tid], gates[tid], gate, shared_init, watch, tid)
        return await load_main(env, tasks[tid]).render_async(**td.vars())

    ts = [loop.create_task(runner(i)) for i in range(n)]

    async def settle(tid):
        for _ in range(2000):
            if waiting[tid] is not None or ts[tid].done():
                return
            await asyncio.sleep(0)
        raise Stuck(f"task {tid} neither at a gate nor done")

    released = 0
    deviation = False
    try:
        for i in range(n):
            await settle(i)
        for tid in order:
            fut = waiting[tid]
            if fut is None:
                deviation = True
                continue
            waiting[tid] = None
            fut.set_result(None)
            released += 1
            await settle(tid)
        # drain anything left (only when a task's gate count deviated from its solo run)
        for _ in range(1000):
            if all(t.done() for t in ts):
                break
            for i in range(n):
                if waiting[i] is not None:
                    deviation = True
                    f, waiting[i] = waiting[i], None
                    f.set_result(None)
                    released += 1
            await asyncio.sleep(0)
    finally:
        for t in ts:
            if not t.done():
                t.cancel()
        res = await asyncio.gather(*ts, return_exceptions=True)
    return res, released, deviation, watch


_USE = re.compile(r"\[([a-z]+)\.([a-z-]+)=")


def first_diff_label(a, b):
    """Label of the fragment that contains the first differing character (labels can
    follow other output directly, e.g. inside a block of a parent template); inside an
    awaitable-kinds fragment also which value: '<label>:<kind>-via-<channel>'."""
    if a.count(GEN.SEP) != b.count(GEN.SEP) or a.count(GEN.LAB) != b.count(GEN.LAB):
        return "structure"
    pos = next((i for i, (x, y) in enumerate(zip(a, b)) if x != y), min(len(a), len(b)))
    i = a.rfind(GEN.LAB, 0, pos)
    if i < 0 or a[:i] != b[:i]:
        return "structure"
    head = a[:i]
    cands = [lab for lab in GEN.ALL_LABELS if head.endswith(lab)]
    lab = max(cands, key=len) if cands else "structure"
    if lab == "awaitable-kinds":
        uses = list(_USE.finditer(a, i, pos + 1))
        if uses:
            lab += ":%s-via-%s" % (uses[-1].group(2), uses[-1].group(1))
    if lab == "filter-forms":
        u = FF.last_use(a, i, pos + 1)
        if u:
            lab += ":%s/%s" % u
    return lab


def switches(order):
    return sum(1 for a, b in zip(order, order[1:]) if a != b)


def shared_evalctx_key(watch):
    """Mechanism key of 'a task stayed suspended inside a scoped eval-context block of
    the cached library while other tasks ran library code'."""
    return ("interference:eval-context-of-cached-module-shared-between-tasks:suspended-in="
            + "+".join(sorted(watch.overlap)))


def summarize(res, released, dev, watch):
    """JSON-able record of one executed schedule (also sent back by the pristine
    helper process)."""
    out = []
    for r in res:
        if isinstance(r, BaseException):
            out.append({"exc": type(r).__name__, "repr": repr(r)[:300]})
        else:
            out.append({"out": r})
    return {"res": out, "released": released, "dev": bool(dev),
            "overlap": sorted(watch.overlap), "probes": watch.probes,
            "probes_exposed": watch.probes_exposed,
            "kind_orders": sorted(watch.kind_orders()),
            "kinds_aw": sum(1 for e in watch.kind_events if e[2]),
            "kinds_plain": sum(1 for e in watch.kind_events if not e[2]),
            "kinds": {k: sum(1 for e in watch.kind_events if e[3] == k)
                      for k in sorted({e[3] for e in watch.kind_events})},
            "ff_uses": len(watch.filter_events),
            "ff_rare": sum(1 for e in watch.filter_events if e[2] != FF.PLAIN),
            # filters of which one task used a rare form between two plain uses of another
            "ff_sandwich": FF.sandwiches(watch.filter_events),
            # filter -> [[task, form], ...] (distinct, execution order)
            "ff_forms": _forms_by_filter(watch.filter_events)}


def _forms_by_filter(events):
    out = {}
    for tid, filt, form in events:
        lst = out.setdefault(filt, [])
        if [tid, form] not in lst:
            lst.append([tid, form])
    return out


def count_watch(ctx, sm, prefix=""):
    ctx.count(prefix + "evalctx_probe_evaluations", sm["probes"])
    if sm["probes_exposed"]:
        ctx.count(prefix + "evalctx_probes_while_other_task_inside_imported_autoescape_block",
                  sm["probes_exposed"])
    if sm["overlap"]:
        ctx.count(prefix + "schedules_with_task_suspended_inside_imported_autoescape_block")
    if sm["overlap"] and sm["probes_exposed"]:
        ctx.count(prefix + "schedules_probing_eval_context_during_such_suspension")
    if prefix:
        return
    ctx.count("filter_form_uses", sm["ff_uses"])
    ctx.count("filter_form_uses_rare_argument_form", sm["ff_rare"])
    if sm["ff_sandwich"]:
        ctx.count("schedules_rare_filter_form_in_one_task_between_plain_uses_in_another")
        ctx.count("filters_with_rare_form_in_one_task_between_plain_uses_in_another",
                  len(sm["ff_sandwich"]))
        _CASE_FF.update(sm["ff_sandwich"])
    ctx.count("kind_values_awaitable", sm["kinds_aw"])
    ctx.count("kind_values_plain", sm["kinds_plain"])
    for k, v in sm["kinds"].items():
        ctx.count("kind_values:" + ("engine-made-lazy-filter-result" if k == "engine" else k), v)
    for o in sm["kind_orders"]:
        # a type family went through the engine as a plain value in one task and later
        # (earlier) as an awaitable in another task
        ctx.count("schedules_same_type_family_" + o.replace("-", "_") + "_in_other_task")


_CASE_FF = set()     # filters sandwiched in some schedule of the case being run


def filter_form_key(lab, tid, sm):
    """'filter-forms:<filter>/<form>' -> mechanism key; names the argument forms of the
    same filter that OTHER tasks used in the schedule."""
    filt, _, form = lab.split(":", 1)[1].partition("/")
    other = sorted({f for t, f in sm.get("ff_forms", {}).get(filt, []) if t != tid and f != form})
    key = "interference:" + lab
    if other:
        key += ":other-task-used:" + filt + "/" + "+".join(other)
    return key


def shared_evalctx_key_of(overlap):
    return ("interference:eval-context-of-cached-module-shared-between-tasks:suspended-in="
            + "+".join(sorted(overlap)))


def judge_schedule(ctx, case, gates, ref_out, order, sm, where):
    """Compare one executed schedule (summary sm) with the alone-outputs ref_out.
    where: 'warm-env' | 'fresh-env' (this process) | 'pristine-process'."""
    tasks = case["tasks"]
    rcase = {"case": case, "gates": gates, "order": list(order), "fresh": where != "warm-env",
             "where": where}
    ctx.ev()
    count_watch(ctx, sm)
    ctx.count("schedules")
    ctx.count("gates_released", sm["released"])
    if where == "fresh-env":
        ctx.count("schedules_fresh_env")
    if where == "pristine-process":
        ctx.count("schedules_in_pristine_process")
        for o in sm["kind_orders"]:
            ctx.count("first_renders_of_a_process_same_type_family_" + o.replace("-", "_")
                      + "_in_other_task")
    if sm["dev"]:
        ctx.count("schedules_with_gate_count_deviation")
    if any(t.get("tglobals") for t in tasks):
        ctx.count("schedules_of_tasks_with_template_level_globals")
        if late_globals_importers(tasks, order):
            ctx.count("schedules_importer_with_template_level_globals_starts_after_task_with_others")
            if where != "warm-env":
                ctx.count("schedules_importer_with_template_level_globals_starts_after_task_with_others"
                          "_in_new_environment")
    if switches(order) >= 2:
        ctx.dist((core.h8([case["tpls"], case["tasks"], gates]), list(order), where))
    ok = True
    note = ("these were the first renders of the process"
            if where == "pristine-process" else "environment: " + where)
    for tid, r in enumerate(sm["res"]):
        ctx.count("task_outputs_compared")
        if "exc" in r:
            ok = False
            ctx.violation("interference:raises:" + r["exc"],
                          "task %d (%s) raised %s under order %s but renders alone to %r (%s)"
                          % (tid, tasks[tid]["main"], r["repr"], list(order), ref_out[tid][:200],
                             note), rcase)
        elif r["out"] != ref_out[tid]:
            ok = False
            lab = first_diff_label(ref_out[tid], r["out"])
            key = "interference:" + lab
            if sm["overlap"] and lab in GEN.LIB_USING_LABELS:
                key = shared_evalctx_key_of(sm["overlap"])
            elif lab.startswith("filter-forms:"):
                key = filter_form_key(lab, tid, sm)
            ctx.violation(key,
                          "task %d (%s, name=%r) under release order %s produced %r, alone "
                          "%r (first differing fragment: "
                          "%s; %s; a task was suspended inside these constructs of the cached "
                          "lib.j2 while others ran: %s; template %r)"
                          % (tid, tasks[tid]["main"], tasks[tid]["name"], list(order),
                             r["out"][:400], ref_out[tid][:400], lab, note, sm["overlap"],
                             case["tpls"][tasks[tid]["main"]][:400]),
                          rcase)
    return ok, bool(sm["overlap"])


def check_schedule(ctx, case, loop, env, gates, ref_out, order, fresh):
    """-> (all outputs equal, the schedule had a task suspended inside a scoped
    eval-context block of the cached library while others ran)"""
    try:
        res, released, dev, watch = loop.run_until_complete(
            run_schedule(loop, env, case["tasks"], gates, order))
    except Stuck as e:
        ctx.inconc("scheduler stuck: %s" % e)
        return False, True
    return judge_schedule(ctx, case, gates, ref_out, order, summarize(res, released, dev, watch),
                          "fresh-env" if fresh else "warm-env")


def rotation(n, first):
    return tuple((first + j) % n for j in range(n))


def persisted_key(lab):
    return "interference:persisted-in-process:" + lab


def inprocess_alone(ctx, case, loop, ref_out, phase, history, order=None):
    """Every task rendered alone again, each in a brand-new environment, must give its
    reference alone-output (rendered earlier in this process: as the very first render
    of the process, or before the schedules of the case): a difference can only come
    from state that outlived earlier renders at process level.  -> True if all equal."""
    ok = True
    for tid in (order if order is not None else range(len(case["tasks"]))):
        spec = case["tasks"][tid]
        rcase = {"case": case, "mode": "persisted", "phase": phase, "tid": tid,
                 "history": history}
        ctx.count("alone_renders_compared_with_earlier_alone_render")
        ctx.count("alone_renders_" + phase)
        try:
            o, _ = solo(loop, make_env(case), spec)
        except Exception as e:  # noqa: BLE001
            ok = False
            ctx.violation(persisted_key("raises:" + type(e).__name__),
                          "task %d (%s) rendered alone in a brand-new environment (%s) raised "
                          "%r; alone earlier in this process it gave %r"
                          % (tid, spec["main"], phase, e, ref_out[tid][:300]), rcase)
            continue
        if o != ref_out[tid]:
            ok = False
            lab = first_diff_label(ref_out[tid], o)
            ctx.violation(persisted_key(lab),
                          "task %d (%s, name=%r) rendered ALONE in a brand-new environment (%s) "
                          "gives %r; alone earlier in this process %r (first differing "
                          "fragment: %s): state shared at process level was changed by the "
                          "renders in between and persisted; template %r"
                          % (tid, spec["main"], spec["name"], phase, o[:400], ref_out[tid][:400],
                             lab, case["tpls"][spec["main"]][:400]), rcase)
    return ok


def prepare(ctx, case, loop, first, pristine, maxg=4):
    """-> (alone-outputs, gate positions); None if the case is unusable (or its alone
    renders already differ, reported).

    first: the alone renders are made in rotated task order starting with this task, so
    that over the cases either kind of task comes first.
    pristine: this process has rendered NOTHING so far (first case of the shard): the
    tasks are first released one after the other (start gates only, task `first` first)
    on one environment - `first`'s output is its alone-output in a process whose
    engine-level state is untouched; then every task is rendered alone and must give
    the same again."""
    tasks = case["tasks"]
    n = len(tasks)
    rot = rotation(n, first)
    early = None
    try:
        if pristine:
            res, released, dev, watch = loop.run_until_complete(
                run_schedule(loop, make_env(case), tasks, [[] for _ in range(n)], rot))
            sm = summarize(res, released, dev, watch)
            if any("exc" in r for r in sm["res"]):
                ctx.count("case_rejected:" + next(r["exc"] for r in sm["res"] if "exc" in r))
                return None
            early = [r["out"] for r in sm["res"]]
            ctx.count("first_renders_of_a_process_used_as_reference")
            judge_schedule(ctx, case, [[] for _ in range(n)], early, rot, sm, "pristine-process")
            if not inprocess_alone(ctx, case, loop, early,
                                   "after-the-first-renders-of-the-process",
                                   {"first": first}, rot):
                return None
        got = {tid: solo3(loop, make_env(case), tasks[tid]) for tid in rot}
        ref_out = early or [got[tid][0] for tid in range(n)]
        ncalls = [got[tid][1] for tid in range(n)]
        # g() calls the gate chooser prefers (tags 'ff..': the await points of the forced
        # filter-form pairs)
        prefer = [[i for i, t in enumerate(got[tid][2], 1) if t.startswith("ff")]
                  for tid in range(n)]
        # every task alone once more, each in a brand-new environment: the alone renders
        # of the OTHER tasks lie in between (reverse order, so the one rendered first now
        # comes after all others)
        if not early and not inprocess_alone(ctx, case, loop, ref_out, "before-the-schedules",
                                             {"alone_before": True, "rot_first": first},
                                             tuple(reversed(rot))):
            return None
        # repeatability of each task's render in an environment of its own (a template
        # whose own repeated render differs is another property's business).  The tasks
        # do NOT share that environment: what one task's render leaves behind for another
        # task's render is exactly what the schedules below must be able to show
        for spec, o in zip(tasks, ref_out):
            env0 = make_env(case)
            for _ in range(2):
                if solo(loop, env0, spec)[0] != o:
                    ctx.count("case_skipped_solo_not_repeatable")
                    return None
    except Stuck as e:
        ctx.inconc("scheduler stuck: %s" % e)
        return None
    except Exception as e:
        ctx.count("case_rejected:" + type(e).__name__)
        return None
    gates = [GEN.choose_gates(spec["gate_picks"], c, maxg, pf)
             for spec, c, pf in zip(tasks, ncalls, prefer)]
    return ref_out, gates


def kind_families(src):
    """-> {family: set of awaitability flags} of the kinds workload in a template."""
    fam = {}
    for m in re.finditer(r"\[[a-z]+\.([a-z-]+)=", src):
        if m.group(1) in KN.KINDS:
            aw, f, _ = KN.KINDS[m.group(1)]
            fam.setdefault(f, set()).add(bool(aw))
    for m in re.finditer(r"k\.note\('([a-z_-]+)', 0\)", src):
        fam.setdefault(m.group(1), set()).add(False)
    return fam


_FFUSE = re.compile(r"\[F:([a-z]+)/([a-z_]+)=")


def run_case(ctx, case, quick, rng, loop, first=0, pristine=False):
    _CASE_FF.clear()
    prep = prepare(ctx, case, loop, first % len(case["tasks"]), pristine, case.get("maxg", 4))
    if prep is None:
        return
    solo_out, gates = prep
    tasks = case["tasks"]
    counts = [len(g) + 1 for g in gates]
    total = GEN.n_orders(counts)
    cap = 400 if quick else 5000
    if case.get("ff_pair") or case.get("tg_case"):
        # the small cases built around a filter-form pair / around template-level globals
        # ride along with every generated-template case: few gates, so usually all orders
        # are below this cap
        cap = 120 if quick else 1500
    ctx.count("cases")
    ctx.count("cases_%d_tasks" % len(tasks))
    if len({t["main"] for t in tasks}) < len(tasks):
        ctx.count("cases_sharing_a_main_template")
    srcs = [case["tpls"][t["main"]] for t in tasks]
    if any("namespace()" in x or "lib.acc0(" in x or "'inc3.j2'" in x for x in srcs):
        ctx.count("cases_with_argless_namespace")
    if any("namespace(init" in x or "namespace(shared_init" in x or "lib.accd(" in x
           or "namespace(dict(" in x for x in srcs):
        ctx.count("cases_with_namespace_from_data_mapping")
    if any("lib.ae" in x for x in srcs):
        ctx.count("cases_with_imported_macro_awaiting_inside_autoescape_block")
        if any("lib.sense" in x for x in srcs):
            ctx.count("cases_with_imported_autoescape_macro_and_evalctx_probe")
    ffuses = sorted({m.group(0) for x in srcs for m in _FFUSE.finditer(x)})
    if ffuses:
        ctx.count("cases_with_filter_forms_fragment")
        ctx.count("distinct_filter_argument_forms_in_case", len(ffuses))
        ctx.count("distinct_rare_filter_argument_forms_in_case",
                  sum(1 for u in ffuses if not u.endswith("/" + FF.PLAIN + "=")))
    if case.get("ff_pair"):
        ctx.count("cases_pairing_rare_filter_forms_in_one_task_with_plain_uses_around_a_gate_in_another")
    ctx.count("cases_with_environment_specific_policy_values" if case.get("policies")
              else "cases_with_default_policy_objects")
    if any(t.get("tglobals") for t in tasks):
        ctx.count("cases_with_template_level_globals")
        if len({tg_key(t) for t in tasks}) > 1:
            ctx.count("cases_tasks_loaded_with_different_template_level_globals")
        if any(not t.get("tglobals") for t in tasks):
            ctx.count("cases_template_level_globals_in_one_task_none_in_another")
    fams = [kind_families(x) for x in srcs]
    if any(fams):
        ctx.count("cases_with_awaitable_kinds_fragment")
    if any(f in fb and (True in fa[f] and False in fb[f] or False in fa[f] and True in fb[f])
           for i, fa in enumerate(fams) for j, fb in enumerate(fams) if i != j
           and tasks[i]["main"] != tasks[j]["main"] for f in fa):
        # one task hands the engine an awaitable of a type family of which another task
        # hands it a plain value
        ctx.count("cases_same_type_family_awaitable_in_one_task_plain_in_another")
    for t in tasks:
        src = case["tpls"][t["main"]]
        for lab in sorted({seg.split(GEN.LAB, 1)[0] for seg in src.split(GEN.SEP) if GEN.LAB in seg}):
            ctx.count("fragment:" + lab.split("%}")[-1])
    if len(ctx.samples) < 3:
        ctx.sample({"tasks": [{k: t[k] for k in ("main", "name", "xs", "ae")} for t in tasks],
                    "mains": {t["main"]: case["tpls"][t["main"]] for t in tasks},
                    "gates_at_g_call": gates, "orders_total": total})
    if total <= cap:
        orders = GEN.all_orders(counts)
        ctx.count("cases_all_orders_enumerated")
        ctx.extra["orders_of_fully_enumerated_cases"] = \
            ctx.extra.get("orders_of_fully_enumerated_cases", 0) + total
    else:
        seen = set()
        lst = []
        for _ in range(cap * 3):
            o = GEN.random_order(rng, counts)
            if o not in seen:
                seen.add(o)
                lst.append(o)
            if len(lst) >= cap:
                break
        orders = iter(lst)
        ctx.count("cases_orders_sampled")
    warm = make_env(case)
    nfresh = 12 if quick else 60
    executed = 0
    last = None
    for i, order in enumerate(orders):
        # the first few orders of the list, and then every 40th, run in a brand-new
        # environment (first import of the shared library happens inside the race)
        fresh = i < nfresh or i % 40 == 0
        env = make_env(case) if fresh else warm
        ok, overlapped = check_schedule(ctx, case, loop, env, gates, solo_out, order, fresh)
        last = list(order)
        if not fresh and (overlapped or not ok):
            # interleaved save / restore of a shared eval context (or whatever made the
            # outputs differ) may have damaged the long-lived environment for good; later
            # schedules must not inherit that
            warm = make_env(case)
            ctx.count("warm_env_replaced")
        executed += 1
        if i % 50 == 49 and ctx.elapsed() > ctx.budget_s * 1.5:
            ctx.count("cases_cut_by_time")
            break
    ctx.extra["interleavings_executed"] = ctx.extra.get("interleavings_executed", 0) + executed
    for f in sorted(_CASE_FF):
        ctx.count("cases_with_rare_form_between_plain_uses_of_other_task:" + f)
    # ... and alone again, after the concurrent schedules ran in this process
    inprocess_alone(ctx, case, loop, solo_out, "after-the-schedules", {"gates": gates, "order": last})


# ------------------------------------------------------------------ module-body races
def make_modenv(case, mg):
    env = make_env(case)
    env.globals["mg"] = mg
    return env


async def run_modrace(loop, case, choices):
    """One schedule in a BRAND-NEW environment.  Every task waits at a start gate,
    at every call of its data function g() and at every call of the environment
    global mg() made by a module body it is evaluating.  Whenever all unfinished
    tasks are blocked, one is released: the one selected by the next entry of
    `choices` (index into the sorted waiting task ids, modulo their number; beyond
    the prefix: 0).
    -> (results, factors, picks, trace, per-task mg() hits, import-overlap seen)"""
    tasks = case["tasks"]
    n = len(tasks)
    waiting = {}
    task_of = {}
    in_body = [0] * n          # mg() calls currently suspended, per task
    mg_hits = [0] * n
    overlap = [False]

    async def gate(tid):
        fut = loop.create_future()
        waiting[tid] = fut
        await fut

    async def mg(tag):
        tid = task_of.get(asyncio.current_task())
        if tid is not None:
            mg_hits[tid] += 1
            if any(in_body[o] for o in range(n) if o != tid):
                # this task evaluates a module body while another task is suspended in one
                overlap[0] = True
            in_body[tid] += 1
            try:
                await gate(tid)
            finally:
                in_body[tid] -= 1
        return "~" + tag + "~"

    env = make_modenv(case, mg)
    watch = env.vt_holder.watch
    watch.task_of = task_of

    async def runner(tid):
        task_of[asyncio.current_task()] = tid
        await gate(tid)
        watch.ticks += 1
        spec = tasks[tid]

        async def g(tag):
            watch.ticks += 1
            await watch.gated(tid, lambda: gate(tid))
            return "%s.%s" % (spec["name"], tag)

        return await load_main(env, spec).render_async(name=spec["name"], g=g)

    ts = [loop.create_task(runner(i)) for i in range(n)]

    async def settle():
        for _ in range(2000):
            if all(t.done() or i in waiting for i, t in enumerate(ts)):
                return
            await asyncio.sleep(0)
        raise Stuck("a task is neither at a gate nor done")

    factors, trace, picks = [], [], []
    try:
        step = 0
        while True:
            await settle()
            if all(t.done() for t in ts):
                break
            w = sorted(waiting)
            pick = choices[step] % len(w) if step < len(choices) else 0
            picks.append(pick)
            factors.append(len(w))
            trace.append(w[pick])
            step += 1
            if step > 400:
                raise Stuck("more than 400 gate releases")
            waiting.pop(w[pick]).set_result(None)
    finally:
        for t in ts:
            if not t.done():
                t.cancel()
        res = await asyncio.gather(*ts, return_exceptions=True)
    return res, factors, picks, trace, mg_hits, overlap[0], watch


def modrace_solo(loop, case):
    """Each task's render alone in its own fresh environment (module body
    evaluated by that task, nothing concurrent), twice for repeatability."""
    outs = []
    for tid, spec in enumerate(case["tasks"]):
        one = dict(case, tasks=[spec])
        got = []
        for _ in range(2):
            res, _, _, _, hits, _, _ = loop.run_until_complete(run_modrace(loop, one, []))
            if isinstance(res[0], BaseException):
                raise res[0]
            got.append((res[0], hits[0]))
        if got[0] != got[1]:
            return None
        outs.append(got[0])
    return outs


_TG = re.compile(r"\[TG=[^\]]*\]")


def check_modrace(ctx, case, loop, solo_out, choices):
    """-> (factors, trace) of the executed schedule, or None"""
    try:
        res, factors, picks, trace, mg_hits, overlap, watch = loop.run_until_complete(
            run_modrace(loop, case, choices))
    except Stuck as e:
        ctx.inconc("module-race scheduler stuck: %s" % e)
        return None
    tasks = case["tasks"]
    ctx.ev()
    ctx.count("modrace_schedules")
    ctx.count("modrace_gates_released", len(trace))
    ctx.count("modrace_module_body_gates", sum(mg_hits))
    count_watch(ctx, {"probes": watch.probes, "probes_exposed": watch.probes_exposed,
                      "overlap": sorted(watch.overlap)}, "modrace_")
    if overlap:
        # a task reached its import (and, with an uncached module, entered the module
        # body) while another task was suspended inside the module body
        ctx.count("modrace_import_while_body_suspended")
    if sum(1 for h in mg_hits if h) >= 2:
        ctx.count("modrace_body_evaluated_by_several_tasks")
    if switches(trace) >= 2:
        ctx.dist(("modrace", core.h8([case["tpls"], case["tasks"]]), list(trace)))
    if any(t.get("tglobals") for t in tasks):
        ctx.count("modrace_schedules_of_tasks_with_template_level_globals")
        if late_globals_importers(tasks, trace):
            ctx.count("modrace_schedules_importer_with_template_level_globals_starts_after_task_"
                      "with_others")
    rcase = {"kind": "modrace", "case": case, "choices": list(picks), "trace": list(trace)}
    for tid, r in enumerate(res):
        ctx.count("task_outputs_compared")
        ctx.count("modrace_outputs_compared")
        src = case["tpls"][tasks[tid]["main"]]
        lab = src.split(GEN.LAB, 1)[0]
        if isinstance(r, BaseException):
            ctx.violation("interference:%s:raises:%s" % (lab, type(r).__name__),
                          "fresh environment, task %d (%s) raised %r under gate-release order %s "
                          "(tasks released one gate at a time; module body of mlib.j2 gated) but "
                          "renders alone to %r; mlib.j2 = %r; main = %r"
                          % (tid, tasks[tid]["main"], r, list(trace), solo_out[tid][0][:200],
                             case["tpls"]["mlib.j2"], src), rcase)
        elif r != solo_out[tid][0]:
            # every main template of these cases runs code of the cached library
            if _TG.findall(r) != _TG.findall(solo_out[tid][0]):
                # what the library rendered from the importer's template-level globals
                # (alphanumeric values, independent of the eval context)
                key = "interference:%s:template-level-globals-of-the-importer" % lab
            elif watch.overlap:
                key = shared_evalctx_key(watch)
            else:
                key = "interference:%s:output-differs" % lab
            ctx.violation(key,
                          "fresh environment, task %d (%s, name=%r) under gate-release order %s "
                          "produced %r, alone %r; mlib.j2 = %r; main = %r"
                          % (tid, tasks[tid]["main"], tasks[tid]["name"], list(trace), r[:300],
                             solo_out[tid][0][:300], case["tpls"]["mlib.j2"], src), rcase)
    return factors, trace


def modrace_alone_again(ctx, case, loop, ref):
    """After the schedules: every task alone again (fresh environment each) must give
    what it gave alone before them; a difference is interference that persisted in
    the process."""
    try:
        got = modrace_solo(loop, case)
    except Exception as e:
        got = [(repr(e), -1)] * len(ref)
    if got is None:
        ctx.count("case_skipped_solo_not_repeatable")
        return
    for tid, (g, r) in enumerate(zip(got, ref)):
        ctx.count("alone_renders_compared_with_earlier_alone_render")
        ctx.count("alone_renders_after-the-schedules")
        if g[0] != r[0]:
            spec = case["tasks"][tid]
            lab = case["tpls"][spec["main"]].split(GEN.LAB, 1)[0]
            ctx.violation(persisted_key(lab),
                          "task %d (%s) rendered ALONE in a brand-new environment after the "
                          "schedules of this case gives %r, before them %r: state shared at "
                          "process level was changed by the concurrent renders and persisted"
                          % (tid, spec["main"], g[0][:300], r[0][:300]),
                          {"kind": "modrace", "mode": "persisted", "case": case, "choices": [],
                           "trace": []})


def run_modcase(ctx, case, quick, rng, loop):
    try:
        solo_out = modrace_solo(loop, case)
    except Exception as e:
        ctx.count("modrace_case_rejected:" + type(e).__name__)
        return
    if solo_out is None:
        ctx.count("case_skipped_solo_not_repeatable")
        return
    _run_modcase(ctx, case, quick, rng, loop, solo_out)
    modrace_alone_again(ctx, case, loop, solo_out)


def _run_modcase(ctx, case, quick, rng, loop, solo_out):
    cap = 120 if quick else 3000
    if case.get("small"):
        # the template-level-globals variant rides along with every module-body race
        cap = 50 if quick else 1000
    ctx.count("modrace_cases")
    ctx.count("modrace_cases_%d_tasks" % len(case["tasks"]))
    if any(t.get("tglobals") for t in case["tasks"]):
        ctx.count("modrace_cases_with_template_level_globals")
        if len({tg_key(t) for t in case["tasks"]}) > 1:
            ctx.count("modrace_cases_tasks_loaded_with_different_template_level_globals")
    if "mlib2.j2" in case["tpls"]:
        ctx.count("modrace_cases_nested_module")
    for t in case["tasks"]:
        ctx.count("fragment:" + case["tpls"][t["main"]].split(GEN.LAB, 1)[0])
    if len({t["main"] for t in case["tasks"]}) < len(case["tasks"]):
        ctx.count("modrace_cases_sharing_a_main_template")
    if ctx.extra.get("modrace_sampled", 0) < 2:
        ctx.extra["modrace_sampled"] = ctx.extra.get("modrace_sampled", 0) + 1
        ctx.sample({"kind": "modrace", "tpls": case["tpls"], "tasks": case["tasks"]})
    # depth-first enumeration of all release orders (the set of waiting tasks at each
    # step is only known by executing), capped
    stack = [[]]
    runs = 0
    while stack and runs < cap:
        choices = stack.pop()
        got = check_modrace(ctx, case, loop, solo_out, choices)
        runs += 1
        if got is None:
            return
        factors, _ = got
        for pos in range(len(choices), len(factors)):
            for alt in range(1, factors[pos]):
                stack.append(choices + [0] * (pos - len(choices)) + [alt])
        if runs % 40 == 0 and ctx.elapsed() > ctx.budget_s * 1.5:
            ctx.count("cases_cut_by_time")
            return
    if not stack:
        ctx.count("modrace_cases_all_orders_enumerated")
        ctx.extra["modrace_orders_of_fully_enumerated_cases"] = \
            ctx.extra.get("modrace_orders_of_fully_enumerated_cases", 0) + runs
        return
    # too many orders: the depth-first prefix above only varies late decisions; add a
    # uniform-choice sample (explicit choice lists, so a failing schedule replays)
    ctx.count("modrace_cases_orders_sampled")
    seen = set()
    for _ in range(cap):
        choices = [rng.randrange(6) for _ in range(40)]
        got = check_modrace(ctx, case, loop, solo_out, choices)
        if got is None:
            return
        seen.add(tuple(got[1]))
        if len(seen) % 40 == 0 and ctx.elapsed() > ctx.budget_s * 1.5:
            ctx.count("cases_cut_by_time")
            return


def run(ctx):
    quick = ctx.tier == "quick"
    rng = ctx.rng("gen")
    loop = asyncio.new_event_loop()
    from jinja2 import Environment
    avail = sorted(set(Environment(enable_async=True).filters))
    ctx.count("builtin_filters_with_argument_forms", sum(1 for f in avail if f in FF.TABLE))
    for f in avail:
        if f not in FF.TABLE:
            ctx.count("builtin_filter_without_argument_forms:" + f)
    try:
        i = 0
        nmax = 400 if quick else 20000
        while ctx.more(i, nmax, floor=2):
            if i % 2 == 1:
                run_modcase(ctx, GEN.gen_modcase(rng), quick, ctx.rng("case%d" % i), loop)
                # ... followed by a smaller module-body race whose main templates are
                # loaded with different TEMPLATE-LEVEL GLOBALS that the library reads
                run_modcase(ctx, GEN.gen_modcase(ctx.rng("tgmod%d" % i), ctx.rng("tg%d" % i),
                                                 ctx.shard + 3 * (i // 2)),
                            quick, ctx.rng("tgcase%d" % i), loop)
            else:
                # of the generated-template cases every other one pairs a task that awaits
                # inside an autoescape block of the cached library with a task that probes
                # the library's eval context (i % 4 == 2), and every third one pairs a task
                # that starts with plain / lazy values with a task that starts with
                # awaitables of the same type families (i % 6 == 0).  The FIRST case of
                # the shard is such a pair over all families: its first renders are the
                # first renders of this process (new processes are far too expensive on
                # this machine to start more of them); the shard number decides which of
                # the two tasks goes first
                case = GEN.gen_case(rng, force_evalctx=(i % 4 == 2), force_kinds=(i % 6 == 0),
                                    all_families=(i == 0), rng2=ctx.rng("policies%d" % i))
                run_case(ctx, case, quick, ctx.rng("case%d" % i), loop,
                         first=ctx.shard + i // 2, pristine=(i == 0))
                # ... followed by a small case that pairs a task using rare argument
                # forms of 8 built-in filters between two gates with a task using the
                # plain forms of the same filters before and after a gate; shard and
                # case number select the filters, so all filters with rare forms are
                # paired whatever the seed
                pair = GEN.gen_pair_case(ctx.rng("pair%d" % i), ctx.shard + 3 * (i // 2), avail)
                run_case(ctx, pair, quick, ctx.rng("paircase%d" % i), loop,
                         first=ctx.shard + i // 2)
                # ... and by a small case whose two main templates are loaded with
                # different TEMPLATE-LEVEL GLOBALS that the shared library reads (shard and
                # case number select the variant and the kind of fragment)
                tgc = GEN.gen_tg_case(ctx.rng("tg%d" % i), ctx.shard + 3 * (i // 2))
                run_case(ctx, tgc, quick, ctx.rng("tgcase%d" % i), loop,
                         first=ctx.shard + i // 2)
            i += 1
    finally:
        loop.run_until_complete(loop.shutdown_asyncgens())
        loop.close()


def replay(ctx, obj):
    case = obj["case"]
    loop = asyncio.new_event_loop()
    try:
        if obj.get("kind") == "modrace":
            solo_out = modrace_solo(loop, case)
            if solo_out is None:
                return
            check_modrace(ctx, case, loop, solo_out, list(obj["choices"]))
            if obj.get("mode") == "persisted":
                modrace_alone_again(ctx, case, loop, solo_out)
            return
        h = obj.get("history") or {}
        if obj.get("where") == "pristine-process" or "first" in h:
            # this replay process has rendered nothing either: same first renders
            first = h["first"] if "first" in h else obj["order"][0]
            prepare(ctx, case, loop, first, True)
            return
        # (same rotation of the alone renders as in the recorded run)
        prep = prepare(ctx, case, loop, int(h.get("rot_first") or 0) % len(case["tasks"]), False,
                       case.get("maxg", 4))
        if prep is None:
            return
        solo_out, _ = prep
        if obj.get("mode") == "persisted":
            if h.get("order"):
                check_schedule(ctx, case, loop, make_env(case), h["gates"], solo_out,
                               tuple(h["order"]), True)
            inprocess_alone(ctx, case, loop, solo_out, "after-the-schedules", None)
            return
        env = make_env(case)
        if not obj.get("fresh", True):
            # the failing schedule ran in an environment that had rendered before
            # (sequential order: no task is suspended while another runs)
            counts = [len(g) + 1 for g in obj["gates"]]
            warm_order = tuple(i for i, c in enumerate(counts) for _ in range(c))
            loop.run_until_complete(run_schedule(loop, env, case["tasks"], obj["gates"],
                                                 warm_order))
        check_schedule(ctx, case, loop, env, obj["gates"], solo_out,
                       tuple(obj["order"]), bool(obj.get("fresh", True)))
    finally:
        loop.close()
