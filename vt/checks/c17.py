"""C17 — a sandboxed template cannot obtain private or internal attributes.

Probe data objects (vt/mon/c17_probe.py) log every attribute fetch with the
kind of the calling frame; private names answer with Tracer values that log
every operation; env.is_safe_attribute is wrapped to log its consultations.
Real Python objects (function, method, generator, coroutine, async generator,
class, frame, code, traceback, namedtuple, module, str, int) are used as data
too.  Forbidden (object, name) pairs on them: the name starts with an
underscore, OR it is in PINNED_INTERNAL (the internal attribute names the
sandbox module documents, pinned here so the oracle does not depend on the
function under test), OR jinja2.sandbox.is_internal_attribute says so.  All
other fetchable names of those objects ("public") are generated too and are
judged by the value oracle (5) alone.
Templates come from an adversarial grammar  base x name x access form x
consumption form x environment variant.
The receiver may also be a LITERAL written in the template (string, number,
list, dict, tuple, true/false/none; bare, parenthesised, inside constant
filter / inline-if expressions, aliased by set / loop): the compiler may
evaluate such accesses at compile time, so the environment probes are
installed before compilation and every environment variant exists with the
optimizer on and off.  The same name classification, access-form grammar,
outcome oracle and value oracle apply.
The receiver may also be an ENGINE OBJECT, i.e. something the engine itself puts
in front of the template (tables in vt/gen/c17_routes.py): the module of an
imported template ({% import X as m %}, X a loader name or a Template object
from the context, with / without context, at top level / in a block / macro /
loop / child template / included template), macro objects (local, imported,
`caller`), `self`, block references (`self.blk`, `super`), `loop` and its bound
methods, namespace / cycler / joiner objects, `varargs` / `kwargs`, the default
global function and classes, an undefined value, a Template object.  Their
private names are discovered generically (an instance grabbed in an
unsandboxed render: underscore names of dir() / instance dict / type, plus the
fixed escape-primitive dunders and the documented internal names); only
forbidden names are generated for them.  `{% from X import NAME [as ALIAS] %}`
(alone / first / last in the list, with / without context, trailing comma,
private alias, no alias) is an access form of its own: the statement names an
attribute of the imported module, the alias is what gets consumed; the
documented outcome there is a TemplateSyntaxError when compiling ("names
starting with an underline can not be imported").  Data-object receivers are
also accessed from other POSITIONS: inside an included template, inside a
macro of an imported template (argument / shared context), inside a block of a
child template, inside a call block.

The receiver of a STRING METHOD (format / format_map reached by call, subscript,
|attr, map(attribute=), map('attr'), stored in set / with / list / dict / macro
argument) is not only a str literal or Markup: the type of the format string is a
workload dimension (vt/gen/c17_strtypes.py): exact str, plain str subclass,
subclass with __html__, subclass overriding format / format_map and delegating
to str, subclass with __slots__ / own __repr__ / __eq__, second-level subclass,
Markup, Markup subclass, Markup subclass overriding format; handed in as a data
value (name, dict value, list item, set alias, |first, result of a data object's
method) or produced by a custom filter or by a gettext-like context callable
(`gettext(...)`, `_(...)`).  The private field path of the format string is the
template-chosen name; all oracles apply unchanged.

Oracle per render
 (1) no Tracer operation, no Tracer token in the output, the recording callable
     `sink` never receives a Tracer / a non-undefined value for a forbidden
     access, `is defined` is False, `|default` applies;
 (2) no attribute fetch of a template-chosen name on a probe whose immediate
     caller is template code;
 (3) every fetch of a template-chosen name on a probe by engine/stdlib code is
     followed by an is_safe_attribute consult for the same (object, name);
 (4) structural: the generated Python source (main and auxiliary templates) has
     no ast.Attribute / constant ast.Subscript / builtin getattr(x, 'name') call
     using a template-chosen name, other than those the engine generates for
     the same template with a neutral name.
 (5) value oracle, independent of every name classification: no value returned
     by env.getattr / env.getitem (instance-level probes; generated code, the
     attribute filters and format-field lookups all use them), approved by
     is_safe_attribute, received by the recording callable (directly, in a
     list, as a call result or as an iterated element) or printed is a frame,
     code or traceback object, a function-globals / builtins dict, a module
     __dict__, or a class - whatever name the template used to ask for it.
"""
from __future__ import annotations

import ast
import collections
import re
import sys
import types

from vt.gen import c17_routes as R
from vt.gen import c17_strtypes as S
from vt.mon import c17_probe as P

PID = "C17"
LEVEL = "exploration"
TECHNIQUE = "probe objects with caller-frame classification + tracer values + wrapped is_safe_attribute + AST check of generated code, over an adversarial access-path grammar (data objects, literals, engine objects, import statements, typed format-string receivers)"
RULE = ("case = (base object expression [probe root/child/list element/method result/loop or "
        "macro or set alias | real function, method, generator, coroutine, async generator, "
        "class, frame, code, traceback, namedtuple, module, str, int | literal written in the "
        "template: str, empty str, int, float, list, empty list, dict, empty dict, tuple, true, "
        "false, none - bare / parenthesised / in a constant filter or inline-if / set or loop "
        "alias | engine object: imported template module (loader name / Template object, "
        "with / without context, in block / macro / loop / child / included template), macro "
        "(local / imported / caller), self, block reference (self.blk / super), loop, loop bound "
        "method, namespace, cycler, joiner, varargs, kwargs, default global function / class, "
        "undefined value, Template object - private names discovered from a grabbed instance | "
        "probe / real object accessed inside an included template, an imported macro, a child "
        "block, a call block], name [forbidden: underscore / "
        "pinned documented internal names / is_internal_attribute; or any other fetchable "
        "name of the real object, judged by the value oracle only], access "
        "form [dot, subscript (literal/concatenated/variable), |attr, map/select*/reject*/sort/"
        "unique/groupby/sum/min/max/join attribute arguments incl. dotted+integer paths, "
        "str.format / format_map / Markup.format with positional, keyword, index, conversion, "
        "spec and nested-spec fields, stored bound format methods via set/attr/subscript/map/"
        "macro - the format string being a literal or, for every string-method form, a value of "
        "type [exact str, str subclass: plain / with __html__ / overriding format+format_map via "
        "super / __slots__ + own __repr__ + __eq__ / second level, Markup, Markup subclass, Markup "
        "subclass overriding format] provided as [data name, dict value, list item, set alias, "
        "|first, data-object method result, custom filter result, gettext(...) / _(...) result], "
        "{% from X import NAME [as ALIAS] %} alone / first / last / twice / trailing comma / "
        "private alias / no alias, with / without context], consumption form, environment variant [sync/async x autoescape x undefined "
        "type x immutable x optimizer on/off]); core = every (access form x object kind x name category) once, "
        "rest seeded sampling; distinct by that tuple; non-trivial when the harness itself can "
        "fetch the attribute from the object (so a bypass would have something to hand over)")
LEVEL_TEXT = ("held on every generated (template, data) pair: tracer silence, undefined/SecurityError "
              "(or, for from-imports of private names, TemplateSyntaxError) outcome, no template-frame fetch, consult-after-fetch, clean generated code, and no "
              "frame/code/traceback/globals-dict/module-dict/class value on any observation channel "
              "whatever the attribute name; bounded to the grammar above")
ASSUMPTIONS = [
    "template code is recognised as code objects whose co_filename is not a file on disk",
    "fetches of Python/Jinja protocol names (__class__, __html__, __call__, __aiter__, jinja_pass_arg, unsafe_callable, alters_data ...) by the engine are not attributed to the template",
    "forbidden = name starts with '_' or is in PINNED_INTERNAL or jinja2.sandbox.is_internal_attribute(obj, name) (the documented default policy)",
    "PINNED_INTERNAL is a baseline pinned at jinja commit 2aee529: exactly the names the sandbox module's documented constants (UNSAFE_GENERATOR_ATTRIBUTES, UNSAFE_COROUTINE_ATTRIBUTES, UNSAFE_ASYNC_GENERATOR_ATTRIBUTES) and the is_internal_attribute docstring (mro of a class) name as internal; it is not read from the module at run time; a deliberate upstream change of that list needs the baseline updated",
    "value oracle: frame, code and traceback objects, dicts containing '__builtins__' (function globals, builtins), module __dict__s and type objects are interpreter internals that no attribute of the generated data objects may hand to a template; the data objects were chosen so that none of their public attributes legitimately has such a value (checked by the harness per case: a public name whose own value is of such a kind is a reported violation only if the sandbox hands it over)",
    "item access with underscore keys on mappings is not attribute access and is not generated",
    "literal receivers: the forbidden names of a literal are those of the equal Python value (same classification as for context objects); the dict literals used have no underscore keys",
    "engine-object receivers: the private names are those of an instance of the same construct grabbed by a context callable in an unsandboxed render of the same jinja tree (underscore names in dir() / instance dict / type that the harness can fetch, the escape-primitive dunders, the documented internal names); only forbidden names are generated for them (their public attributes, e.g. Template.environment, are outside this property); names containing the grammar's placeholder letter 'B' are skipped",
    "{% from X import NAME as ALIAS %}: NAME is an attribute name of the imported template's module chosen by the template; docs/templates.rst (Import Visibility: 'macros and variables starting with one or more underscores are private and cannot be imported') makes TemplateSyntaxError the expected outcome; a compiled statement must still deliver an undefined value",
    "subscripting an undefined RECEIVER raises UndefinedError, accepted as a refusal for that receiver kind only; `dict` is not used as a class receiver because dict['x'] is a types.GenericAlias (item access on a generic class), not an attribute",
    "typed format-string receivers: a format string is any instance of str (subclasses included: the statement's 'str.format, format_map, Markup.format' are the methods, inherited or overridden-and-delegating, of whatever str instance the template holds); the subclasses used construct from one str argument (the sandbox rebuilds the result with type(receiver)(text)); the expected outcome for a private / internal field is the same as for a literal format string",
    "structural rule: attribute names the engine's own generated code uses (e.g. .__name__ of an imported template for an error message) are discounted by compiling the same template with a neutral attribute name",
]
NSHARDS = {"quick": 16, "thorough": 16}
BUDGET_S = {"quick": 20, "thorough": 400}
FLOORS = {
    "quick": {"evaluations": 2500, "distinct": 2500,
              "counters": {"probe_fetches": 10000, "consults": 3500, "rule3_checks": 2000,
                           "nonprotocol_fetches": 2000, "sink_undefined": 200,
                           "structural_checks": 2500, "async_renders": 700,
                           "real_object_cases": 1000, "format_cases": 1000,
                           "public_controls_ok": 32, "value_oracle_checks": 9000,
                           "dangerous_value_cases": 220, "pinned_internal_cases": 40,
                           "public_name_cases": 120, "value_controls_ok": 32,
                           "literal_receiver_cases": 450, "literal_forbidden_direct_cases": 180,
                           "unoptimized_renders": 500,
                           "engine_route_cases": 170, "engine_route_rendered": 130,
                           "from_import_cases": 30, "from_import_cases:alias": 22,
                           "aux_template_cases": 250, "route_controls_ok": 32,
                           "strtype_format_cases": 400, "strtype_subclass_cases": 300,
                           "strtype_controls_ok": 12,
                           **{"strtype_format_cases:" + k: 30 for k in S.STR_KINDS},
                           **{"strtype_provider_cases:" + k: 30 for k in S.PROVIDERS}}},
    "thorough": {"evaluations": 60000, "distinct": 50000,
                 "counters": {"probe_fetches": 250000, "consults": 80000, "rule3_checks": 50000,
                              "nonprotocol_fetches": 50000, "sink_undefined": 5000,
                              "structural_checks": 60000, "async_renders": 15000,
                              "real_object_cases": 20000, "format_cases": 20000,
                              "public_controls_ok": 32, "value_oracle_checks": 300000,
                              "dangerous_value_cases": 5000, "pinned_internal_cases": 1000,
                              "public_name_cases": 4000, "value_controls_ok": 32,
                              "literal_receiver_cases": 4000, "literal_forbidden_direct_cases": 1500,
                              "unoptimized_renders": 6000,
                              "engine_route_cases": 4000, "engine_route_rendered": 3000,
                              "from_import_cases": 800, "from_import_cases:alias": 600,
                              "aux_template_cases": 6000, "route_controls_ok": 32,
                              "strtype_format_cases": 3000, "strtype_subclass_cases": 2000,
                              "strtype_controls_ok": 12,
                              **{"strtype_format_cases:" + k: 250 for k in S.STR_KINDS},
                              **{"strtype_provider_cases:" + k: 250 for k in S.PROVIDERS}}},
}

# ------------------------------------------------------------------- data
NT = collections.namedtuple("NT", "a b")


def _fn(a=1):
    return a


class _Cls:
    pub = 1

    def meth(self):
        return 1


REAL_NAMES = [
    "__class__", "__globals__", "__code__", "__closure__", "__defaults__", "__dict__",
    "__func__", "__self__", "__module__", "__init__", "__mro__", "__subclasses__", "__bases__",
    "__base__", "mro", "gi_frame", "gi_code", "cr_frame", "cr_code", "ag_frame", "ag_code",
    "f_globals", "f_locals", "f_builtins", "f_back", "f_code", "f_lineno", "co_code",
    "co_consts", "co_names", "co_filename", "tb_frame", "tb_next", "tb_lineno", "_asdict",
    "_fields", "_replace", "_make", "__builtins__", "__name__", "__qualname__", "__doc__",
    "__reduce_ex__", "__getattribute__", "__add__", "_private", "__wrapped__",
]
#: Baseline of documented internal attribute names, PINNED (jinja 2aee529): the
#: module constants UNSAFE_GENERATOR_ATTRIBUTES / UNSAFE_COROUTINE_ATTRIBUTES /
#: UNSAFE_ASYNC_GENERATOR_ATTRIBUTES and the is_internal_attribute docstring
#: ("mro" of a class).  Deliberately a literal copy of the *documented names*,
#: not a run-time read of the module: the function under test must not be its
#: own oracle.  (UNSAFE_FUNCTION_ATTRIBUTES / UNSAFE_METHOD_ATTRIBUTES are
#: documented as empty; the docstring's func_code does not exist on Python 3.)
PINNED_INTERNAL = {
    "generator": ("gi_frame", "gi_code"),
    "coroutine": ("cr_frame", "cr_code"),
    "asyncgen": ("ag_frame", "ag_code"),
    "class": ("mro",),
    "eng_global_class": ("mro",),
}
REAL_KINDS = ["function", "method", "generator", "coroutine", "asyncgen", "class", "frame",
              "code", "traceback", "namedtuple", "module", "str", "int", "builtin"]
#: receivers that are LITERALS written in the template (no context object at
#: all): kind -> (template text, the equal Python value used to classify names).
#: The compiler may evaluate attribute access on them at compile time (constant
#: folding); the sandbox has to apply there as well.
LITERALS = {
    "lit_str": ("'abc'", "abc"),
    "lit_empty_str": ("''", ""),
    "lit_int": ("42", 42),
    "lit_float": ("1.5", 1.5),
    "lit_list": ("[1, 'a']", [1, "a"]),
    "lit_empty_list": ("[]", []),
    "lit_dict": ("{'a': 1}", {"a": 1}),
    "lit_empty_dict": ("{}", {}),
    "lit_tuple": ("(1, 2)", (1, 2)),
    "lit_true": ("true", True),
    "lit_false": ("false", False),
    "lit_none": ("none", None),
}
LITERAL_KINDS = list(LITERALS)


def make_real(kind):
    """-> (object, cleanup)"""
    if kind == "function":
        return _fn, None
    if kind == "method":
        return _Cls().meth, None
    if kind == "generator":
        return (i for i in [1]), None
    if kind == "coroutine":
        async def cf():
            return 1
        c = cf()
        return c, c.close
    if kind == "asyncgen":
        async def ag():
            yield 1
        return ag(), None
    if kind == "class":
        return _Cls, None
    if kind == "frame":
        return sys._getframe(), None
    if kind == "code":
        return _fn.__code__, None
    if kind == "traceback":
        try:
            raise ValueError("x")
        except ValueError as e:
            return e.__traceback__, None
    if kind == "namedtuple":
        return NT(1, 2), None
    if kind == "module":
        m = types.ModuleType("vt_mod")
        m._private = "MODPRIV"
        m.pub = 1
        return m, None
    if kind == "str":
        return "text", None
    if kind == "int":
        return 42, None
    if kind == "builtin":
        return len, None
    if kind in LITERALS:
        return LITERALS[kind][1], None
    if kind in R.ENGINE_BASES:
        return grab_engine_object(kind), None
    raise AssertionError(kind)


_engine_objects = {}


def grab_engine_object(kind):
    """An instance of the engine object the first base of `kind` puts in front
    of a template, grabbed by a context callable in an UNSANDBOXED render.  Used
    to discover its private names generically and as the model instance of the
    case (exemption of the receiver itself in the value oracle)."""
    if kind not in _engine_objects:
        import jinja2

        env = jinja2.Environment(loader=jinja2.DictLoader(dict(R.HELPERS)))
        wrap, bexpr = next(iter(R.ENGINE_BASES[kind].values()))[:2]
        main, _, aux = wrap.partition("@@")
        hole = "{{ grab(%s) }}" % bexpr
        if aux:
            env.loader.mapping[R.AUX_NAME] = aux.replace("BODY", hole)
        got = []

        def grab(o):
            got.append(o)
            return ""
        env.from_string(main.replace("BODY", hole)).render(grab=grab, seq=[1],
                                                           t=env.get_template("helpers"))
        _engine_objects[kind] = got[0]
    return _engine_objects[kind]


_forbidden_cache = {}


def _classify_names(kind):
    if kind not in _forbidden_cache:
        from jinja2.sandbox import is_internal_attribute

        obj, cleanup = make_real(kind)
        forb, pub = [], []
        pinned = PINNED_INTERNAL.get(kind, ())
        if kind in R.ENGINE_BASES:
            # engine receivers: only private / internal names are generated.  Every
            # single-underscore / mangled name the instance offers (dir(), instance
            # dict, type), the dunder names of the fixed escape-primitive list, the
            # documented internal names, plus the helper template's private names.
            try:
                inst = list(object.__getattribute__(obj, "__dict__"))
            except Exception:
                inst = []
            cands = sorted(set(dir(obj)) | set(dir(type(obj))) | set(inst))
            for n in REAL_NAMES + [n for n in cands if n not in REAL_NAMES]:
                if "B" in n:
                    continue        # (placeholder letter of the template grammar)
                try:
                    getattr(obj, n)
                except Exception:
                    continue
                if n.startswith("_"):
                    if n in REAL_NAMES or not (n.startswith("__") and n.endswith("__")):
                        forb.append(n)
                elif n in pinned or is_internal_attribute(obj, n):
                    forb.append(n)
            forb += R.EXTRA_NAMES.get(kind, [])
            _forbidden_cache[kind] = (forb, [])
            return _forbidden_cache[kind]
        # forbidden names: from the fixed escape-primitive list; public names:
        # everything else the object offers (dir() is sorted: deterministic)
        for n in REAL_NAMES + [n for n in sorted(dir(obj)) if n not in REAL_NAMES]:
            try:
                getattr(obj, n)
            except Exception:
                continue
            if n.startswith("_"):
                if n in REAL_NAMES:
                    forb.append(n)
            elif n in pinned or is_internal_attribute(obj, n):
                if n in REAL_NAMES or n in pinned:
                    forb.append(n)
            else:
                pub.append(n)
        if cleanup:
            cleanup()
        _forbidden_cache[kind] = (forb, pub)
    return _forbidden_cache[kind]


def real_forbidden_names(kind):
    """Names from REAL_NAMES that exist on the object and that the documented
    default policy (underscore / pinned documented internal names /
    is_internal_attribute) forbids."""
    return _classify_names(kind)[0]


def real_public_names(kind):
    """Every other fetchable name of the object: the sandbox may hand these
    over, but never with an interpreter-internal value (value oracle)."""
    return _classify_names(kind)[1]


def is_forbidden(case):
    return case["obj"] == "probe" or case["name"] in real_forbidden_names(case["obj"])


def name_category(name, objkind):
    if name.startswith("__"):
        return "__x"
    if name.startswith("_"):
        return "_x"
    if objkind != "probe" and name not in real_forbidden_names(objkind):
        return "public"
    return "internal"


# ---------------------------------------------------------------- grammar
# probe bases: (prelude/wrapper with BODY hole, expression B, parent info for
# dotted attribute paths: (parent expression, path prefix) or None)
PROBE_BASES = {
    "root": ("BODY", "p", None),
    "child": ("BODY", "p.child", ("p", "child.")),
    "kid_index": ("BODY", "p.kids[0]", ("p", "kids.0.")),
    "kid_item": ("BODY", "p[1]", ("p", "1.")),
    "method_result": ("BODY", "p.meth()", None),
    "list_first": ("BODY", "(ps|first)", None),
    "dict_value": ("BODY", "dd.p", ("dd", "p.")),
    "loop_kids": ("{% for b in p.kids %}BODY{% endfor %}", "b", None),
    "loop_probe": ("{% for b in p %}BODY{% endfor %}", "b", None),
    "set_alias": ("{% set b = p.child %}BODY", "b", None),
    "with_alias": ("{% with b = p.child %}BODY{% endwith %}", "b", None),
    "macro_param": ("{% macro bm(b) %}BODY{% endmacro %}{{ bm(p.child) }}", "b", None),
    # positions: the access is written in an included template / in a macro of an
    # imported template / in a block of a child template / in a call block
    **R.PROBE_POSITION_BASES,
}
REAL_BASES = {
    "name": ("BODY", "r", None),
    "set_alias": ("{% set b = r %}BODY", "b", None),
    "loop_var": ("{% for b in [r] %}BODY{% endfor %}", "b", None),
    "macro_param": ("{% macro bm(b) %}BODY{% endmacro %}{{ bm(r) }}", "b", None),
    **R.REAL_POSITION_BASES,
}

#: literal receivers: L = the literal text; bare, parenthesised, and wrapped in
#: expressions that are themselves compile-time constants (filter on a
#: constant, inline-if with constant test, constant alias)
LITERAL_BASES = {
    "literal": ("BODY", "L", None),
    "literal_paren": ("BODY", "(L)", None),
    "literal_const_filter": ("BODY", "(L|default(0))", None),
    "literal_const_condexpr": ("BODY", "(L if true else 0)", None),
    "literal_set_alias": ("{% set b = L %}BODY", "b", None),
    "literal_loop_var": ("{% for b in [L] %}BODY{% endfor %}", "b", None),
}


def bases_for(obj):
    if obj == "probe":
        return PROBE_BASES
    if obj in LITERALS:
        return LITERAL_BASES
    if obj in R.ENGINE_BASES:
        return R.ENGINE_BASES[obj]
    return REAL_BASES


# access forms: text -> produce (prelude, E, valued)
#   B = base expression, N = name; valued = E evaluates to the attribute value
def _split(n):
    return n[:1], n[1:]


ACCESS = {
    # name: (prelude, expression, valued)
    "dot": ("", "B.N", True),
    "subscript": ("", "B['N']", True),
    "subscript_dq": ("", 'B["N"]', True),
    "subscript_concat": ("", "B['N1' ~ 'N2']", True),
    "subscript_var": ("", "B[nm]", True),
    "subscript_set": ("{% set k = 'N' %}", "B[k]", True),
    "attr_filter": ("", "(B|attr('N'))", True),
    "attr_filter_var": ("", "(B|attr(nm))", True),
    "map_attribute": ("", "([B]|map(attribute='N')|first)", True),
    "map_attribute_list": ("", "([B]|map(attribute='N')|list)[0]", True),
    "map_attribute_var": ("", "([B]|map(attribute=nm)|first)", True),
    "map_attr_filter": ("", "([B]|map('attr', 'N')|first)", True),
    "map_dotted": ("", "([PARENT]|map(attribute='PATHN')|first)", True),
    "selectattr": ("", "([B]|selectattr('N')|list)", False),
    "selectattr_test": ("", "([B]|selectattr('N', 'equalto', 1)|list)", False),
    "selectattr_dotted": ("", "([PARENT]|selectattr('PATHN')|list)", False),
    "rejectattr": ("", "([B]|rejectattr('N')|list)", False),
    "rejectattr_test": ("", "([B]|rejectattr('N', 'none')|list)", False),
    "sort_attribute": ("", "([B, B]|sort(attribute='N')|list)", False),
    "sort_multi_attribute": ("", "([B, B]|sort(attribute='pub,N')|list)", False),
    "unique_attribute": ("", "([B, B]|unique(attribute='N')|list)", False),
    "groupby_attribute": ("", "([B]|groupby('N')|list)", False),
    "groupby_attribute_kw": ("", "([B]|groupby(attribute='N', default=0)|list)", False),
    "groupby_grouper": ("", "([B]|groupby('N')|first).grouper", True),
    "sum_attribute": ("", "([B]|sum(attribute='N'))", False),
    "min_attribute": ("", "([B, B]|min(attribute='N'))", False),
    "max_attribute": ("", "([B, B]|max(attribute='N'))", False),
    "join_attribute": ("", "([B]|join(',', attribute='N'))", False),
    "format_pos": ("", "'<{0.N}>'.format(B)", False),
    "format_auto": ("", "'<{.N}>'.format(B)", False),
    "format_kw": ("", "'<{x.N}>'.format(x=B)", False),
    "format_index": ("", "'<{0[N]}>'.format(B)", False),
    "format_conv": ("", "'<{0.N!r}>'.format(B)", False),
    "format_spec": ("", "'<{0.N:>4}>'.format(B)", False),
    "format_nested_spec": ("", "'<{0:{1.N}}>'.format('x', B)", False),
    "format_chain": ("", "'<{0.N.pub}>'.format(B)", False),
    "format_dotted": ("", "'<{0.PATHN}>'.format(PARENT)", False),
    "format_map": ("", "'<{x.N}>'.format_map({'x': B})", False),
    "format_map_index": ("", "'<{x[N]}>'.format_map({'x': B})", False),
    "markup_format": ("", "('<{0.N}>'|safe).format(B)", False),
    "markup_format_kw": ("", "('<{x.N}>'|safe).format(x=B)", False),
    "markup_format_map": ("", "('<{x.N}>'|safe).format_map({'x': B})", False),
    "markup_escape_format": ("", "('<{0.N}>'|escape).format(B)", False),
    "stored_format": ("{% set f = '<{0.N}>'.format %}", "f(B)", False),
    "stored_format_map": ("{% set f = '<{x.N}>'.format_map %}", "f({'x': B})", False),
    "stored_markup_format": ("{% set f = ('<{0.N}>'|safe).format %}", "f(B)", False),
    "stored_markup_format_map": ("{% set f = ('<{x.N}>'|safe).format_map %}", "f({'x': B})", False),
    "stored_format_in_list": ("{% set fs = ['<{0.N}>'.format] %}", "fs[0](B)", False),
    "stored_format_in_dict": ("{% set fd = {'f': '<{x.N}>'.format_map} %}", "fd.f({'x': B})", False),
    "attr_filter_format": ("", "('<{0.N}>'|attr('format'))(B)", False),
    "attr_filter_format_map": ("", "('<{x.N}>'|attr('format_map'))({'x': B})", False),
    "subscript_format": ("", "'<{0.N}>'['format'](B)", False),
    "map_attribute_format": ("", "(['<{0.N}>']|map(attribute='format')|first)(B)", False),
    "map_attr_filter_format": ("", "(['<{x.N}>']|map('attr', 'format_map')|first)({'x': B})", False),
    "macro_param_format": ("{% macro fm(f, v) %}{{ f(v) }}{% endmacro %}", "fm('<{0.N}>'.format, B)", False),
    "with_format": ("", "WITHFORMAT", False),
    "context_string_format": ("", "fmtstr.format(B)", False),
    "context_markup_format_map": ("", "fmtmarkup.format_map({'x': B})", False),
    # {% from SRC import N [as alias] %}: the statement itself names an attribute of
    # the imported template's module (SRC = loader name / Template object of the base)
    **R.FROM_IMPORT_ACCESS,
}
FROM_ACCESS = set(R.FROM_IMPORT_ACCESS)
FROM_KINDS = [k for k in R.ENGINE_KINDS if any(e[3] for e in R.ENGINE_BASES[k].values())]
DIRECT_ACCESS = {"dot", "subscript", "subscript_dq", "attr_filter"}
NEED_PARENT = {"map_dotted", "selectattr_dotted", "format_dotted"}
FORMAT_ACCESS = {k for k in ACCESS if "format" in k}
#: the format-string literal of a string-method access form
FMT_LITERAL = re.compile(r"'(<\{[^']*\}>)'")
#: string-method access forms whose receiver is a bare string literal: the TYPE of
#: that receiver is a workload dimension of its own (case["fmtrecv"] = [kind,
#: provider], tables in vt/gen/c17_strtypes.py): the literal is replaced by a
#: context value / filter result / gettext result of a str subclass
STRTYPE_ACCESS = [k for k, v in ACCESS.items()
                  if k in FORMAT_ACCESS and (FMT_LITERAL.search(v[0] + v[1]) or v[1] == "WITHFORMAT")
                  and "|safe" not in v[0] + v[1] and "|escape" not in v[0] + v[1]]

# consumption forms: E = expression; outcome = which precise outcome check applies
CONSUME = {
    "sink": ("{{ sink(E) }}", "sink"),
    "sink_kw": ("{{ sink(v=E) }}", "sink"),
    "sink_in_list": ("{{ sink([E]) }}", "sink"),
    "set_then_sink": ("{% set v = E %}{{ sink(v) }}", "sink"),
    "with_then_sink": ("{% with v = E %}{{ sink(v) }}{% endwith %}", "sink"),
    "macro_then_sink": ("{% macro sm(v) %}{{ sink(v) }}{% endmacro %}{{ sm(E) }}", "sink"),
    "defined": ("{{ (E) is defined }}", "defined"),
    "default": ("{{ (E)|default('DFLT') }}", "default"),
    "print": ("{{ E }}", None),
    "string": ("{{ E|string }}", None),
    "call": ("{{ sink((E)()) }}", "chain"),
    "call_args": ("{{ sink((E)(1, a=2)) }}", "chain"),
    "iter": ("{% for z in E %}{{ sink(z) }}{% endfor %}", "chain"),
    "concat": ("{{ E ~ '' }}", None),
    "format_filter": ("{{ '%s'|format(E) }}", None),
    "format_filter_r": ("{{ '%r|%(a)s'|format(a=E) }}", None),
    "eq": ("{{ E == 1 }}", None),
    "in": ("{{ 1 in [E] }}", None),
    "bool": ("{% if E %}Y{% else %}N{% endif %}", None),
    "attr_pub": ("{{ sink((E).pub) }}", "chain"),
    "attr_mro": ("{{ sink((E).__mro__) }}", "chain"),
    "attr_globals": ("{{ sink((E).__globals__) }}", "chain"),
    "call_mro": ("{{ sink((E).mro()) }}", "chain"),
    "call_subclasses": ("{{ sink((E).__subclasses__()) }}", "chain"),
    "init_globals": ("{{ sink((E).__init__.__globals__) }}", "chain"),
    "item0": ("{{ sink((E)[0]) }}", "chain"),
    "join": ("{{ [E, E]|join(',') }}", None),
    "list_repr": ("{{ [E] }}", None),
    "escape": ("{{ E|e }}", None),
    "length": ("{{ E|length }}", None),
    "filter_arg": ("{{ 'a'|replace('a', E) }}", None),
    "str_format_arg": ("{{ '{0}|{0!r}|{0:}'.format(E) }}", None),
}
VALUED_ACCESS = [k for k, v in ACCESS.items() if v[2]]
CHECKED_CONSUME = [k for k, v in CONSUME.items() if v[1] in ("sink", "defined", "default")]
UNDEFINEDS = ["Undefined", "StrictUndefined", "ChainableUndefined"]

#: printed forms of interpreter internals (value oracle, print channel; applied
#: to every case, also public names)
DANGER_TOKENS = ["<frame at 0x", "<code object", "<traceback object at", "<class '",
                 "'__builtins__'"]
GENERIC_TOKENS = ["<class '", "<frame ", "<code object", "<built-in method", "<bound method",
                  "<function ", "mappingproxy(", "__builtins__", "<slot wrapper",
                  "<method-wrapper", "<cell ", "<attribute '", "<member '"]


def compose(case):
    """-> source of the main template (see compose_all for auxiliary ones)"""
    return compose_all(case)[0]


def compose_all(case):
    """-> (main source, {name: source of auxiliary templates the main one
    includes / imports / extends})"""
    return _compose(case)[:2]


def _compose(case):
    """-> (main source, auxiliary templates, text of the format string that
    case["fmtrecv"] turned into a typed context value / None)"""
    entry = bases_for(case["obj"])[case["base"]]
    wrap, bexpr, parent = entry[:3]
    src = entry[3] if len(entry) > 3 else None
    if case["obj"] in LITERALS:
        lit = LITERALS[case["obj"]][0]
        wrap, bexpr = wrap.replace("L", lit), bexpr.replace("L", lit)
    name = case["name"]
    prelude, expr, valued = ACCESS[case["access"]]
    n1, n2 = _split(name)

    def fill(t):
        t = t.replace("SRC", src or "''")
        t = t.replace("PARENT", parent[0] if parent else "B")
        t = t.replace("PATHN", (parent[1] if parent else "") + "N")
        return t.replace("N1", n1).replace("N2", n2).replace("N", name).replace("B", bexpr)
    if expr == "WITHFORMAT":
        body = ("{% with f = '<{0.N}>'.format %}".replace("N", name)
                + CONSUME[case["consume"]][0].replace("E", f"f({bexpr})") + "{% endwith %}")
    else:
        body = fill(prelude) + CONSUME[case["consume"]][0].replace("E", fill(expr))
    text = None
    if case.get("fmtrecv"):
        # the receiver of the string method is not a literal but a string of the
        # given type coming from the given provider
        kind, prov = case["fmtrecv"]
        m = FMT_LITERAL.search(body)
        text = m.group(1)
        pre, pexpr = S.PROVIDERS[prov]
        pexpr = pexpr.replace("TEXT", text).replace("KIND", kind)
        body = pre + body[:m.start()] + pexpr + body[m.end():]
    main, _, aux = wrap.partition("@@")
    return (main.replace("BODY", body), ({R.AUX_NAME: aux.replace("BODY", body)} if aux else {}),
            text)


# ------------------------------------------------------------ environment
_envs = {}


def get_env(case):
    import jinja2
    from jinja2.sandbox import ImmutableSandboxedEnvironment, SandboxedEnvironment

    optimized = case.get("optimized", True)
    key = (case["async"], case["autoescape"], case["undefined"], case["immutable"], optimized)
    env = _envs.get(key)
    if env is None:
        cls = ImmutableSandboxedEnvironment if case["immutable"] else SandboxedEnvironment
        env = cls(enable_async=case["async"], autoescape=case["autoescape"],
                  undefined=getattr(jinja2, case["undefined"]), cache_size=0,
                  optimized=optimized, loader=jinja2.DictLoader(dict(R.HELPERS)))
        env.filters.update(S.filters())
        env.vt_orig_isa = env.is_safe_attribute
        _envs[key] = env
    return env


def template_names(case):
    """Names the template chose (for rules 2-4)."""
    return {case["name"]}


def _direct_accesses(env, sources, names):
    bad = []
    for src in sources:
        tree = ast.parse(env.compile(src, raw=True))
        for node in ast.walk(tree):
            if isinstance(node, ast.Attribute) and node.attr in names:
                bad.append(f"attribute .{node.attr}")
            elif isinstance(node, ast.Subscript) and isinstance(node.slice, ast.Constant) \
                    and node.slice.value in names:
                bad.append(f"subscript [{node.slice.value!r}]")
            elif isinstance(node, ast.Call) and isinstance(node.func, ast.Name) \
                    and node.func.id == "getattr" and len(node.args) >= 2 \
                    and isinstance(node.args[1], ast.Constant) and node.args[1].value in names:
                # the builtin with a constant name: the same thing spelled as a call
                # (this is how {% from X import name %} reads the imported name)
                bad.append(f"builtin getattr(..., {node.args[1].value!r})")
    return bad


def structural_check(env, source, names, aux=None, baseline=None):
    """-> (offending node descriptions in the generated Python code, template
    built from exactly that code).  Auxiliary templates (loaded by name while
    the main one renders) are compiled and inspected the same way."""
    bad = _direct_accesses(env, list((aux or {}).values()) + [source], names)
    if bad and baseline:
        # the engine's own generated code uses a few attribute names itself (the
        # import statements read .__name__ of the imported template for their error
        # message): only accesses that are NOT in the code generated for the same
        # template with a neutral attribute name count
        base = _direct_accesses(env, baseline, names)
        for b in base:
            if b in bad:
                bad.remove(b)
    tree = ast.parse(env.compile(source, raw=True))
    codeobj = compile(tree, "<template>", "exec")
    tmpl = env.template_class.from_code(env, codeobj, env.make_globals(None))
    return bad, tmpl


def _repeated(out, word):
    """loop bases print the consumption form once per iteration"""
    return bool(out) and out.replace(word, "") == ""


def run_case(ctx, case, count=True):
    from jinja2 import Undefined
    from jinja2.exceptions import SecurityError, TemplateSyntaxError
    from markupsafe import Markup

    source, aux, fmt_text = _compose(case)
    fmtrecv = case.get("fmtrecv")
    env = get_env(case)
    log = P.Log()
    received = []

    exempt = []

    def sink(*a, **k):
        for v in list(a) + list(k.values()):
            received.append(v)
            if P.contains_tracer(v):
                log.tracer("sink", "passed-to-callable")
            log.value_checks += 1
            dk = P.danger_kind(v, exempt)
            if dk:
                log.danger("recording-callable", dk, type(v).__name__)
        return ""

    is_probe = case["obj"] == "probe"
    name = case["name"]
    forbidden = is_forbidden(case)
    cleanup = None
    is_engine = case["obj"] in R.ENGINE_BASES
    is_from = case["access"] in FROM_ACCESS
    data = {"nm": name, "sink": sink, "fmtstr": "<{0.%s}>" % name,
            "fmtmarkup": Markup("<{x.%s}>" % name), "seq": [1]}
    forbidden_value = None
    if fmtrecv:
        data.update(S.data_for(fmtrecv[0], fmt_text))
    if is_probe:
        p = P.Probe(log, "p")
        p2 = P.Probe(log, "p2")
        data.update(p=p, ps=[p2], dd={"p": P.Probe(log, "dp")})
    else:
        r, cleanup = make_real(case["obj"])
        log.labels[id(r)] = "r"
        data["r"] = r
        exempt.append(r)
        if case["obj"] == "eng_global_class":
            # (the receivers themselves: the classes among the default globals)
            exempt.extend(v for v in env.globals.values() if isinstance(v, type))
        try:
            forbidden_value = getattr(r, name)
        except Exception:
            forbidden_value = None
        own_kind = P.danger_kind(forbidden_value, exempt)
        if count:
            if own_kind:
                # a bypass on this case would hand over an interpreter internal
                ctx.count("dangerous_value_cases")
                ctx.count("dangerous_value_cases:" + own_kind)
            if name in PINNED_INTERNAL.get(case["obj"], ()):
                ctx.count("pinned_internal_cases")
            if not forbidden:
                ctx.count("public_name_cases")
    # instance-level recording wrapper (re-installed per case: fresh log)
    orig = env.vt_orig_isa

    def is_safe_attribute(obj, attr, value):
        verdict = orig(obj, attr, value)
        log.consult(obj, attr, verdict, value)
        if verdict:
            log.value_checks += 1
            dk = P.danger_kind(value, exempt)
            if dk:
                log.danger("is_safe_attribute=True", dk, f"{type(obj).__name__}.{attr}")
        return verdict
    env.is_safe_attribute = is_safe_attribute
    unhook = P.install_value_hooks(env, log, exempt)
    full = dict(case, source=source, aux=aux)
    names = template_names(case)
    mech = f"{case['access']}:{case['obj']}:{name_category(name, case['obj'])}"
    if fmtrecv:
        # (the type of the string whose method is reached, and where it came from)
        mech = f"{case['access']}[{fmtrecv[0]} via {fmtrecv[1]}]:{case['obj']}:" \
               f"{name_category(name, case['obj'])}"
    dist_key = [case[k] for k in ("obj", "base", "name", "access", "consume", "async",
                                  "autoescape", "undefined", "immutable")] \
        + [case.get("optimized", True)] + list(fmtrecv or ())
    if count:
        if fmtrecv:
            ctx.count("strtype_format_cases")
            ctx.count("strtype_format_cases:" + fmtrecv[0])
            ctx.count("strtype_provider_cases:" + fmtrecv[1])
            if fmtrecv[0] in S.SUBCLASS_KINDS:
                ctx.count("strtype_subclass_cases")
        if is_engine:
            ctx.count("engine_route_cases")
            ctx.count("engine_route_cases:" + case["obj"])
        if is_from:
            ctx.count("from_import_cases")
            ctx.count("from_import_cases:" + ("alias" if "_as" in case["access"] else "plain"))
        if aux:
            ctx.count("aux_template_cases")
    env.loader.mapping.update(aux)
    try:
        try:
            if is_engine:
                # (a Template object of this environment for {% import t %} / {% from t %})
                data["t"] = env.get_template("helpers")
            n_src, n_aux = compose_all(dict(case, name="vtneutral"))
            bad, tmpl = structural_check(env, source, names, aux,
                                         baseline=list(n_aux.values()) + [n_src])
        except TemplateSyntaxError as e:
            if count:
                ctx.count("syntax_rejected")
                ctx.count("syntax_rejected:" + case["access"] + "/" + case["consume"])
                if is_from and forbidden:
                    # the documented outcome of importing a private name: the
                    # statement is refused when the template is compiled
                    ctx.ev()
                    ctx.dist(dist_key)
                    ctx.count("from_import_rejected")
            return False
        except Exception as e:
            # constant folding evaluates parts of the template while compiling: an
            # exception raised there (SecurityError from an unsafe undefined that is
            # concatenated / compared at compile time) is the outcome of the case
            bad, tmpl = [], None
            out, exc = None, (type(e).__name__, str(e)[:160])
            if count:
                ctx.count("compile_time_outcome:" + type(e).__name__)
        if count and tmpl is not None:
            ctx.count("structural_checks")
        if bad and forbidden:
            # (public names of real objects, e.g. 'format' or 'join', legitimately
            # occur as filter names / engine attributes in generated code)
            ctx.violation(f"structural-direct-access:{mech}",
                          f"generated code for {source!r} contains {bad[:3]} on template-chosen "
                          f"name(s) {sorted(names)}", full)
        try:
            if tmpl is not None:
                out = tmpl.render(**data)
                exc = None
        except SecurityError as e:
            out, exc = None, ("SecurityError", str(e)[:160])
        except Exception as e:
            out, exc = None, (type(e).__name__, str(e)[:160])
    finally:
        env.is_safe_attribute = orig
        unhook()
        for k in aux:
            env.loader.mapping.pop(k, None)
        if cleanup:
            cleanup()
    ev = log.events
    fetches = [e for e in ev if e[0] == "fetch" and e[3] != "harness"]
    consults = [e for e in ev if e[0] == "consult"]
    tracer_ops = [e for e in ev if e[0] == "tracer"]
    outcome_kind = CONSUME[case["consume"]][1]
    valued = ACCESS[case["access"]][2]
    if count:
        ctx.ev()
        ctx.count("probe_fetches", len(fetches))
        ctx.count("consults", len(consults))
        ctx.count("outcome:" + (exc[0] if exc else "rendered"))
        for e in fetches:
            ctx.count("fetch_from:" + e[3])
            if e[2] not in P.PROTOCOL_NAMES:
                ctx.count("nonprotocol_fetches")
        if case["async"]:
            ctx.count("async_renders")
        if case["obj"] in LITERALS:
            ctx.count("literal_receiver_cases")
            ctx.count("literal_receiver_cases:" + ("optimized" if case.get("optimized", True)
                                                   else "unoptimized"))
            if forbidden and case["base"] in ("literal", "literal_paren"):
                ctx.count("literal_forbidden_direct_cases")
        elif is_engine:
            ctx.count("engine_route_rendered")
        elif not is_probe:
            ctx.count("real_object_cases")
        if not case.get("optimized", True):
            ctx.count("unoptimized_renders")
        if case["access"] in FORMAT_ACCESS:
            ctx.count("format_cases")
        ctx.count("value_oracle_checks", log.value_checks)
        ctx.dist(dist_key)
    where = f"{source!r} (obj={case['obj']}, " \
            + (f"format string = {fmtrecv[0]} {fmt_text!r} via {fmtrecv[1]}, " if fmtrecv else "") + \
            f"async={case['async']}, autoescape={case['autoescape']}, " \
            f"undefined={case['undefined']}, optimized={case.get('optimized', True)}) -> {exc or out!r}"
    # ---- (1) tracer silence / tokens / hand-over
    if tracer_ops:
        ctx.violation(f"tracer-used:{mech}",
                      f"private attribute value was used: {tracer_ops[:4]} in {where}", full)
    # ---- (5) value oracle: independent of the name classification
    dangers = [e for e in ev if e[0] == "danger"]
    if out is not None and (valued or case["access"] in FORMAT_ACCESS):
        # (the other access forms print the context object itself, e.g. the
        # filtered list [r], and r may be a class / frame / code object)
        own = "".join(repr(o) for o in exempt)
        for t in DANGER_TOKENS:
            if t in out and t not in own:
                dangers.append(["danger", "printed", {"<frame at 0x": "frame", "<code object": "code",
                                                      "<traceback object at": "traceback",
                                                      "<class '": "class"}.get(t, "globals-dict"), t])
    seen_kinds = []
    for _, channel, vkind, detail in dangers:
        if vkind in seen_kinds:
            continue
        seen_kinds.append(vkind)
        chans = sorted({d[1] for d in dangers if d[2] == vkind})
        ctx.violation(f"internal-value-handed:{mech}:{vkind}",
                      f"a {vkind} value reached the template (channels {chans}, first: {channel} "
                      f"{detail}) for name {name!r}: {where}", full)
    if not forbidden:
        # public name of a real object: only the value oracle (and the tracer
        # channel above) applies; the sandbox may hand the value over
        return True
    if out is not None:
        toks = [P.TOKEN] if P.TOKEN in out else []
        if not is_probe and forbidden_value is not None and (valued or case["access"] in FORMAT_ACCESS):
            fv = str(forbidden_value)
            if len(fv) >= 6 and fv in out:
                toks.append(fv[:60])
        if valued or case["access"] in FORMAT_ACCESS:
            toks += [t for t in GENERIC_TOKENS if t in out]
        if toks:
            ctx.violation(f"value-in-output:{mech}", f"output contains {toks[:3]}: {where}", full)
    if valued and outcome_kind in ("sink", "chain"):
        leaked = []
        for v in received:
            inner = v[0] if (isinstance(v, list) and len(v) == 1) else v
            if not isinstance(inner, Undefined):
                leaked.append(repr(inner)[:80])
        if leaked:
            ctx.violation(f"handed-to-callable:{mech}",
                          f"recording callable received {leaked[:2]} for a forbidden access: {where}",
                          full)
        elif received and count:
            ctx.count("sink_undefined")
        if not received and exc is None:
            # the sink was never reached although nothing was raised: only
            # possible for the iter form (empty iteration over an undefined)
            if case["consume"] != "iter" and count:
                ctx.count("sink_not_reached")
    # (subscripting / using an undefined RECEIVER raises UndefinedError: nothing is
    # handed over either)
    refused = ("SecurityError", "UndefinedError") if case["obj"] == "eng_undefined" \
        else ("SecurityError",)
    if valued and outcome_kind == "defined":
        if not ((exc and exc[0] in refused) or _repeated(out, "False")):
            ctx.violation(f"defined-not-false:{mech}",
                          f"forbidden attribute is not an undefined value: {where}", full)
        elif count:
            ctx.count("defined_false")
    if valued and outcome_kind == "default":
        if not ((exc and exc[0] in refused) or _repeated(out, "DFLT")):
            ctx.violation(f"default-not-applied:{mech}",
                          f"forbidden attribute is not an undefined value: {where}", full)
        elif count:
            ctx.count("default_applied")
    # ---- (2) template-frame fetch, (3) consult after fetch
    for i, e in enumerate(ev):
        if e[0] != "fetch" or e[3] == "harness":
            continue
        _, label, fname, kind, vid = e
        if fname in P.PROTOCOL_NAMES:
            continue
        if kind == "template":
            ctx.violation(f"template-frame-fetch:{mech}",
                          f"generated template code fetched {label}.{fname} directly: {where}", full)
            continue
        if count:
            ctx.count("rule3_checks")
        ok = any(c[0] == "consult" and c[1] == label and c[2] == fname for c in ev[i + 1:])
        if not ok:
            ctx.violation(f"fetch-without-consult:{mech}",
                          f"{label}.{fname} fetched from {kind} code and no is_safe_attribute "
                          f"consult for it follows: events {ev[max(0, i - 1):i + 4]} in {where}", full)
    return True


def public_control(ctx, is_async, autoescape):
    """Monitor sanity + no over-blocking of what the docs allow: public
    attributes and public format fields reach the template, and the probe
    sees those fetches coming from sandbox code with a consult."""
    case = {"async": is_async, "autoescape": autoescape, "undefined": "Undefined",
            "immutable": False}
    env = get_env(case)
    log = P.Log()
    p = P.Probe(log, "p")
    P_orig = env.vt_orig_isa

    def isa(obj, attr, value):
        v = P_orig(obj, attr, value)
        log.consult(obj, attr, v, value)
        return v
    env.is_safe_attribute = isa
    try:
        out = env.from_string("{{ p.pub }}|{{ '{0.pub}'.format(p) }}|{{ [p]|map(attribute='child.pub')|first }}"
                              "|{{ p|attr('label') }}|{{ p.kids[1].pub }}").render(p=p)
    finally:
        env.is_safe_attribute = P_orig
    want = "PUBVAL-p|PUBVAL-p|PUBVAL-p.child|p|PUBVAL-p.kids[1]"
    fetched = [e for e in log.events if e[0] == "fetch" and e[2] == "pub"]
    consulted = [e for e in log.events if e[0] == "consult" and e[2] == "pub" and e[3]]
    if out != want or len(fetched) < 4 or len(consulted) < 4 or \
            any(e[3] != "sandbox" for e in fetched):
        ctx.inconc(f"monitor self-test failed: out={out!r} fetched={fetched} consulted={consulted}")
    else:
        ctx.count("public_controls_ok")
    # the tracer channel itself: an unsandboxed environment must trip it
    import jinja2

    log2 = P.Log()
    p2 = P.Probe(log2, "p")
    o2 = jinja2.Environment().from_string("{{ p._secret }}").render(p=p2)
    if P.TOKEN not in o2 or not any(e[0] == "tracer" for e in log2.events):
        ctx.inconc("monitor self-test failed: tracer channel silent in an unsandboxed environment")


def value_control(ctx, is_async, autoescape):
    """Self-test of the value oracle's channels: in an UNSANDBOXED environment
    with the same probes installed, internals must be seen on every channel."""
    import jinja2

    env = jinja2.Environment(enable_async=is_async, autoescape=autoescape, cache_size=0)
    want = {"asyncgen": ("ag_frame", "frame"), "generator": ("gi_code", "code"),
            "function": ("__globals__", "globals-dict"), "int": ("__class__", "class"),
            "traceback": ("tb_frame", "frame"), "module": ("__dict__", "module-dict")}
    ok = True
    for kind, (attr, vkind) in want.items():
        log = P.Log()
        r, cleanup = make_real(kind)
        exempt = [r]

        def sink(v):
            k = P.danger_kind(v, exempt)
            if k:
                log.danger("recording-callable", k, "")
            return ""
        unhook = P.install_value_hooks(env, log, exempt)
        try:
            env.from_string("{{ sink(r.%s) }}{{ '{0.%s}'.format(r)[:0] }}" % (attr, attr)).render(r=r, sink=sink)
        finally:
            unhook()
            if cleanup:
                cleanup()
        got = {(e[1], e[2]) for e in log.events if e[0] == "danger"}
        if not {("env.getattr", vkind), ("recording-callable", vkind)} <= got:
            ok = False
            ctx.inconc(f"value-oracle self-test failed for {kind}.{attr}: {sorted(got)}")
    if "getattr" in env.__dict__ or P.danger_kind([1, "a", {"x": 1}, None]) is not None:
        ok = False
        ctx.inconc("value-oracle self-test failed: hooks left behind / benign value classified")
    if ok:
        ctx.count("value_controls_ok")


def route_control(ctx, is_async, autoescape):
    """Monitor sanity for the engine-object routes: imports (loader name and
    Template object, with / without context), from-imports with alias, loop,
    namespace / cycler / joiner, varargs / kwargs, caller, self / super, default
    globals and include are alive in the sandboxed environments used here and
    hand over PUBLIC names."""
    case = {"async": is_async, "autoescape": autoescape, "undefined": "Undefined",
            "immutable": False}
    env = get_env(case)
    ok = True
    for src, want in R.ROUTE_CONTROLS:
        try:
            out = env.from_string(src).render(t=env.get_template("helpers"))
        except Exception as e:
            out = f"{type(e).__name__}: {e}"
        if out != want:
            ok = False
            ctx.inconc(f"route self-test failed: {src!r} -> {out!r}, expected {want!r}")
    # the from-import channel itself: an aliased PUBLIC name reaches the recording
    # callable (so an aliased private one would, if the statement let it through)
    got = []
    env.from_string("{% from t import public as fc %}{{ sink(fc) }}").render(
        t=env.get_template("helpers"), sink=lambda v: got.append(v) or "")
    if got != ["PUBMOD"]:
        ok = False
        ctx.inconc(f"route self-test failed: from-import alias channel gave {got!r}")
    if ok:
        ctx.count("route_controls_ok")


STRTYPE_CONTROL_ACCESS = ["format_pos", "format_kw", "format_map", "stored_format",
                          "stored_format_map", "attr_filter_format", "attr_filter_format_map",
                          "subscript_format", "map_attribute_format", "map_attr_filter_format",
                          "macro_param_format", "with_format", "stored_format_in_list",
                          "stored_format_in_dict"]


def strtype_control(ctx, is_async, autoescape):
    """Monitor sanity for the typed format-string receivers: with every receiver
    kind x provider the string-method routes are alive in the sandboxed
    environments used here and a PUBLIC field is formatted (no over-blocking, and
    a private field would have something to deliver)."""
    ok = True
    n = 0
    for kind in S.STR_KINDS:
        for prov in S.PROVIDERS:
            n += 1
            access = STRTYPE_CONTROL_ACCESS[(n + ctx.shard) % len(STRTYPE_CONTROL_ACCESS)]
            case = {"obj": "probe", "base": "root", "name": "pub", "access": access, "consume": "sink",
                    "async": is_async, "autoescape": autoescape, "undefined": "Undefined",
                    "immutable": False, "fmtrecv": [kind, prov]}
            source, aux, text = _compose(case)
            env = get_env(case)
            log = P.Log()
            got = []
            data = {"p": P.Probe(log, "p"), "sink": lambda v: got.append(v) or ""}
            data.update(S.data_for(kind, text))
            try:
                env.from_string(source).render(**data)
            except Exception as e:
                got.append(f"{type(e).__name__}: {e}")
            # (a macro in an autoescaping environment returns the escaped text)
            if [str(g).replace("&lt;", "<").replace("&gt;", ">") for g in got] != ["<PUBVAL-p>"] \
                    or not isinstance(got[0], str):
                ok = False
                ctx.inconc(f"typed format-string self-test failed: {source!r} ({kind} via {prov}) "
                           f"-> {got!r}")
    if ok:
        ctx.count("strtype_controls_ok")


# ------------------------------------------------------------------ cases
def env_variant(i):
    return {"async": i % 3 == 0, "autoescape": i % 2 == 0,
            "undefined": UNDEFINEDS[i % 3 if i % 5 else (i // 5) % 3], "immutable": i % 7 == 0,
            "optimized": i % 4 != 3}


def applicable(case):
    parent = bases_for(case["obj"])[case["base"]][2]
    if case["access"] in NEED_PARENT and parent is None:
        return False
    if case["access"] in FROM_ACCESS:
        entry = bases_for(case["obj"])[case["base"]]
        if len(entry) < 4 or not entry[3]:
            return False        # needs a base that names a template to import from
    if case["obj"] == "coroutine" and case["base"] != "name" and case["async"]:
        # an async for/macro would await the coroutine object itself
        return False
    return True


#: consumption forms rotated over the literal-receiver core: the precise
#: outcome checks, printing, statement positions (set / if / filter argument)
#: and chained access on the result
LIT_SINKS = ["sink", "defined", "default", "print", "set_then_sink", "bool", "filter_arg",
             "attr_mro", "call_subclasses", "string", "list_repr", "call", "init_globals",
             "with_then_sink", "iter"]


def core_cases():
    out = []
    i = 0
    sinks = ["sink", "defined", "default", "print", "call", "iter", "string"]
    for access in ACCESS:
        # probes: one private and one dunder name per access form, all bases over time
        for ni, name in enumerate(P.PRIVATE_NAMES):
            i += 1
            base = list(PROBE_BASES)[i % len(PROBE_BASES)]
            c = {"obj": "probe", "base": base, "name": name, "access": access,
                 "consume": sinks[i % len(sinks)], **env_variant(i)}
            if not applicable(c):
                if access in FROM_ACCESS:
                    continue        # (needs a template to import from: engine receivers below)
                c["base"] = "child"
            out.append(c)
        for kind in REAL_KINDS:
            pub = real_public_names(kind)
            # every forbidden name + one rotating public name (value oracle only)
            for name in real_forbidden_names(kind) + ([pub[i % len(pub)]] if pub else []):
                i += 1
                rb = list(REAL_BASES)
                # (second term: base and consumption form must not rotate in lockstep)
                c = {"obj": kind, "base": rb[(i + i // len(sinks)) % len(rb)], "name": name,
                     "access": access, "consume": sinks[i % len(sinks)], **env_variant(i)}
                if applicable(c):
                    out.append(c)
        for kind in LITERAL_KINDS:
            pub = real_public_names(kind)
            # literal receivers: every forbidden name of the literal's type + one
            # rotating public name, bare literal and folded/aliased forms in turn
            for name in real_forbidden_names(kind) + ([pub[i % len(pub)]] if pub else []):
                i += 1
                lb = list(LITERAL_BASES)
                c = {"obj": kind, "base": lb[i % 2] if i % 3 else lb[2 + (i // 3) % 4], "name": name,
                     "access": access, "consume": LIT_SINKS[i % len(LIT_SINKS)], **env_variant(i)}
                if applicable(c):
                    out.append(c)
        for kind in R.ENGINE_KINDS:
            # engine-object receivers: one rotating private / internal name per
            # (access form x kind), bases in turn; the {% from %} forms (where the
            # statement names the attribute) with EVERY name of the module
            bases = list(R.ENGINE_BASES[kind])
            names = real_forbidden_names(kind)
            if access in FROM_ACCESS:
                bases = [b for b in bases if R.ENGINE_BASES[kind][b][3]]
                if not bases:
                    continue
            elif access in DIRECT_ACCESS:
                pass        # the plain syntactic forms: every name as well
            else:
                i += 1
                names = [names[i % len(names)]]
            for name in names:
                i += 1
                c = {"obj": kind, "base": bases[(i + i // len(LIT_SINKS)) % len(bases)], "name": name,
                     "access": access, "consume": LIT_SINKS[i % len(LIT_SINKS)], **env_variant(i)}
                if applicable(c):
                    out.append(c)
    # typed format-string receivers: every (string-method access form x receiver
    # kind x provider) with a probe (rotating private name / base) and with a real
    # object (rotating kind / forbidden name)
    pb = [b for b in PROBE_BASES]
    for access in STRTYPE_ACCESS:
        for skind in S.STR_KINDS:
            for prov in S.PROVIDERS:
                i += 1
                c = {"obj": "probe", "base": pb[i % len(pb)],
                     "name": P.PRIVATE_NAMES[(i + i // len(pb)) % len(P.PRIVATE_NAMES)],
                     "access": access, "consume": sinks[i % len(sinks)], **env_variant(i),
                     "fmtrecv": [skind, prov]}
                if not applicable(c):
                    c["base"] = "child"
                out.append(c)
                i += 1
                kind = REAL_KINDS[i % len(REAL_KINDS)]
                names = real_forbidden_names(kind)
                rb = list(REAL_BASES)
                c = {"obj": kind, "base": rb[(i + i // len(sinks)) % len(rb)],
                     "name": names[(i // len(REAL_KINDS)) % len(names)],
                     "access": access, "consume": sinks[i % len(sinks)], **env_variant(i),
                     "fmtrecv": [skind, prov]}
                if applicable(c):
                    out.append(c)
    return out


def random_case(rng):
    while True:
        x = rng.random()
        if x < 0.42:
            obj = "probe"
            base = rng.choice(list(PROBE_BASES))
            name = rng.choice(P.PRIVATE_NAMES)
        elif x < 0.45:
            # {% from X import NAME ... %}: any importable-from base, any private name
            obj = rng.choice(FROM_KINDS)
            base = rng.choice([b for b, e in R.ENGINE_BASES[obj].items() if e[3]])
            return {"obj": obj, "base": base, "name": rng.choice(real_forbidden_names(obj)),
                    "access": rng.choice(sorted(FROM_ACCESS)),
                    "consume": rng.choice(CHECKED_CONSUME if rng.random() < 0.5 else list(CONSUME)),
                    **env_variant(rng.randrange(420))}
        elif x < 0.55:
            obj = rng.choice(R.ENGINE_KINDS)
            base = rng.choice(list(R.ENGINE_BASES[obj]))
            name = rng.choice(real_forbidden_names(obj))
        elif x < 0.68:
            obj = rng.choice(LITERAL_KINDS)
            base = rng.choice(list(LITERAL_BASES))
            names = real_forbidden_names(obj)
            if rng.random() < 0.15:
                names = real_public_names(obj)
            if not names:
                continue
            name = rng.choice(names)
        else:
            obj = rng.choice(REAL_KINDS)
            base = rng.choice(list(REAL_BASES))
            names = real_forbidden_names(obj)
            if rng.random() < 0.25:
                names = real_public_names(obj)
            if not names:
                continue
            name = rng.choice(names)
        access = rng.choice(VALUED_ACCESS if rng.random() < 0.4 else list(ACCESS))
        consume = rng.choice(CHECKED_CONSUME if rng.random() < 0.4 else list(CONSUME))
        c = {"obj": obj, "base": base, "name": name, "access": access,
             "consume": consume, **env_variant(rng.randrange(420))}
        if access in STRTYPE_ACCESS and rng.random() < 0.4:
            c["fmtrecv"] = [rng.choice(list(S.STR_KINDS)), rng.choice(list(S.PROVIDERS))]
        if applicable(c):
            return c


def run(ctx):
    import warnings

    warnings.simplefilter("ignore")
    quick = ctx.tier == "quick"
    for a in (False, True):
        for ae in (False, True):
            public_control(ctx, a, ae)
            value_control(ctx, a, ae)
            route_control(ctx, a, ae)
    strtype_control(ctx, ctx.shard % 2 == 1, ctx.shard % 4 >= 2)
    core = core_cases()
    ctx.extra["core_cases_total"] = len(core) if ctx.shard == 0 else 0
    stride = 5 if quick else 1
    n = 0
    for i, case in enumerate(core):
        if not ctx.mine(i):
            continue
        # quick: every seed takes a fifth of the core, INTERLEAVED (neighbouring
        # cases - the names of one access form x object kind - go to different
        # seeds, so each seed sees some name of every combination)
        if quick and (i // ctx.nshards + i) % stride != ctx.seed % stride:
            continue
        run_case(ctx, case)
        n += 1
        if n <= 1 and ctx.shard < 4:
            ctx.sample(dict(case, source=compose(case)))
        elif case["access"] in FROM_ACCESS and n % 7 == 0 and ctx.shard >= 12:
            ctx.sample(dict(case, source=compose(case)))
    ctx.count("core_cases", n)
    rng = ctx.rng("rand")
    i = 0
    n_max = 450 if quick else 30000
    while ctx.more(i, n_max, floor=150):
        case = random_case(rng)
        run_case(ctx, case)
        if i < 1 and ctx.shard < 4:
            ctx.sample(dict(case, source=compose(case)))
        i += 1
    ctx.count("random_cases", i)


def replay(ctx, case):
    import warnings

    warnings.simplefilter("ignore")
    run_case(ctx, case, count=False)
