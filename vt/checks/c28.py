"""C28 — loaders never read outside their search locations; choice/prefix
loaders resolve to the first loader that has the name.  Audit-hook monitor over
an exhaustively enumerated name space + model comparison over random loader
compositions, static and dynamic (leaves gain/lose names between lookups on the
same composed loader instance)."""
from __future__ import annotations

import importlib
import itertools
import json
import os
import pathlib
import shutil
import sys
import tempfile
import unicodedata

PID = "C28"
LEVEL = "exploration"
TECHNIQUE = "sys.addaudithook('open') monitor + path-containment oracle over an exhaustive name space; resolution model for composed loaders"
RULE = ("names: every sequence of 1..4 (thorough: 1..5) segments over {'..','.','','a','b.txt','a\\\\b','C:','\\\\\\\\x','é',"
        "'..a','a..',' '} joined by '/', x optional leading '/' x optional trailing '/', plus the "
        "absolute paths of all sentinel files (plain, '//'-prefixed, '.'-prefixed); each name is given to "
        "FileSystemLoader(abs dir), FileSystemLoader([relative dir, PathLike dir]), "
        "FileSystemLoader([PathLike, abs]) and PackageLoader(directory package on sys.path; package_path "
        "'templates' and 'data/inner') via loader.get_source and (for found names and a sample of the "
        "others) Environment.get_template, while an audit hook records every open(); the search "
        "directories hold a 3-level tree built from the same fragments and every enclosing directory "
        "holds equally named sentinel files. hostile names (same loader configurations, get_source and "
        "get_template, same audit monitor): names the operating system refuses or that designate "
        "something other than a regular file -- a piece with a NUL character, a piece of 256 bytes "
        "(ASCII and 2-byte UTF-8; 255 bytes as the legal control), a path whose pieces are legal but whose "
        "total length exceeds PATH_MAX, a lone surrogate (not encodable as a file name), a dangling "
        "symlink, a symlink pointing at itself, a unix socket, a directory, a path running through a "
        "regular file -- each alone, below an existing directory, above an existing file name and with "
        "'.', '', leading and trailing '/'; the answer must be TemplateNotFound (any other exception is "
        "a violation) unless a LATER search directory holds a regular file under that name (sp2 does for "
        "the symlink / socket / directory names and has a directory where sp1 has a file), which must then "
        "be returned. names EQUIVALENT to path metacharacters (same loader configurations, "
        "get_source and get_template, same audit monitor): every code point that is not '.', '/', "
        "'\\' or ':' but whose NFKC / NFKD / NFC / NFD / casefold / lower / upper form contains one "
        "(set computed from unicodedata: one/two dot leaders, small and full-width full stop / "
        "solidus / reverse solidus / colon, 'a/c', '1.', ellipsis ...); every string of <=2 such "
        "characters (and '.') that translates to '..' put into 8 escape shapes (D/b.txt, D/D/b.txt, "
        "a/D/D/b.txt, /D/b.txt ...), every separator equivalent into 7 shapes (..Sb.txt, "
        "aS..S..Sb.txt, DSDSDSsecret.txt, a sentinel's absolute path with S for '/'), alone and "
        "combined with translated parent references, every other such code point as a piece / "
        "doubled / next to real dots / in front of translated parent references; the same shapes "
        "spelled percent-encoded (%2e, %2E, %252e, %2f, %5c) and as over-long UTF-8 (surrogate-"
        "escaped bytes C0 AE / C0 AF); '..' with every format character (category Cf) and every "
        "space separator (Zs, tab) inside, before and after it. Whatever the loader answers, the "
        "audit monitor must see no open() outside the search directories and no sentinel content "
        "may come back. compositions: random ChoiceLoader/PrefixLoader/DictLoader "
        "(and FileSystemLoader leaves) trees of depth<=3, all names of <=2 and a fifth of those of 3 segments over 6 fragments (+ ':' / '.' delimiter variants), "
        "get_source and get_template compared with a 10-line resolution model (a PrefixLoader has a "
        "name iff the name contains the delimiter, the text before its first occurrence is a registered "
        "prefix and that prefix's loader has the rest; a ChoiceLoader answers with its first loader that "
        "has the name); leaves are DictLoader, "
        "FunctionLoader (load function answering with a str or a (source, filename, uptodate) tuple, "
        "None for a missing name), CATCH-ALL FunctionLoaders (a template for every name, or for every "
        "name with a given ending -- the empty name included) and FileSystemLoader, and about one template in six of a dict/function "
        "leaf as well as four files of the search directories are EMPTY (a loader that holds the empty "
        "source has the name); a third of the dict / function leaves hold the EMPTY NAME '' (and "
        "names that are a delimiter only); prefixes are drawn from a, b, p, q, x.html, aa, ab (string "
        "prefixes of each other) and, in 15% of the prefix loaders, the empty prefix; delimiters '/', "
        "':', '.', '::'; the pool holds ~75 edge names of the naming rule: '', each delimiter alone, "
        "each prefix alone (no delimiter), each prefix + each delimiter (empty local name), a leading "
        "delimiter, doubled / trailing / mixed delimiters, names under aa / ab; the evidence counts "
        "how often a looked-up name was a registered prefix without delimiter while the prefix's "
        "loader has the empty name, an empty local name was found, the empty prefix was used ...; "
        "20 hostile names (NUL, over-long piece / path, lone surrogate, the "
        "special directory entries) are in the pool: dict / function leaves hold them in 40% of the "
        "cases, FileSystemLoader leaves (15% of the nodes at depth<=2) must answer them with "
        "TemplateNotFound so that a later loader gets its turn. dynamic compositions: "
        "per shard 40 (thorough 1200) random ChoiceLoader/PrefixLoader trees of depth<=3 over DictLoader "
        "and FunctionLoader leaves (the harness keeps the mapping), FileSystemLoader leaves on private "
        "directories and (8% of the leaves) unchanging catch-all FunctionLoaders, prefixes a / b / p / q / "
        "aa, delimiters '/', ':', '.', '::', templates set to the empty source in about a quarter of the add/change steps; a "
        "history of 6..12 steps, each adding, deleting or re-texting one name in one leaf (names chosen "
        "so that sibling leaves compete for the same full name; the EMPTY local name is one of them "
        "for mapping leaves); at the start and after EVERY step every "
        "probe name (each leaf's route x {'t','u/t','x.html',''}, every registered prefix alone and "
        "every delimiter alone below its route) is looked up on the SAME loader instance "
        "via loader.get_source, Environment(cache_size=0).get_template and (for the touched name) a "
        "fresh default Environment, and compared with the same resolution model evaluated on what the "
        "leaves hold at that moment. distinct = distinct "
        "(name, loader configuration) pairs (names of <=4 segments) + distinct compositions + distinct "
        "dynamic histories")
LEVEL_TEXT = ("held for every enumerated name on every loader configuration (POSIX path rules only) and on "
              "every generated composition; says nothing about symlinks that point out of the search path, zip "
              "packages or Windows separators")
ASSUMPTIONS = [
    "POSIX: os.sep='/', os.altsep=None, so backslash / drive-letter pieces are ordinary file names here; "
    "the Windows-only branches of the separator check are not exercised",
    "containment is lexical (normpath); the only symlinks planted inside the search directories are a "
    "dangling one and one pointing at itself (neither leads out of the directory)",
    "hostile names: a loader location 'has' a name iff the name designates a regular file there (mapping "
    "key for dict / function loaders); FIFOs, devices and permission-denied files are not planted "
    "(opening a FIFO blocks, the harness may run as root); hostile names are not used in the dynamic "
    "compositions",
    "names equivalent to path metacharacters: the translations are Unicode normalisation and case "
    "mapping as implemented by this interpreter's unicodedata, percent-decoding, lenient UTF-8 decoding "
    "and dropping of Cf / Zs characters; at most two translated characters per parent reference; no "
    "files with such names are planted inside the search directories (whether a loader finds or "
    "rejects a literal name of that kind is not judged, only what it opens)",
    "PackageLoader is exercised for a regular directory package only (no zip, no namespace package)",
    "opens made by the import machinery (importlib frames on the stack) are not attributed to loaders",
    "a FunctionLoader leaf has a name iff its load function returns something other than None (the "
    "documented protocol); the empty string is a template source like any other, and the empty "
    "string is a template NAME like any other for a mapping / load function",
    "PrefixLoader naming rule as documented ('the prefix is delimited from the template by a slash per "
    "default'): the name is split at the FIRST occurrence of the delimiter; registered prefixes "
    "never contain the delimiter; a name without the delimiter is not found whatever the prefixes are",
    "a FileSystemLoader leaf ignores empty and '.' pieces of a name ('a/' designates the file 'a')",
    "dynamic compositions: only leaf contents change (a DictLoader sees later changes of the mapping it was "
    "given; a FileSystemLoader sees files appear/disappear); the loader lists / prefix mappings of "
    "ChoiceLoader / PrefixLoader themselves are not mutated; lookups go through cache_size=0 or fresh "
    "environments, because a caching environment may legitimately keep serving a still up-to-date "
    "template of a later loader (that is C25's subject)",
]
NSHARDS = {"quick": 16, "thorough": 16}
BUDGET_S = {"quick": 90, "thorough": 900}
FLOORS = {
    "quick": {"evaluations": 180000, "distinct": 110000,
              "counters": {"names": 22000, "open_events": 21000, "opens_inside": 21000,
                           "get_source_found": 14000, "rejected_parent_reference": 34000,
                           "get_template_calls": 11000, "compositions": 240,
                           "compose_lookups": 55000, "compose_found": 7000,
                           "compose_found_empty_template": 1000,
                           "compose_function_loader_leaves": 160,
                           "compose_catch_all_leaves": 170,
                           "compose_leaves_holding_the_empty_name": 200,
                           "compose_edge_name_lookups": 33000,
                           "compose_name_empty-name": 480, "compose_name_delimiter-only": 1900,
                           "compose_name_prefix-alone": 3300,
                           "compose_name_prefix-plus-delimiter": 13000,
                           "compose_name_leading-delimiter": 4800,
                           "compose_name-is-a-prefix-without-delimiter": 800,
                           "compose_name-is-a-prefix-without-delimiter:inner-loader-has-the-empty-name": 200,
                           "compose_name-is-a-prefix-without-delimiter:a-later-loader-has-the-name": 6,
                           "compose_empty-local-name": 700, "compose_empty-local-name:found": 180,
                           "compose_empty-prefix": 150,
                           "compose_prefix-is-a-string-prefix-of-another-prefix": 900,
                           "compose_another-prefix-is-a-string-prefix-of-the-name": 1600,
                           "compose_catch-all-leaf-answers": 10000,
                           "dyn_name-is-a-prefix-without-delimiter": 1300,
                           "dyn_name-is-a-prefix-without-delimiter:inner-loader-has-the-empty-name": 500,
                           "dyn_empty-local-name": 1100, "dyn_empty-local-name:found": 500,
                           "dyn_leaf-holds-the-empty-name": 1000,
                           "dyn_catch-all-leaf-answers": 400,
                           "dyn_found_empty_template": 2500, "dyn_steps_on_function_leaf": 500,
                           "compose_notfound": 48000, "dyn_compositions": 160,
                           "dyn_steps": 1400, "dyn_lookups": 17000, "dyn_found": 12000,
                           "dyn_moved_to_other_loader": 240, "dyn_name_appeared": 390,
                           "dyn_name_vanished": 200, "dyn_steps_on_filesystem_leaf": 360,
                           "hostile_names": 100, "hostile_lookups": 1000,
                           "hostile_nul-character": 20, "hostile_over-long-segment": 13,
                           "hostile_over-long-path": 6, "hostile_symlink-loop": 6,
                           "hostile_socket": 6, "hostile_unencodable-surrogate": 13,
                           "special_entries_planted": 150,
                           "hostile_name_found_in_later_search_directory": 40,
                           "equiv_names": 700, "equiv_lookups": 7000, "equiv_nfkc": 300,
                           "equiv_as_dotdot": 450, "equiv_as_slash": 6,
                           "equiv_as_slash+dotdot": 10, "equiv_as_holds-dot": 140,
                           "equiv_percent-encoded": 40, "equiv_overlong-utf8": 8,
                           "equiv_ignorable-format-character": 300,
                           "equiv_space-separator": 30,
                           "compose_hostile_lookups": 9600,
                           "compose_hostile_lookups_with_filesystem_leaf": 3500,
                           "compose_hostile_found_with_filesystem_leaf": 450}},
    "thorough": {"evaluations": 2800000, "distinct": 110000,
                 "counters": {"names": 270000, "open_events": 88000, "opens_inside": 88000,
                              "get_source_found": 58000, "rejected_parent_reference": 490000,
                              "get_template_calls": 87000, "compositions": 6000,
                              "compose_lookups": 1390000, "compose_found": 178000,
                              "compose_found_empty_template": 29000,
                              "compose_function_loader_leaves": 4000,
                              "compose_catch_all_leaves": 4000,
                              "compose_leaves_holding_the_empty_name": 4500,
                              "compose_edge_name_lookups": 750000,
                              "compose_name_empty-name": 10000,
                              "compose_name_delimiter-only": 43000,
                              "compose_name_prefix-alone": 75000,
                              "compose_name_prefix-plus-delimiter": 310000,
                              "compose_name_leading-delimiter": 107000,
                              "compose_name-is-a-prefix-without-delimiter": 18000,
                              "compose_name-is-a-prefix-without-delimiter:inner-loader-has-the-empty-name": 5000,
                              "compose_name-is-a-prefix-without-delimiter:a-later-loader-has-the-name": 250,
                              "compose_empty-local-name": 16000,
                              "compose_empty-local-name:found": 4500,
                              "compose_empty-prefix": 4000,
                              "compose_prefix-is-a-string-prefix-of-another-prefix": 19000,
                              "compose_another-prefix-is-a-string-prefix-of-the-name": 35000,
                              "compose_catch-all-leaf-answers": 240000,
                              "dyn_name-is-a-prefix-without-delimiter": 40000,
                              "dyn_name-is-a-prefix-without-delimiter:inner-loader-has-the-empty-name": 17000,
                              "dyn_empty-local-name": 36000, "dyn_empty-local-name:found": 16000,
                              "dyn_leaf-holds-the-empty-name": 33000,
                              "dyn_catch-all-leaf-answers": 15000,
                              "dyn_found_empty_template": 78000,
                              "dyn_steps_on_function_leaf": 17000,
                              "compose_notfound": 1200000, "pairs_5_segments": 1200000,
                              "dyn_compositions": 4800, "dyn_steps": 42000, "dyn_lookups": 500000,
                              "dyn_found": 360000, "dyn_moved_to_other_loader": 7000,
                              "dyn_name_appeared": 11000, "dyn_name_vanished": 6000,
                              "dyn_steps_on_filesystem_leaf": 10000,
                              "hostile_names": 100, "hostile_lookups": 1000,
                              "hostile_nul-character": 20, "hostile_over-long-segment": 13,
                              "hostile_over-long-path": 6, "hostile_symlink-loop": 6,
                              "hostile_socket": 6, "hostile_unencodable-surrogate": 13,
                              "special_entries_planted": 150,
                              "hostile_name_found_in_later_search_directory": 40,
                              "equiv_names": 700, "equiv_lookups": 7000, "equiv_nfkc": 300,
                              "equiv_as_dotdot": 450, "equiv_as_slash": 6,
                              "equiv_as_slash+dotdot": 10, "equiv_as_holds-dot": 140,
                              "equiv_percent-encoded": 40, "equiv_overlong-utf8": 8,
                              "equiv_ignorable-format-character": 300,
                              "equiv_space-separator": 30,
                              "compose_hostile_lookups": 240000,
                              "compose_hostile_lookups_with_filesystem_leaf": 90000,
                              "compose_hostile_found_with_filesystem_leaf": 12000}},
}

FRAGS = ["..", ".", "", "a", "b.txt", "a\\b", "C:", "\\\\x", "é", "..a", "a..", " "]
TREE_DIRS = ["a", "a..", " ", "C:"]
TREE_FILES = ["b.txt", "..a", "a\\b", "\\\\x", "é"]
SENT = "SENTINEL-OUTSIDE"


def scratch_dir(prefix):
    shm = "/dev/shm"
    base = shm if os.path.isdir(shm) and os.access(shm, os.W_OK | os.X_OK) else None
    return tempfile.mkdtemp(prefix=prefix, dir=base)


# ------------------------------------------------------------ audit monitor
class OpenMonitor:
    _installed = None

    def __init__(self):
        self.armed = False
        self.events = []

    @classmethod
    def get(cls):
        if cls._installed is None:
            cls._installed = cls()
            sys.addaudithook(cls._installed._hook)
        return cls._installed

    def _hook(self, event, args):
        if not self.armed or event != "open":
            return
        path = args[0]
        if isinstance(path, bytes):
            path = os.fsdecode(path)
        elif isinstance(path, os.PathLike):
            path = os.fspath(path)
        if not isinstance(path, str):
            return
        f = sys._getframe(1)
        while f is not None:
            mod = f.f_globals.get("__name__", "")
            if mod.startswith("importlib") or mod == "zipimport":
                return
            f = f.f_back
        self.events.append(os.path.normpath(os.path.abspath(path)))

    def watch(self, fn, *a):
        """Run fn(*a) armed; returns (result | None, exception | None, opened paths)."""
        self.events = []
        self.armed = True
        try:
            r, e = fn(*a), None
        except BaseException as ex:  # noqa: BLE001
            r, e = None, ex
        finally:
            self.armed = False
        return r, e, self.events


def inside(path, roots):
    for r in roots:
        if path == r or path.startswith(r + os.sep):
            return True
    return False


# ------------------------------------------------------------ sandbox tree
class Sandbox:
    def __init__(self, tag):
        self.root = scratch_dir("vt_c28_")
        self.contents = {}     # abs path -> content
        self.sentinels = []
        lv2 = os.path.join(self.root, "lvl1", "lvl2")
        os.makedirs(lv2)
        self.sp1 = os.path.join(lv2, "sp1")
        self.sp2 = os.path.join(lv2, "sp2")
        self.pkgroot = os.path.join(lv2, "pkgroot")
        self.pkgname = f"c28pkg_{tag}"
        pkg = os.path.join(self.pkgroot, self.pkgname)
        os.makedirs(pkg)
        self._write(os.path.join(pkg, "__init__.py"), f"# {SENT} package code\n", sentinel=True)
        self.pk1 = os.path.join(pkg, "templates")
        self.pk2 = os.path.join(pkg, "data", "inner")
        self._tree(self.sp1, "sp1", 3, full=True)
        self._tree(self.sp2, "sp2", 2, full=False)
        self._tree(self.pk1, "pk1", 3, full=True)
        self._tree(self.pk2, "pk2", 2, full=True)
        # equally named files in every enclosing directory
        for d in (self.root, os.path.join(self.root, "lvl1"), lv2, self.pkgroot, pkg,
                  os.path.join(pkg, "data")):
            self._sentinels(d)
        self.write_extra()

    def write_extra(self):
        self._write(os.path.join(self.root, "secret.txt"), f"{SENT} secret", sentinel=True)
        # EMPTY templates inside the search directories (names of the composition
        # pool only; the traversal name space does not contain them)
        for p in (os.path.join(self.sp1, "x.html"), os.path.join(self.sp1, "a", "x.html"),
                  os.path.join(self.sp2, "a", "b.txt"), os.path.join(self.sp2, "x.html")):
            if not os.path.exists(p):
                self._write(p, "")
        self.plant_special()

    def plant_special(self):
        """Directory entries that are there but are no readable regular file: a
        dangling symlink, a symlink pointing at itself, a unix socket (all three
        stay inside the directory), a directory named like a template.  The
        second search directory has regular files under the same names, and a
        directory where the first one has a file."""
        import socket

        self.special_planted = []
        for base in (self.sp1, self.pk1):
            for rel in ("", "a"):
                d = os.path.join(base, rel)
                os.symlink("no-such-target", os.path.join(d, "dangling.lnk"))
                os.symlink("loop.lnk", os.path.join(d, "loop.lnk"))
                self.special_planted += ["dangling.lnk", "loop.lnk"]
                try:
                    sk = socket.socket(socket.AF_UNIX)
                    try:
                        sk.bind(os.path.join(d, "sock"))
                        self.special_planted.append("sock")
                    finally:
                        sk.close()
                except OSError:
                    pass
            os.makedirs(os.path.join(base, "dirfile"))
            self._write(os.path.join(base, "thru"), f"IN:{os.path.basename(base)}:thru")
        for n in ("dangling.lnk", "loop.lnk", "sock", "dirfile", "a/sock", "a/loop.lnk"):
            self._write(os.path.join(self.sp2, *n.split("/")), f"IN:sp2:{n}")
        self._write(os.path.join(self.sp2, "thru", "part.txt"), "IN:sp2:thru/part.txt")

    def _write(self, p, content, sentinel=False):
        os.makedirs(os.path.dirname(p), exist_ok=True)
        with open(p, "w", encoding="utf-8") as f:
            f.write(content)
        self.contents[p] = content
        if sentinel:
            self.sentinels.append(p)

    def _tree(self, base, label, depth, full, rel=""):
        os.makedirs(base, exist_ok=True)
        for i, fn in enumerate(TREE_FILES):
            if full or (len(rel) + i) % 2 == 0:
                r = f"{rel}{fn}"
                self._write(os.path.join(base, fn), f"IN:{label}:{r}")
        if depth > 1:
            for dn in TREE_DIRS:
                self._tree(os.path.join(base, dn), label, depth - 1, full, f"{rel}{dn}/")

    def _sentinels(self, d):
        for fn in TREE_FILES:
            p = os.path.join(d, fn)
            if not os.path.exists(p):
                self._write(p, f"{SENT} {p}", sentinel=True)
        for dn in TREE_DIRS:
            dd = os.path.join(d, dn)
            if not os.path.exists(dd):
                for fn in TREE_FILES[:2]:
                    self._write(os.path.join(dd, fn), f"{SENT} {dd}/{fn}", sentinel=True)

    def close(self):
        shutil.rmtree(self.root, ignore_errors=True)


def loader_configs(sb, quick):
    """[(label, loader, [search roots in order])] — built with cwd == sb.root."""
    from jinja2 import FileSystemLoader, PackageLoader

    rel1 = os.path.join("lvl1", "lvl2", "sp1")
    rel2 = os.path.join("lvl1", "lvl2", "sp2")
    cfgs = [
        ("fs:abs", FileSystemLoader(sb.sp1), [sb.sp1]),
        ("fs:rel+pathlike", FileSystemLoader([rel1, pathlib.Path(sb.sp2)]), [sb.sp1, sb.sp2]),
        ("fs:pathlike+abs", FileSystemLoader([pathlib.Path(rel2), sb.sp1]), [sb.sp2, sb.sp1]),
        ("pkg:templates", PackageLoader(sb.pkgname, "templates"), [sb.pk1]),
        ("pkg:data/inner", PackageLoader(sb.pkgname, "data/inner"), [sb.pk2]),
    ]
    return cfgs


# ------------------------------------------------------------ name space
def all_names(sb, maxseg=4):
    n = 0
    for k in range(1, maxseg + 1):
        if k == 5:      # sentinel paths between the <=4 and the 5-segment names
            for p in sb.sentinels:
                for name in (p, "/" + p, "./" + p, p.lstrip("/"), "a/" + p, "//" + p + "/"):
                    n += 1
                    yield n, name
        for segs in itertools.product(FRAGS, repeat=k):
            body = "/".join(segs)
            for lead in ("", "/"):
                for trail in ("", "/"):
                    n += 1
                    yield n, lead + body + trail
    if maxseg < 5:
        for p in sb.sentinels:
            for name in (p, "/" + p, "./" + p, p.lstrip("/"), "a/" + p, "//" + p + "/"):
                n += 1
                yield n, name


# Names the operating system refuses or that designate something other than a
# regular file.  No loader location "has" such a name (unless a later search
# directory / loader really holds a template under it), so the answer is
# TemplateNotFound -- never another exception -- and later locations are asked.
LONG_SEG = "n" * 256                       # one byte over NAME_MAX
LONG_SEG_UTF8 = "\xe9" * 128                # 128 characters, 256 bytes
LONG_PATH = "/".join(["e" * 200] * 25)     # every piece fine, the whole over PATH_MAX
HOSTILE_FRAGS = [
    ("nul-character", "x\0y"), ("nul-character", "\0"), ("nul-character", "b.txt\0"),
    ("over-long-segment", LONG_SEG), ("over-long-segment", LONG_SEG_UTF8),
    ("longest-legal-segment", "n" * 255),
    ("over-long-path", LONG_PATH),
    ("unencodable-surrogate", "\ud800"), ("unencodable-surrogate", "a\udfffb"),
    ("dangling-symlink", "dangling.lnk"), ("symlink-loop", "loop.lnk"), ("socket", "sock"),
    ("directory", "dirfile"), ("through-a-file", "thru/part.txt"), ("file-or-directory", "thru"),
]


def hostile_names():
    """[(class, name)]: every hostile fragment alone, below an existing
    directory, above an existing file name, with '.', '' and trailing '/'."""
    out = []
    for cls, h in HOSTILE_FRAGS:
        for pat in ("{}", "a/{}", "{}/b.txt", "a/{}/b.txt", "./{}", "{}/", "a//{}", "/{}",
                    "b.txt/{}"):
            out.append((cls, pat.format(h)))
    return out


def natural(pieces, roots):
    """Documentation: '/' separates path pieces below the search directory and
    directories are searched in order."""
    rel = [p for p in pieces if p not in ("", ".")]
    if not rel:
        return None
    for r in roots:
        p = os.path.join(r, *rel)
        if os.path.isfile(p):
            return p
    return None


def check_name(ctx, sb, mon, env, label, loader, roots, name, do_template, name_class=None):
    """Returns True if the loader found the name."""
    from jinja2 import TemplateNotFound

    case = {"part": "names", "loader": label, "name": name.replace(sb.root, "$ROOT")}
    if name_class:
        case["name_class"] = name_class
    pieces = name.split("/")
    bad_piece = any(p == os.path.pardir or os.sep in p or (os.path.altsep and os.path.altsep in p)
                    for p in pieces)
    kind = label.split(":")[0]
    # names equivalent to path metacharacters: the translation that would make them escape
    eq_tag = ":" + name_class if name_class and name_class.startswith("equiv:") else ""
    found = False
    for api in (("get_source", "get_template") if do_template else ("get_source",)):
        if api == "get_source":
            r, e, opens = mon.watch(loader.get_source, env, name)
        else:
            ctx.count("get_template_calls")
            r, e, opens = mon.watch(lambda: env.get_template(name).render())
        ctx.ev()
        ctx.count("open_events", len(opens))
        for p in opens:
            if inside(p, roots):
                ctx.count("opens_inside")
            else:
                ctx.violation(f"{kind}:{api}:open-outside-search-path" + eq_tag,
                              f"{label}.{api}({name!r}) opened {p!r}, search roots {roots}", case)
        if e is not None and not isinstance(e, TemplateNotFound):
            shown = name if len(name) < 80 else name[:30] + "..." + name[-30:]
            ctx.violation(f"{kind}:{api}:raises:{type(e).__name__}"
                          + (f":{name_class}" if name_class else ""),
                          f"{label}.{api}({shown!r}) raised {type(e).__name__}: {str(e)[:200]} "
                          f"(a name the location does not have must give TemplateNotFound)", case)
            continue
        if e is not None:
            if bad_piece:
                ctx.count("rejected_parent_reference")
            else:
                ctx.count("not_found")
                rel = [p for p in pieces if p not in ("", ".")]
                clean = rel == pieces
                if clean and natural(pieces, roots) is not None:
                    ctx.violation(f"{kind}:{api}:existing-template-not-found",
                                  f"{label}.{api}({name!r}) raised TemplateNotFound but "
                                  f"{natural(pieces, roots)!r} exists", case)
            continue
        src = r[0] if api == "get_source" else r
        found = True
        if SENT in src:
            ctx.violation(f"{kind}:{api}:sentinel-read" + eq_tag,
                          f"{label}.{api}({name!r}) returned the content of a file outside the "
                          f"search path: {src[:120]!r}", case)
            continue
        if bad_piece:
            ctx.violation(f"{kind}:{api}:parent-reference-accepted",
                          f"{label}.{api}({name!r}) returned {src[:80]!r} instead of raising "
                          f"TemplateNotFound", case)
            continue
        nat = natural(pieces, roots)
        if nat is None or sb.contents.get(nat) != src:
            ctx.violation(f"{kind}:{api}:wrong-file" + eq_tag,
                          f"{label}.{api}({name!r}) returned {src[:80]!r}; the file the name "
                          f"designates is {nat!r}", case)
            continue
        if api == "get_source":
            ctx.count("get_source_found")
            fn = r[1]
            if fn is not None and not inside(os.path.normpath(os.path.abspath(fn)), roots):
                ctx.violation(f"{kind}:{api}:filename-outside-search-path",
                              f"{label}.get_source({name!r}) reports filename {fn!r}", case)
    return found


def part_names(ctx, sb, quick):
    from jinja2 import Environment

    mon = OpenMonitor.get()
    cfgs = loader_configs(sb, quick)
    envs = {label: Environment(loader=ld, cache_size=0) for label, ld, _ in cfgs}
    seen = set()
    sampled = 0
    n_dist = 4 * sum(len(FRAGS) ** k for k in range(1, 5)) + 6 * len(sb.sentinels)
    for n, name in all_names(sb, 4 if quick else 5):
        if not ctx.mine(n):
            continue
        if name in seen:
            continue
        seen.add(name)
        ctx.count("names")
        for label, loader, roots in cfgs:
            # get_template as well for a deterministic sample and for everything found
            probe = (n % 23 == 0)
            found = check_name(ctx, sb, mon, envs[label], label, loader, roots, name, probe)
            if found and not probe:
                check_name(ctx, sb, mon, envs[label], label, loader, roots, name, True)
            if n <= n_dist or quick:
                ctx.dist((name, label))
            else:
                ctx.count("pairs_5_segments")
        if sampled < 3 and ctx.shard == 0 and ".." in name and "b.txt" in name:
            sampled += 1
            ctx.sample({"part": "names", "loader": "fs:abs", "name": name})
        if n % 512 == 0 and ctx.out_of_time():
            ctx.inconc("time box hit inside the name enumeration")
            return
    ctx.exhaustive = True


def part_hostile(ctx, sb, quick):
    """Names the OS refuses / non-regular directory entries on every loader
    configuration, through get_source and get_template."""
    from jinja2 import Environment

    mon = OpenMonitor.get()
    cfgs = loader_configs(sb, quick)
    envs = {label: Environment(loader=ld, cache_size=0) for label, ld, _ in cfgs}
    ctx.count("special_entries_planted", len(sb.special_planted))
    for i, (cls, name) in enumerate(hostile_names()):
        if not ctx.mine(i):
            continue
        ctx.count("hostile_names")
        ctx.count("hostile_" + cls)
        for label, loader, roots in cfgs:
            found = check_name(ctx, sb, mon, envs[label], label, loader, roots, name, True, cls)
            ctx.count("hostile_lookups", 2)
            if found:
                ctx.count("hostile_name_found_in_later_search_directory")
            ctx.dist(("hostile", cls, name if len(name) < 60 else name[:20] + "~" + str(len(name)),
                      label))


# ------------------------------------ names EQUIVALENT to path metacharacters
# Characters that are not '.', '/', '\\' or ':' but BECOME one (or a string
# holding one) under a translation that sits, or may one day sit, between the
# template name and the file system: Unicode normalisation (NFC / NFD / NFKC /
# NFKD), case mapping (casefold / lower / upper), percent-decoding, lenient
# UTF-8 decoding of over-long forms, stripping of white space or of ignorable
# format characters.  The set is COMPUTED from unicodedata, nothing is listed
# by hand.  Whatever the loader does with such a name, no file outside the
# search directories may be opened.
META_CHARS = "./\\:"
_TRANSLATIONS = (("nfkc", lambda c: unicodedata.normalize("NFKC", c)),
                 ("nfkd", lambda c: unicodedata.normalize("NFKD", c)),
                 ("nfc", lambda c: unicodedata.normalize("NFC", c)),
                 ("nfd", lambda c: unicodedata.normalize("NFD", c)),
                 ("casefold", str.casefold), ("lower", str.lower), ("upper", str.upper))


_EQ_CACHE = []


def equivalent_codepoints():
    """[(char, translation name, translated string)] for every code point that
    is not itself a path metacharacter but whose normalised / case-mapped form
    contains one (first translation that does, in the order above)."""
    if _EQ_CACHE:
        return _EQ_CACHE[0]
    out = []
    for cp in range(0x80, sys.maxunicode + 1):
        if 0xD800 <= cp <= 0xDFFF:
            continue
        c = chr(cp)
        for tn, fn in _TRANSLATIONS:
            t = fn(c)
            if t != c and any(m in t for m in META_CHARS):
                out.append((c, tn, t))
                break
    _EQ_CACHE.append(out)
    return out


def format_and_space_chars():
    """Code points a lenient layer may drop or strip: category Cf (format
    characters: zero width space / joiner, soft hyphen, BOM, bidi marks ...)
    and Zs (space separators)."""
    cf, zs = [], []
    for cp in range(sys.maxunicode + 1):
        cat = unicodedata.category(chr(cp))
        if cat == "Cf":
            cf.append(chr(cp))
        elif cat == "Zs":
            zs.append(chr(cp))
    return cf, zs


# escape shapes: D = a parent reference, S = a separator; every name built from
# them would leave the search directory if D / S were read as '..' / '/'
# ('b.txt' and 'a/b.txt' exist as sentinels in every enclosing directory)
D_SHAPES = ("D/b.txt", "D/D/b.txt", "a/D/D/b.txt", "D/a/b.txt", "/D/b.txt", "./D//D/b.txt",
            "a/a../D/D/D/b.txt", "D")
S_SHAPES = ("..Sb.txt", "aS..S..Sb.txt", "..S..SaSb.txt", "a/..S..Sb.txt", "DSb.txt",
            "aSDSDSb.txt", "DSDSDSsecret.txt")


def equivalence_names(sb):
    """[(class, name)], deterministic order."""
    eq = equivalent_codepoints()
    dots = [c for c, _, t in eq if t == "."]
    dotdots = [(c, tn) for c, tn, t in eq if t == ".."]
    seps = [(c, tn, t) for c, tn, t in eq if t in ("/", "\\")]
    out = []
    # -- strings that translate to '..'
    dds = [(c, f"{tn}:dotdot") for c, tn in dotdots]
    singles = ["."] + dots
    tn_of = {c: tn for c, tn, _ in eq}
    for x in singles:
        for y in singles:
            if x == y == ".":
                continue
            dds.append((x + y, f"{tn_of[x if x != '.' else y]}:dotdot"))
    for dd, cls in dds:
        for shape in D_SHAPES:
            out.append((cls, shape.replace("D", dd)))
    # -- characters that translate to a separator, alone and with translated '..'
    for c, tn, t in seps:
        sepname = "slash" if t == "/" else "backslash"
        for shape in S_SHAPES:
            out.append((f"{tn}:{sepname}", shape.replace("S", c).replace("D", "..")))
            for dd, _ in dds[:6] + dds[-2:]:
                if "D" in shape:
                    out.append((f"{tn}:{sepname}+dotdot", shape.replace("S", c).replace("D", dd)))
        # the absolute path of a sentinel, separators translated
        for p in sb.sentinels[:3]:
            out.append((f"{tn}:{sepname}", p.replace("/", c)))
            out.append((f"{tn}:{sepname}", "a" + p.replace("/", c)))
    # -- every other code point whose translation holds a metacharacter ('1.', 'a/c', '...',
    #    ':' ...): as a piece, doubled, next to real dots, and in front of translated '..'
    for c, tn, t in eq:
        if t in (".", "..", "/", "\\"):
            continue
        cls = f"{tn}:holds-" + ("slash" if "/" in t else "colon" if ":" in t
                                 else "backslash" if "\\" in t else "dot")
        for pat in ("{}", "{}/b.txt", "{}{}/b.txt", ".{}/b.txt", "{}./b.txt", "a/{}/b.txt",
                    "C{}/b.txt", "{}/D/D/D/b.txt", "{}/D/D/D/D/b.txt"):
            for dd in ((dds[0][0], dds[-1][0]) if "D" in pat else ("",)):
                out.append((cls, pat.replace("D", dd).replace("{}", c)))
    # -- percent-encoded and over-long UTF-8 (surrogate-escaped bytes) spellings
    pct = {".": ("%2e", "%2E", "%252e"), "/": ("%2f", "%2F", "%252f"), "\\": ("%5c",)}
    for d1 in (".",) + pct["."]:
        for d2 in (".",) + pct["."]:
            if d1 == d2 == ".":
                continue
            for shape in D_SHAPES[:4]:
                out.append(("percent-encoded:dotdot", shape.replace("D", d1 + d2)))
    for sp in pct["/"] + pct["\\"]:
        for shape in S_SHAPES[:4]:
            out.append(("percent-encoded:separator", shape.replace("S", sp)))
        out.append(("percent-encoded:separator+dotdot", f"%2e%2e{sp}%2e%2e{sp}b.txt"))
    odot, oslash = "\udcc0\udcae", "\udcc0\udcaf"     # bytes C0 AE / C0 AF under surrogateescape
    for dd in (odot + odot, "." + odot, odot + "."):
        for shape in D_SHAPES[:4]:
            out.append(("overlong-utf8:dotdot", shape.replace("D", dd)))
    for shape in S_SHAPES[:4]:
        out.append(("overlong-utf8:separator", shape.replace("S", oslash)))
    # -- '..' with characters around / inside that a lenient layer drops or strips
    cf, zs = format_and_space_chars()
    for cls, chars in (("ignorable-format-character", cf), ("space-separator", zs + ["\t"])):
        for c in chars:
            for dd in ("." + c + ".", ".." + c, c + ".."):
                out.append((cls + ":dotdot", f"{dd}/b.txt"))
            out.append((cls + ":dotdot", f"a/..{c}/{c}../b.txt"))
    return out


def part_equiv(ctx, sb, quick):
    """Names built from characters that are EQUIVALENT to path metacharacters
    under some translation, on every loader configuration, get_source and
    get_template, under the audit monitor."""
    from jinja2 import Environment

    mon = OpenMonitor.get()
    cfgs = loader_configs(sb, quick)
    envs = {label: Environment(loader=ld, cache_size=0) for label, ld, _ in cfgs}
    names = equivalence_names(sb)
    if ctx.shard == 0:
        ctx.extra["equivalent_codepoints"] = len(equivalent_codepoints())
        ctx.extra["equivalence_names"] = len(names)
        ctx.sample({"part": "names", "loader": "fs:abs", "name": names[0][1],
                    "name_class": "equiv:" + names[0][0]})
    seen = set()
    for i, (cls, name) in enumerate(names):
        if not ctx.mine(i) or name in seen:
            continue
        seen.add(name)
        ctx.count("equiv_names")
        ctx.count("equiv_" + cls.split(":")[0])
        ctx.count("equiv_as_" + cls.split(":", 1)[1])
        for label, loader, roots in cfgs:
            found = check_name(ctx, sb, mon, envs[label], label, loader, roots, name, True,
                               "equiv:" + cls)
            ctx.count("equiv_lookups", 2)
            if found:
                ctx.count("equiv_name_found")
            ctx.dist(("equiv", cls, name.replace(sb.root, "$ROOT"), label))


# --------------------------------------------------------- compositions
C_SEGS = ["a", "b", "p", "q", "x.html", "b.txt"]


def pool_names():
    """All names of <=2 segments, every 5th of the 3-segment ones, and
    ':' / '.' delimiter variants (so non-default prefix delimiters are reachable)."""
    out = []
    for k in range(1, 4):
        for i, segs in enumerate(itertools.product(C_SEGS, repeat=k)):
            if k < 3 or i % 5 == 0:
                out.append("/".join(segs))
    out += [n.replace("/", ":", 1) for n in out[6:42:2]] + \
           [n.replace("/", ".", 1) for n in out[7:42:3]]
    return out + EDGE_POOL + HOSTILE_POOL


# hostile names of the composition pool (see HOSTILE_FRAGS): a DictLoader /
# FunctionLoader leaf can hold any of them, a FileSystemLoader leaf none except
# those its directory has as regular files
HOSTILE_POOL = ["x\0y", "a/x\0y", "a:x\0y", "p/q/\0", LONG_SEG, "p/" + LONG_SEG, "b." + LONG_SEG,
                LONG_PATH, "a/" + LONG_PATH, "\ud800", "q/\ud800", "sock", "a/sock", "loop.lnk",
                "a/loop.lnk", "dangling.lnk", "b/dangling.lnk", "thru/part.txt", "dirfile", "thru"]


# prefixes a PrefixLoader of a composition may register: plain ones, ones that are
# string prefixes of each other (a / aa / ab) and the empty prefix
C_PREFIXES = ["a", "b", "p", "q", "x.html", "aa", "ab", ""]
C_DELIMS = ["/", ":", ".", "::"]
# names at the edges of "prefix + delimiter + local name": the empty name, a
# delimiter alone, a prefix alone (the 1-segment pool names a, b, p, q, x.html
# are that already), a prefix + delimiter with the EMPTY local name, a leading
# delimiter (empty prefix), names under prefixes that are prefixes of each
# other, doubled / trailing delimiters
EDGE_POOL = ([""] + C_DELIMS + ["aa", "ab"]
             + [p + d for p in C_PREFIXES[:7] for d in C_DELIMS]
             + [d + n for d in C_DELIMS for n in ("a", "x.html")]
             + ["aa/a", "ab/x.html", "aa:b", "ab.q", "aa::p", "a::b", "a:::b", "a/:b", "a//b", "a/b/",
                "a/a/", "p/q/", "a:b:", "a.b.", "a/aa", "aa/a/b", "a/aa/b", "/a/b", "//a", "p::q::a",
                "a/b::p", "q::"])


def name_class(name):
    """Class of an edge name (None for an ordinary one) -- only NAMES the workload."""
    if name == "":
        return "empty-name"
    if name in C_DELIMS:
        return "delimiter-only"
    if name in C_PREFIXES:
        return "prefix-alone"
    for d in sorted(C_DELIMS, key=len, reverse=True):
        if name.endswith(d) and name[:-len(d)] in C_PREFIXES:
            return "prefix-plus-delimiter"
    if name in EDGE_SET:
        if name[0] in "/:.":
            return "leading-delimiter"
        if name[-1] in "/:.":
            return "trailing-delimiter"
        return "other-edge-name"
    return None


EDGE_SET = frozenset(EDGE_POOL)


def catch_all_text(ident, name):
    return f"G{ident}:{name}"[:60]


def gen_spec(rng, depth, names, counter, sb=None):
    kinds = ["dict", "dict", "func", "funcany"] if depth <= 1 else \
        ["dict", "func", "funcany", "choice", "choice", "choice", "choice", "prefix", "prefix",
         "prefix", "prefix"]
    if sb is not None and depth <= 2 and rng.random() < 0.15:
        kinds = ["fs"]
    kind = rng.choice(kinds)
    counter[0] += 1
    ident = counter[0]
    if kind == "funcany":
        # a load function that answers EVERY name (or every name with a given ending),
        # the empty name included
        return ["funcany", ident, rng.choice([None, None, "", ".html", "a", "/", "b.txt"]),
                rng.choice(["str", "tuple"])]
    if kind in ("dict", "func"):
        k = rng.choice([0, 2, 5, 12, 25, 40])
        chosen = sorted(rng.sample(names[:42], min(k, 30)) + rng.sample(names[42:], k // 4))
        # a template may be EMPTY: the loader still has it
        if rng.random() < 0.4:
            # names only a mapping can hold (the OS would refuse them as file names)
            chosen = sorted(set(chosen) | set(rng.sample(HOSTILE_POOL, rng.randint(1, 4))))
        if rng.random() < 0.35:
            # the EMPTY name (and names that are nothing but a delimiter) as a key
            chosen = sorted(set(chosen) | {""} | set(rng.sample(C_DELIMS, rng.randint(0, 2))))
        mp = {n: ("" if rng.random() < 0.15 else f"{kind[0].upper()}{ident}:{n}"[:60])
              for n in chosen}
        if kind == "func":
            # how the load function answers: 'str' | 'tuple' (source, filename, uptodate)
            return ["func", mp, rng.choice(["str", "str", "tuple"])]
        return ["dict", mp]
    if kind == "fs":
        return ["fs", rng.choice(["sp1", "sp2"])]
    if kind == "choice":
        return ["choice", [gen_spec(rng, depth - 1, names, counter, sb)
                           for _ in range(rng.randint(1, 3))]]
    prefixes = sorted(rng.sample(C_PREFIXES[:7], rng.randint(1, 4)))
    if rng.random() < 0.15:
        prefixes = [""] + prefixes
    delim = rng.choice(["/", "/", "/", ":", ".", "::"])
    prefixes = [p for p in prefixes if delim not in p] or ["a"]
    return ["prefix", {p: gen_spec(rng, depth - 1, names, counter, sb) for p in prefixes}, delim]


def function_loader(mapping, style="str"):
    """FunctionLoader over a mapping the harness keeps: 'a string with the
    template source, a tuple (source, filename, uptodatefunc) or None if the
    template does not exist'."""
    from jinja2 import FunctionLoader

    if style == "tuple":
        def load(name):
            if name not in mapping:
                return None
            src = mapping[name]
            return src, None, (lambda: mapping.get(name) == src)
    else:
        def load(name):
            return mapping.get(name)
    return FunctionLoader(load)


def catch_all_loader(ident, ending, style="str"):
    """FunctionLoader whose load function has a template for every name
    (ending None) or for every name that ends with ``ending``."""
    from jinja2 import FunctionLoader

    def load(name):
        if ending is not None and not name.endswith(ending):
            return None
        src = catch_all_text(ident, name)
        return src if style == "str" else (src, None, lambda: True)
    return FunctionLoader(load)


def build(spec, sb):
    from jinja2 import ChoiceLoader, DictLoader, FileSystemLoader, PrefixLoader

    k = spec[0]
    if k == "dict":
        return DictLoader(dict(spec[1]))
    if k == "func":
        return function_loader(dict(spec[1]), spec[2] if len(spec) > 2 else "str")
    if k == "funcany":
        return catch_all_loader(spec[1], spec[2], spec[3])
    if k == "fs":
        return FileSystemLoader(getattr(sb, spec[1]))
    if k == "choice":
        return ChoiceLoader([build(s, sb) for s in spec[1]])
    if len(spec) > 2 and spec[2] != "/":
        return PrefixLoader({p: build(s, sb) for p, s in spec[1].items()}, delimiter=spec[2])
    return PrefixLoader({p: build(s, sb) for p, s in spec[1].items()})


def resolve(spec, name, sb):
    """The resolution model: source text or None."""
    k = spec[0]
    if k in ("dict", "func", "funcdyn"):
        return spec[1].get(name)
    if k == "funcany":
        return catch_all_text(spec[1], name) if spec[2] is None or name.endswith(spec[2]) else None
    if k == "fsdyn":
        # '/' separates path pieces below the search directory; empty pieces and '.' say nothing
        pieces = name.split("/")
        rel = [p for p in pieces if p not in ("", ".")]
        return None if ".." in pieces or not rel else spec[1].get("/".join(rel))
    if k == "fs":
        pieces = name.split("/")
        if ".." in pieces:
            return None
        nat = natural(pieces, [getattr(sb, spec[1])])
        return sb.contents.get(nat) if nat else None
    if k == "choice":
        for s in spec[1]:
            r = resolve(s, name, sb)
            if r is not None:
                return r
        return None
    delim = spec[2]
    if delim not in name:
        return None
    prefix, rest = name.split(delim, 1)
    return resolve(spec[1][prefix], rest, sb) if prefix in spec[1] else None


def lookup(loader, env, name, api):
    from jinja2 import TemplateNotFound

    try:
        if api == "get_source":
            return loader.get_source(env, name)[0], None
        return env.get_template(name).render(), None
    except TemplateNotFound:
        return None, None
    except Exception as e:  # noqa: BLE001
        return None, e


def culprit(spec, names, sb, api):
    """Kind of the innermost sub-loader that disagrees with the model."""
    from jinja2 import Environment

    children = spec[1] if spec[0] == "choice" else (list(spec[1].values()) if spec[0] == "prefix"
                                                    else [])
    for c in children:
        k = culprit(c, names, sb, api)
        if k:
            return k
    ld = build(spec, sb)
    env = Environment(loader=ld, cache_size=0)
    for n in names:
        got, exc = lookup(ld, env, n, api)
        if exc is not None or got != resolve(spec, n, sb):
            return spec[0]
    return None


def prefix_situations(spec, name, sb, out):
    """Which edge situations of the PrefixLoader naming rule the lookup of
    ``name`` runs into on its way down (evaluated on the model; only used to
    COUNT what the workload reached).  A ChoiceLoader asks its loaders in order
    until one has the name."""
    k = spec[0]
    if k == "choice":
        for c in spec[1]:
            prefix_situations(c, name, sb, out)
            if resolve(c, name, sb) is not None:
                break
    elif k == "prefix":
        delim = spec[2]
        if delim not in name:
            if name in spec[1]:
                out.add("name-is-a-prefix-without-delimiter")
                if resolve(spec[1][name], "", sb) is not None:
                    out.add("name-is-a-prefix-without-delimiter:inner-loader-has-the-empty-name")
            return
        prefix, rest = name.split(delim, 1)
        if prefix not in spec[1]:
            if any(p and name.startswith(p) for p in spec[1]):
                out.add("another-prefix-is-a-string-prefix-of-the-name")
            return
        if prefix == "":
            out.add("empty-prefix")
        if rest == "":
            out.add("empty-local-name")
            if resolve(spec[1][prefix], "", sb) is not None:
                out.add("empty-local-name:found")
        if any(q != prefix and q.startswith(prefix) and prefix for q in spec[1]):
            out.add("prefix-is-a-string-prefix-of-another-prefix")
        prefix_situations(spec[1][prefix], rest, sb, out)
    elif k == "funcany" and resolve(spec, name, sb) is not None:
        out.add("catch-all-leaf-answers")
    elif k in ("dict", "func", "funcdyn") and name == "" and "" in spec[1]:
        out.add("leaf-holds-the-empty-name")


def check_composition(ctx, sb, spec, names, case):
    from jinja2 import Environment

    ld = build(spec, sb)
    env = Environment(loader=ld, cache_size=0)
    ctx.count("compositions")
    js = json.dumps(spec)
    ctx.count("compose_function_loader_leaves", js.count('["func"'))
    ctx.count("compose_catch_all_leaves", js.count('["funcany"'))
    ctx.count("compose_leaves_holding_the_empty_name", js.count('{"": '))
    has_fs = '["fs"' in js
    hostile = set(HOSTILE_POOL)
    for name in names:
        want = resolve(spec, name, sb)
        ncls = name_class(name)
        if ncls:
            ctx.count("compose_edge_name_lookups", 2)
            ctx.count("compose_name_" + ncls, 2)
        sit = set()
        prefix_situations(spec, name, sb, sit)
        for st in sorted(sit):
            ctx.count("compose_" + st, 2)
        if "name-is-a-prefix-without-delimiter:inner-loader-has-the-empty-name" in sit \
                and want is not None:
            ctx.count("compose_name-is-a-prefix-without-delimiter:a-later-loader-has-the-name", 2)
        for api in ("get_source", "get_template"):
            got, exc = lookup(ld, env, name, api)
            ctx.ev()
            ctx.count("compose_lookups")
            if name in hostile:
                ctx.count("compose_hostile_lookups")
                if has_fs:
                    ctx.count("compose_hostile_lookups_with_filesystem_leaf")
                    if want is not None:
                        ctx.count("compose_hostile_found_with_filesystem_leaf")
            if want is None:
                ctx.count("compose_notfound")
            else:
                ctx.count("compose_found")
                if want == "":
                    ctx.count("compose_found_empty_template")
            if exc is None and got == want:
                continue
            who = culprit(spec, names, sb, api) or spec[0]
            if exc is not None:
                what = f"raises:{type(exc).__name__}"
            elif want is None:
                what = "found-though-no-loader-has-it"
            elif got is None:
                what = "not-found-though-a-loader-has-it"
            else:
                what = "not-the-first-loader-that-has-it"
            shown = name if len(name) < 80 else name[:30] + "..." + name[-30:]
            ctx.violation(f"compose:{who}:{api}:{what}" + (f":{ncls}" if ncls else ""),
                          f"{api}({shown!r}) on {str(spec)[:1500]} gave {got!r} ({exc!r}); the first "
                          f"loader that has the name gives {want!r}", dict(case, name=name))
            return
    ctx.dist(("compose", case["seed"], spec))


def part_compose(ctx, sb, quick):
    names = pool_names()
    rng = ctx.rng("compose")
    n = 60 if quick else 1500
    for i in range(n):
        counter = [0]
        seed = rng.getrandbits(48)
        import random

        spec = gen_spec(random.Random(seed), 3, names, counter, sb)
        case = {"part": "compose", "seed": seed, "index": i, "spec": spec}
        if i < 2 and ctx.shard == 0:
            ctx.sample(case)
        check_composition(ctx, sb, spec, names, case)
        if ctx.out_of_time() and i >= 10:
            ctx.count("compose_timeboxed")
            break


# ------------------------------------------------- dynamic compositions
# The same composed loader INSTANCE is asked again and again while its leaves
# gain, lose and change templates: "the first loader that has it" must be
# decided from what the loaders hold at the time of the lookup.
DYN_INNER = ["t", "u/t", "x.html", ""]      # '' = the EMPTY local name (probe = prefix + delimiter)
LEAF_KINDS = ("dict", "funcdyn", "fsdyn")
DYN_PREFIXES = ["a", "b", "p", "q", "aa"]


def gen_dyn_spec(rng, depth, top=False):
    if depth <= 1:
        kinds = ["dict", "dict", "funcdyn", "funcdyn", "fsdyn"]
    elif top:
        kinds = ["choice", "choice", "choice", "prefix", "prefix"]
    else:
        kinds = ["dict", "dict", "funcdyn", "funcdyn", "fsdyn", "choice", "choice", "choice",
                 "prefix"]
    kind = rng.choice(kinds)
    if kind in LEAF_KINDS:
        if not top and rng.random() < 0.08:
            # a catch-all load function (never changes; answers every name / every name
            # with the given ending, the empty name included)
            return ["funcany", rng.randrange(1000), rng.choice([None, None, "t", ".html"]),
                    rng.choice(["str", "tuple"])]
        return [kind, {}]
    if kind == "choice":
        return ["choice", [gen_dyn_spec(rng, depth - 1) for _ in range(rng.randint(2, 3))]]
    prefixes = sorted(rng.sample(DYN_PREFIXES, rng.randint(1, 2)))
    delim = rng.choice(["/", "/", "/", ":", ".", "::"])
    return ["prefix", {p: gen_dyn_spec(rng, depth - 1) for p in prefixes}, delim]


def dyn_nodes(spec, route="", out=None):
    """[(sub-spec, route)] in depth-first order; route = what a name must start
    with to be handed to that node (prefixes and delimiters on the way down)."""
    if out is None:
        out = []
    out.append((spec, route))
    if spec[0] == "choice":
        for c in spec[1]:
            dyn_nodes(c, route, out)
    elif spec[0] == "prefix":
        for pfx in sorted(spec[1]):
            dyn_nodes(spec[1][pfx], route + pfx + spec[2], out)
    return out


def fs_conflict(name, existing):
    return any(e != name and (e.startswith(name + "/") or name.startswith(e + "/")) for e in existing)


def fs_name(name):
    """Can a file be created under this name below a search directory?"""
    return all(p not in ("", ".", "..") for p in name.split("/"))


def gen_dynamic(rng, steps):
    """(initial spec, ops, probe names).  ops: ['set', leaf index, local name, text]
    | ['del', leaf index, local name]; every op really changes what the leaf holds."""
    while True:
        spec = gen_dyn_spec(rng, 3, top=True)
        leaves = [(s, r) for s, r in dyn_nodes(spec) if s[0] in LEAF_KINDS]
        if leaves:          # at least one leaf whose contents can change
            break
    probes = {r + i for _, r in leaves for i in DYN_INNER}
    # every registered prefix ALONE (no delimiter) and the delimiter alone
    for s, r in dyn_nodes(spec):
        if s[0] == "prefix":
            probes |= {r + pfx for pfx in s[1]} | {r + s[2]}
    probes = sorted(probes)
    # what a leaf may be given: every probe below its route -- the EMPTY local name included
    # (mappings only; a directory cannot hold it)
    cands = [sorted({p[len(r):] for p in probes if p.startswith(r)
                     and (fs_name(p[len(r):]) if leaf[0] == "fsdyn" else True)})
             for leaf, r in leaves]
    for li, (leaf, _) in enumerate(leaves):
        for c in cands[li]:
            if rng.random() < 0.3 and not (leaf[0] == "fsdyn" and fs_conflict(c, leaf[1])):
                leaf[1][c] = "" if rng.random() < 0.2 else f"L{li}:{c}#init"
    initial = json.loads(json.dumps(spec))
    ops = []
    for step in range(steps):
        for _ in range(8):
            li = rng.randrange(len(leaves))
            leaf = leaves[li][0]
            if not cands[li]:
                continue
            local = rng.choice(cands[li])
            if local in leaf[1]:
                if rng.random() < 0.6:
                    del leaf[1][local]
                    ops.append(["del", li, local])
                else:
                    # re-text; an existing non-empty template may become EMPTY
                    leaf[1][local] = "" if leaf[1][local] and rng.random() < 0.3 \
                        else f"L{li}:{local}#{step}"
                    ops.append(["set", li, local, leaf[1][local]])
                break
            if leaf[0] == "fsdyn" and fs_conflict(local, leaf[1]):
                continue
            leaf[1][local] = "" if rng.random() < 0.25 else f"L{li}:{local}#{step}"
            ops.append(["set", li, local, leaf[1][local]])
            break
    return initial, ops, probes


class DynBuild:
    """Builds the loader tree of a dynamic spec; dict leaves keep the mapping the
    DictLoader was given, fsdyn leaves a private directory."""

    def __init__(self, spec, sb):
        from jinja2 import ChoiceLoader, DictLoader, FileSystemLoader, PrefixLoader

        self.dir = tempfile.mkdtemp(prefix="dyn_", dir=sb.root)
        self.loader_of = {}      # id(sub-spec) -> loader
        self.handles = []        # per leaf (depth-first): mapping | directory
        nfs = [0]

        def mk(s):
            if s[0] == "dict":
                mp = dict(s[1])
                ld = DictLoader(mp)
                self.handles.append(mp)
            elif s[0] == "funcdyn":
                mp = dict(s[1])
                ld = function_loader(mp, ("str", "tuple")[len(self.handles) % 2])
                self.handles.append(mp)
            elif s[0] == "funcany":
                ld = catch_all_loader(s[1], s[2], s[3])
            elif s[0] == "fsdyn":
                d = os.path.join(self.dir, f"leaf{nfs[0]}")
                nfs[0] += 1
                os.mkdir(d)
                for n, txt in s[1].items():
                    self.write(d, n, txt)
                ld = FileSystemLoader(d)
                self.handles.append(d)
            elif s[0] == "choice":
                ld = ChoiceLoader([mk(c) for c in s[1]])
            else:
                mp = {p: mk(s[1][p]) for p in sorted(s[1])}
                ld = PrefixLoader(mp, delimiter=s[2]) if s[2] != "/" else PrefixLoader(mp)
            self.loader_of[id(s)] = ld
            return ld

        self.root = mk(spec)

    @staticmethod
    def write(d, name, txt):
        p = os.path.join(d, *name.split("/"))
        os.makedirs(os.path.dirname(p), exist_ok=True)
        with open(p, "w", encoding="utf-8") as f:
            f.write(txt)

    def apply(self, leaf_index, op):
        h = self.handles[leaf_index]
        if isinstance(h, dict):
            if op[0] == "del":
                del h[op[2]]
            else:
                h[op[2]] = op[3]
        elif op[0] == "del":
            p = os.path.join(h, *op[2].split("/"))
            os.remove(p)
            # directories left empty go too (a later step may create a FILE of that name)
            d = os.path.dirname(p)
            while d != h and not os.listdir(d):
                os.rmdir(d)
                d = os.path.dirname(d)
        else:
            self.write(h, op[2], op[3])

    def close(self):
        shutil.rmtree(self.dir, ignore_errors=True)


def run_dynamic(ctx, sb, spec0, ops, probes, case):
    """Returns True if the whole history agreed with the resolution model."""
    from jinja2 import Environment

    spec = json.loads(json.dumps(spec0))        # the model's own copy, mutated along
    nodes = dyn_nodes(spec)
    leaves = [(s, r) for s, r in nodes if s[0] in LEAF_KINDS]
    b = DynBuild(spec, sb)
    try:
        env = Environment(loader=b.root, cache_size=0)
        ctx.count("dyn_compositions")
        prev = {}

        def who_disagrees(name, api):
            # innermost node whose own answer (same API) differs from the model's
            for s, r in reversed(nodes):
                if not name.startswith(r):
                    continue
                local = name[len(r):]
                sub = b.loader_of[id(s)]
                if api == "get_source":
                    got, exc = lookup(sub, env, local, api)
                else:
                    got, exc = lookup(sub, Environment(loader=sub, cache_size=0), local,
                                      "get_template")
                if exc is not None or got != resolve(s, local, sb):
                    return s[0]
            return spec[0]

        def check_all(after, affected):
            for name in probes:
                want = resolve(spec, name, sb)
                was = prev.get(name, want)
                if was != want:
                    if was is None:
                        ctx.count("dyn_name_appeared")
                    elif want is None:
                        ctx.count("dyn_name_vanished")
                    elif after != "change" or name != affected:
                        ctx.count("dyn_moved_to_other_loader")
                    else:
                        ctx.count("dyn_text_changed")
                prev[name] = want
                sit = set()
                prefix_situations(spec, name, sb, sit)
                for st in sorted(sit):
                    ctx.count("dyn_" + st)
                apis = ["get_source", "get_template"]
                if name == affected or after == "init":
                    apis.append("fresh_env_get_template")
                for api in apis:
                    if api == "fresh_env_get_template":
                        got, exc = lookup(b.root, Environment(loader=b.root), name, "get_template")
                    else:
                        got, exc = lookup(b.root, env, name, api)
                    ctx.ev()
                    ctx.count("dyn_lookups")
                    if want is not None:
                        ctx.count("dyn_found")
                        if want == "":
                            ctx.count("dyn_found_empty_template")
                    if exc is None and got == want:
                        continue
                    if exc is not None:
                        what = f"raises:{type(exc).__name__}"
                    elif want is None:
                        what = "found-though-no-loader-has-it"
                    elif got is None:
                        what = "not-found-though-a-loader-has-it"
                    else:
                        what = "not-the-first-loader-that-has-it"
                    ctx.violation(
                        f"compose-dynamic:{who_disagrees(name, api)}:{api}:{what}:after-{after}",
                        f"{api}({name!r}) on the same loader instance after {after} gave {got!r} "
                        f"({exc!r}); the first loader that has the name NOW gives {want!r}; "
                        f"loaders now hold {spec}", case)
                    return False
            return True

        if not check_all("init", None):
            return False
        for i, op in enumerate(ops):
            leaf, route = leaves[op[1]]
            if op[0] == "del":
                after = "delete"
                del leaf[1][op[2]]
            else:
                after = "change" if op[2] in leaf[1] else "add"
                leaf[1][op[2]] = op[3]
            b.apply(op[1], op)
            ctx.count("dyn_steps")
            ctx.count("dyn_step_" + after)
            if leaf[0] == "fsdyn":
                ctx.count("dyn_steps_on_filesystem_leaf")
            elif leaf[0] == "funcdyn":
                ctx.count("dyn_steps_on_function_leaf")
            if not check_all(after, route + op[2]):
                return False
        return True
    finally:
        b.close()


def part_dynamic(ctx, sb, quick):
    import random

    rng = ctx.rng("dynamic")
    n = 40 if quick else 1200
    for i in range(n):
        seed = rng.getrandbits(48)
        r = random.Random(seed)
        spec, ops, probes = gen_dynamic(r, r.randint(6, 12))
        case = {"part": "dynamic", "seed": seed, "spec": spec, "ops": ops, "probes": probes}
        if i < 2 and ctx.shard == 0:
            ctx.sample(case)
        if run_dynamic(ctx, sb, spec, ops, probes, case):
            ctx.dist(("dynamic", seed))
        if ctx.out_of_time() and i >= 10:
            ctx.count("dynamic_timeboxed")
            break


# ------------------------------------------------------------------ driver
class Session:
    def __init__(self, tag):
        self.cwd = os.getcwd()
        self.sb = Sandbox(tag)
        os.chdir(self.sb.root)
        sys.path.insert(0, self.sb.pkgroot)
        importlib.invalidate_caches()

    def close(self):
        os.chdir(self.cwd)
        try:
            sys.path.remove(self.sb.pkgroot)
        except ValueError:
            pass
        sys.modules.pop(self.sb.pkgname, None)
        self.sb.close()


def run(ctx):
    quick = ctx.tier == "quick"
    ses = Session(f"s{ctx.shard}")
    try:
        part_dynamic(ctx, ses.sb, quick)
        part_hostile(ctx, ses.sb, quick)
        part_equiv(ctx, ses.sb, quick)
        part_names(ctx, ses.sb, quick)
        part_compose(ctx, ses.sb, quick)
    finally:
        ses.close()


def replay(ctx, case):
    from jinja2 import Environment

    ses = Session("replay")
    try:
        sb = ses.sb
        if case["part"] == "names":
            mon = OpenMonitor.get()
            for label, loader, roots in loader_configs(sb, False):
                if label == case["loader"]:
                    check_name(ctx, sb, mon, Environment(loader=loader, cache_size=0), label, loader,
                               roots, case["name"].replace("$ROOT", sb.root), True,
                               case.get("name_class"))
        elif case["part"] == "dynamic":
            run_dynamic(ctx, sb, case["spec"], case["ops"], case["probes"], case)
        else:
            names = pool_names()
            check_composition(ctx, sb, case["spec"], names, case)
    finally:
        ses.close()
