"""C11 — plain text, comments and raw blocks render verbatim (modulo the
documented line-break normalisation and single trailing newline removal)."""
from __future__ import annotations

import itertools

from vt.model import c11_text as M

PID = "C11"
LEVEL = "exploration"
RULE = ("plain text: EVERY string up to length L over {a, space, tab, {, }, %, #, -, \\n, \\r} "
        "that contains no delimiter start ({{ {% {#) rendered under all 6 configurations "
        "(newline_sequence \\n|\\r\\n|\\r x keep_trailing_newline) and compared with the "
        "split/join model; random long texts (Unicode, NUL/controls, \\x0b \\x0c \\x1c-\\x1e "
        "\\x85 U+2028/9 which are not line breaks, partial and closing delimiters, all break "
        "forms incl. mixtures at the end); random templates of text + comments + raw blocks "
        "whose bodies contain delimiter look-alikes ({{ x }}, {% if %}, {# #}, {% raw %}, "
        "near-miss endraw tags) with tag-internal whitespace variants and the documented '-' "
        "forms ({#- -#}, {% raw -%}). escaping/finalize dimension: the random text alphabet "
        "contains & < > ' \" and markup fragments; every random text / template is additionally "
        "rendered under 4 drawn (newline config, mode) combinations and a fixed set of short "
        "texts over {a & < > ' \" \\n} and 6 templates under EVERY mode x all 6 newline configs, "
        "mode = environment autoescape (False | True | select_autoescape) x enclosing block "
        "(none | {% autoescape true %} | false | an expression decided at render time, flag "
        "True and False, with and without surrounding text) x finalize (none | plain | "
        "pass_context | pass_eval_context | pass_environment callable that brackets its "
        "argument): text, comments and raw bodies are not expression results, so the output "
        "must be the same as without escaping/finalize. environment histories: random operation "
        "sequences over several environments alive in one process - construct (1-3 of the 6 "
        "newline configurations per history, so equal configurations meet; options unrelated to "
        "text varied), overlay() with/without newline overrides, attribute assignment BEFORE the "
        "first template (legal: the assigned options count) and AFTER use (documented undefined "
        "behaviour for THAT environment: it keeps rendering but is never judged), delete + gc, "
        "re-create, renders of random texts/templates with line breaks interleaved in any order; "
        "all environments of a history share a family (default | never-matching line statement / "
        "line comment prefix unique to the history, so histories do not share configuration with "
        "each other) and every judged render must equal the model for the rendering environment's "
        "OWN options. distinct = each exhaustive string that contains a line "
        "break or a partial delimiter character (len<=5) / each random source / each (source, "
        "mode) cell of the systematic mode table / each history operation shape; a case is "
        "non-trivial when it contains a line break, a delimiter character or a tag")
TECHNIQUE = ("reference-model monitor (newline split/join model) over exhaustive short strings + "
             "random templates, crossed with an escaping-mode x finalize table; stateful random "
             "histories over several coexisting environments judged per environment")
LEVEL_TEXT = ("held for every plain string up to the reported length in all 6 newline "
              "configurations and on the random texts/templates generated; the escaping/finalize "
              "table is exhaustive over its modes for the fixed short sources only; environment "
              "independence held on the random histories generated (<= 6 environments each)")
ASSUMPTIONS = [
    "default delimiters, no line statements, trim_blocks/lstrip_blocks off (C12 covers them)",
    "line breaks inside a raw block may come out verbatim or converted to newline_sequence "
    "(the documentation does not say; both are accepted, a mixture is not)",
    "'-' modifiers are only used next to whitespace runs made of space, tab, \\n, \\r",
    "inside an autoescape block the body's last line break no longer ends the template: it is "
    "expected verbatim, the single-trailing-newline rule applies to the text after the block",
    "escaping and finalize concern variable expressions only (templates.rst 'HTML Escaping', "
    "api.rst finalize: 'process the result of a variable expression'); the workload contains no "
    "expressions, so any difference to the plain rendering is a violation; whether finalize is "
    "CALLED is not observed, only the output",
    "api.rst Environment: 'may be modified if they are not shared and if no template was loaded "
    "so far. Modifications ... after the first template was loaded will lead to surprising "
    "effects and undefined behavior': newline options assigned before an environment's first "
    "template are its options; an environment reassigned after use (and any overlay that is "
    "assigned to at all) is never judged again, is never used as overlay parent, and an "
    "environment with overlays is never reassigned; every other environment is judged as if "
    "alone in the process",
    "a line statement / line comment prefix containing '@' never matches the generated sources "
    "(no '@' in any alphabet), so it does not change what the documentation prescribes for them",
]
NSHARDS = {"quick": 16, "thorough": 16}
BUDGET_S = {"quick": 12, "thorough": 540}
EXH_LEN = {"quick": 5, "thorough": 6}
FLOORS = {
    # lengths <= 4 (quick) / <= 5 (thorough) are never time-boxed: 10.8k / 108k strings x 6 configs
    "quick": {"evaluations": 61000, "distinct": 9000,
              "counters": {"exh_strings": 10000, "exh_renders": 60000, "random_text_renders": 4000,
                           "template_renders": 4000, "comment_segments": 700,
                           "raw_segments": 700, "trailing_break_cases": 2000,
                           "mixed_break_cases": 800, "minus_modifier_templates": 100,
                           "mode_renders": 6000, "mode_renders_autoescape_block": 5000,
                           "mode_renders_env_autoescape": 4000, "mode_renders_finalize": 5000,
                           "mode_renders_finalize_needs_runtime_context": 2400,
                           "mode_renders_html_metachar": 4000,
                           "mode_renders_runtime_autoescape_block": 2500,
                           "mode_renders_runtime_block_on_html_metachar": 1100,
                           "mode_systematic_cells": 2000,
                           "history_runs": 180, "history_judged_renders": 1500,
                           "history_judged_equal_cfg_reassigned_elsewhere": 350,
                           "history_judged_overlay_renders": 220,
                           "history_judged_assigned_before_use_renders": 220,
                           "history_judged_recreated_after_delete": 120,
                           "history_judged_equal_cfg_deleted_earlier": 250,
                           "history_judged_with_sibling_equal_cfg": 900,
                           "history_default_family_runs": 24}},
    "thorough": {"evaluations": 700000, "distinct": 80000,
                 "counters": {"exh_strings": 100000, "exh_renders": 600000,
                              "random_text_renders": 30000, "template_renders": 30000,
                              "comment_segments": 15000, "raw_segments": 15000,
                              "trailing_break_cases": 20000, "mixed_break_cases": 8000,
                              "minus_modifier_templates": 2000,
                              "mode_renders": 30000, "mode_renders_autoescape_block": 25000,
                              "mode_renders_env_autoescape": 20000,
                              "mode_renders_finalize": 24000,
                              "mode_renders_finalize_needs_runtime_context": 12000,
                              "mode_renders_html_metachar": 20000,
                              "mode_renders_runtime_autoescape_block": 12000,
                              "mode_renders_runtime_block_on_html_metachar": 5000,
                              "mode_systematic_cells": 2000,
                              "history_runs": 3600, "history_judged_renders": 30000,
                              "history_judged_equal_cfg_reassigned_elsewhere": 7000,
                              "history_judged_overlay_renders": 4400,
                              "history_judged_assigned_before_use_renders": 4400,
                              "history_judged_recreated_after_delete": 2500,
                              "history_judged_equal_cfg_deleted_earlier": 5000,
                              "history_judged_with_sibling_equal_cfg": 18000,
                              "history_default_family_runs": 480}},
}

ALPHABET = "a \t{}%#-\n\r"
CONFIGS = [(nl, keep) for nl in ("\n", "\r\n", "\r") for keep in (False, True)]
NLNAME = {"\n": "lf", "\r\n": "crlf", "\r": "cr"}


def make_envs():
    from jinja2 import Environment

    return {(nl, keep): Environment(newline_sequence=nl, keep_trailing_newline=keep)
            for nl, keep in CONFIGS}


def render(env, src):
    try:
        return ("ok", env.from_string(src).render())
    except Exception as e:  # noqa: BLE001
        return ("exc", e)


# ------------------------------------------------------------------ escaping / finalize modes
ENV_AUTO = ("off", "on", "select")
FINALIZE = ("none", "plain", "context", "eval_context", "environment")
BLOCK_MODES = (None,) + tuple(M.BLOCKS)
BASE_MODE = ("off", None, "none")
ALL_MODES = [(a, b, f) for a in ENV_AUTO for b in BLOCK_MODES for f in FINALIZE]
OTHER_MODES = [m for m in ALL_MODES if m != BASE_MODE]
HTML_CHARS = "&<>'\""


def make_finalizers():
    """finalize callables of every calling convention; each visibly changes whatever it is
    given (api.rst: finalize processes "the result of a variable expression" only)."""
    from jinja2 import pass_context, pass_environment, pass_eval_context

    def plain(value):
        return f"[{value}]"

    @pass_context
    def with_context(context, value):
        return f"[{value}]"

    @pass_eval_context
    def with_eval_context(eval_ctx, value):
        return f"[{value}]"

    @pass_environment
    def with_environment(environment, value):
        return f"[{value}]"

    return {"none": None, "plain": plain, "context": with_context,
            "eval_context": with_eval_context, "environment": with_environment}


class EnvPool:
    """Environments per (newline_sequence, keep_trailing_newline, autoescape setting, finalize)."""

    def __init__(self):
        self.envs = {}
        self.fin = None

    def get(self, nl, keep, auto="off", fin="none"):
        k = (nl, keep, auto, fin)
        if k not in self.envs:
            from jinja2 import Environment, select_autoescape

            if self.fin is None:
                self.fin = make_finalizers()
            a = {"off": False, "on": True,
                 "select": select_autoescape(default_for_string=True)}[auto]
            self.envs[k] = Environment(newline_sequence=nl, keep_trailing_newline=keep,
                                       autoescape=a, finalize=self.fin[fin])
        return self.envs[k]


def render_mode(pool, nl, keep, mode, src):
    auto, block, fin = mode
    env = pool.get(nl, keep, auto, fin)
    try:
        return ("ok", env.from_string(M.wrap(src, block)).render(flag=M.block_flag(block)))
    except Exception as e:  # noqa: BLE001
        return ("exc", e)


def mode_expected(exp_fn, mode, nl, keep):
    """exp_fn(nl, keep) -> set of acceptable outputs of the bare source."""
    if mode[1] is None:
        return exp_fn(nl, keep)
    return M.wrapped_expected(exp_fn(nl, True), mode[1], nl, keep)


def blame(mode, fails):
    """Mechanism part of the key: the smallest subset of the three mode dimensions that still
    reproduces the failure on this source and configuration, each dimension generalised when
    its value does not matter (finalize=any: all four calling conventions fail; autoescape-
    block=runtime: both flag values fail; env-autoescape=enabled: True and select_autoescape)."""
    auto, block, fin = mode

    def mk(sub, a=auto, b=block, f=fin):
        return (a if sub[0] else "off", b if sub[1] else None, f if sub[2] else "none")

    present = (auto != "off", block is not None, fin != "none")
    chosen = present
    for sub in ((0, 0, 1), (0, 1, 0), (1, 0, 0), (0, 1, 1), (1, 0, 1), (1, 1, 0)):
        if any(u and not p for u, p in zip(sub, present)) or tuple(map(bool, sub)) == present:
            continue
        if fails(mk(sub)):
            chosen = sub
            break
    parts = []
    if chosen[0]:
        other = "select" if auto == "on" else "on"
        parts.append("env-autoescape=" + ("enabled" if fails(mk(chosen, a=other)) else auto))
    if chosen[1]:
        b = block.replace("+ctx", "")
        if b.startswith("rt-"):
            ctxs = "+ctx" if block.endswith("+ctx") and (b + "+ctx") in M.BLOCKS else ""
            flip = {"rt-true": "rt-false", "rt-false": "rt-true"}[b]
            flip = flip + ctxs if (flip + ctxs) in M.BLOCKS else flip
            b = "runtime" if fails(mk(chosen, b=flip)) else b
        parts.append("autoescape-block=" + b)
    if chosen[2]:
        every = all(fails(mk(chosen, f=f)) for f in FINALIZE[1:] if f != fin)
        parts.append("finalize=" + ("any" if every else fin))
    return "+".join(parts)


def mode_classify(got, exps):
    import html

    if got[0] == "exc":
        return "raises:" + type(got[1]).__name__
    out = str(got[1])
    n = lambda s: M.normalize(s, "\n")  # noqa: E731
    if any(n(out) == n(e) for e in exps):
        return "newline-form"
    if any(n(html.unescape(out)) == n(e) for e in exps):
        return "html-escaped"
    if any(n(out).rstrip("\n") == n(e).rstrip("\n") for e in exps):
        return "trailing-newline"
    return "content"


def check_modes(ctx, pool, keyprefix, src, last_text, exp_fn, combos, case):
    """Render `src` under (newline config, escaping/finalize mode) combinations other than the
    base mode: the text, comments and raw bodies are not expressions, so neither escaping nor
    finalize may touch them."""
    meta = any(c in src for c in HTML_CHARS)
    memo = {}
    blamed = {}
    for nl, keep, mode in combos:
        mode = tuple(mode)
        auto, block, fin = mode
        if block is not None and not M.wrappable(last_text):
            ctx.count("mode_block_not_applicable")
            continue

        def fails(m, nl=nl, keep=keep):
            k = (nl, keep, m)
            if k not in memo:
                g = render_mode(pool, nl, keep, m, src)
                memo[k] = not (g[0] == "ok" and g[1] in mode_expected(exp_fn, m, nl, keep))
            return memo[k]

        exps = mode_expected(exp_fn, mode, nl, keep)
        got = render_mode(pool, nl, keep, mode, src)
        ctx.ev()
        ctx.count("mode_renders")
        if meta:
            ctx.count("mode_renders_html_metachar")
        if auto != "off":
            ctx.count("mode_renders_env_autoescape")
        if block:
            ctx.count("mode_renders_autoescape_block")
            if block.startswith("rt-"):
                ctx.count("mode_renders_runtime_autoescape_block")
                if meta and M.block_flag(block):
                    ctx.count("mode_renders_runtime_block_on_html_metachar")
        if fin != "none":
            ctx.count("mode_renders_finalize")
            if fin in ("context", "eval_context"):
                ctx.count("mode_renders_finalize_needs_runtime_context")
        if not (got[0] == "ok" and got[1] in exps):
            what = mode_classify(got, exps)
            if (what, mode) not in blamed:     # same source, same mode: one mechanism
                blamed[(what, mode)] = blame(mode, fails)
            ctx.violation(f"{keyprefix}:{what}:{blamed[(what, mode)]}",
                          f"source {M.wrap(src, block)!r} in Environment(newline_sequence={nl!r}, "
                          f"keep_trailing_newline={keep}, autoescape={auto}, finalize={fin})"
                          f"{' rendered with flag=%s' % M.block_flag(block) if block and block.startswith('rt-') else ''}"
                          f": rendered {got[1]!r}, expected one of {sorted(exps)!r} (template text, "
                          f"comments and raw bodies are not expression results)",
                          dict(case, nl=nl, keep=keep, mode=list(mode)))


def sample_combos(rng, k):
    return [rng.choice(CONFIGS) + (rng.choice(OTHER_MODES),) for _ in range(k)]


def classify_plain(src, exp, got):
    """Mechanism of a plain-text mismatch."""
    if got[0] == "exc":
        return "raises:" + type(got[1]).__name__
    out = got[1]
    n = lambda s: M.normalize(s, "\n")  # noqa: E731
    if n(out) == n(exp):
        return "newline-form"
    if n(out).rstrip("\n") == n(exp).rstrip("\n"):
        return "trailing-newline"
    if n(out).replace("\n", "") == n(exp).replace("\n", ""):
        return "line-splitting"
    return "content"


def break_forms(src):
    forms = sorted({m.group(0) for m in M.BREAK.finditer(src)})
    return "+".join(NLNAME[f] for f in forms) or "none"


def check_plain(ctx, envs, src, counter, dist=True, pool=None, combos=()):
    if combos:
        check_modes(ctx, pool, "plain", src, src,
                    lambda nl, keep: {M.plain_expected(src, nl, keep)}, combos,
                    {"kind": "plain", "src": src})
    nbreaks = len(M.BREAK.findall(src))
    trailing = M.strip_one_trailing_break(src) != src
    for (nl, keep), env in envs.items():
        exp = M.plain_expected(src, nl, keep)
        got = render(env, src)
        ctx.ev()
        ctx.count(counter)
        if got != ("ok", exp):
            mode = classify_plain(src, exp, got)
            ctx.violation(f"plain:{mode}:breaks={break_forms(src)}",
                          f"source {src!r} with newline_sequence={nl!r} keep_trailing_newline="
                          f"{keep}: rendered {got[1]!r}, expected {exp!r}",
                          {"kind": "plain", "src": src, "nl": nl, "keep": keep})
    if trailing:
        ctx.count("trailing_break_cases")
    if len({m.group(0) for m in M.BREAK.finditer(src)}) > 1:
        ctx.count("mixed_break_cases")
    if dist and (nbreaks or any(c in src for c in "{}%#-")):
        ctx.dist(("p", src))


# ------------------------------------------------------------------ exhaustive
def run_exhaustive(ctx, envs, maxlen, timebox_from):
    idx = 0
    complete = 0
    for n in range(0, maxlen + 1):
        cut = False
        for tup in itertools.product(ALPHABET, repeat=n):
            idx += 1
            if not ctx.mine(idx):
                continue
            s = "".join(tup)
            if M.DELIM_START.search(s):
                ctx.count("exh_skipped_has_delimiter")
                continue
            ctx.count("exh_strings")
            check_plain(ctx, envs, s, "exh_renders", dist=(n <= 5))
            if n >= timebox_from and ctx.out_of_time():
                cut = True
                break
        if cut:
            ctx.count("exh_enumeration_cut")
            break
        complete = n
    ctx.extra["exhaustive_plain_length"] = complete if ctx.shard == 0 else 0
    return complete


# ------------------------------------------------------------------ random text
LETTERS = "abcXYZ019"
UNI = "\xe9\xdf\u03bb\u0436\u4e2d\U0001f600\xa0\u3000\ufeff\u200b"
NOTBREAK = "\x0b\x0c\x1c\x1d\x1e\x85\u2028\u2029"
CTRL = "\x00\x01\x07\x08\x1b\x1f\x7f"
PARTIAL = ["{", "}", "%", "#", "-", "+", "}}", "%}", "#}", "-%}", "-}}", "-#}", "{ {", "{ %",
           "{ #", "{-", "\\", "'", '"', "raw", "endraw", "% raw %", "{x{",
           "&", "<", ">", "&amp;", "<b>", "</p>", "&#39;", "<!-- & -->", "<a href=\"x?a=1&b='2'\">"]
BREAKS = ["\n", "\r\n", "\r", "\n\r", "\r\r\n", "\n\n", "\r\n\r\n", "\r\r"]


def rand_text(rng, maxparts, safe_only=False):
    parts = []
    for _ in range(rng.randint(0, maxparts)):
        k = rng.random()
        if k < 0.30:
            parts.append("".join(rng.choice(LETTERS) for _ in range(rng.randint(1, 5))))
        elif k < 0.50:
            parts.append(rng.choice(BREAKS))
        elif k < 0.62:
            parts.append(rng.choice([" ", "  ", "\t", " \t "]))
        elif k < 0.80:
            parts.append(rng.choice(PARTIAL))
        elif safe_only:
            parts.append("z")
        elif k < 0.88:
            parts.append(rng.choice(UNI))
        elif k < 0.96:
            parts.append(rng.choice(NOTBREAK))
        else:
            parts.append(rng.choice(CTRL))
    s = "".join(parts)
    # break up accidental delimiter starts
    while True:
        m = M.DELIM_START.search(s)
        if not m:
            return s
        s = s[: m.start() + 1] + " " + s[m.start() + 1:]


def run_random_text(ctx, envs, rng, n, pool, mrng):
    i = 0
    while ctx.more(i, n, min(n, 60)):
        i += 1
        s = rand_text(rng, rng.choice([3, 8, 20, 60]))
        if rng.random() < 0.5:
            s += rng.choice(BREAKS + [" \n", "\n ", "\x0b", "\x85", " ", "\x0c\n"])
        check_plain(ctx, envs, s, "random_text_renders", pool=pool,
                    combos=sample_combos(mrng, MODE_SAMPLES))
        if i <= 2 and ctx.shard == 0:
            ctx.sample({"kind": "plain", "src": s})


# ------------------------------------------------------------------ templates
LOOKALIKES = ["{{ x }}", "{{", "}}", "{% if x %}", "{% endif %}", "{%", "%}", "{# c #}", "{#",
              "{% raw %}", "{%raw%}", "{%- raw -%}", "{% endraw", "endraw %}", "{% endrawx %}",
              "{% end raw %}", "{ % endraw % }", "{% endraw x %}", "{{ '{% endraw' }}", "#",
              "{%-", "-%}", "{{-", "{#-", "{% for a in b %}", "{{ 1 + }}", "{% %}"]
RAW_OPEN = ["{% raw %}", "{%raw%}", "{%  raw  %}", "{%\traw %}", "{% raw\n%}", "{%raw %}"]
RAW_CLOSE = ["{% endraw %}", "{%endraw%}", "{%  endraw  %}", "{% endraw\t%}", "{%\nendraw %}"]


def rand_body(rng, kind):
    parts = []
    for _ in range(rng.randint(0, 6)):
        k = rng.random()
        if k < 0.45:
            parts.append(rng.choice(LOOKALIKES))
        elif k < 0.65:
            parts.append(rand_text(rng, 3, safe_only=False).replace("{", "{ "))
        elif k < 0.8:
            parts.append(rng.choice(BREAKS))
        elif k < 0.9:
            parts.append(rng.choice([" ", "\t", "  "]))
        else:
            parts.append(rng.choice(UNI + NOTBREAK))
    b = "".join(parts)
    if kind == "comment":
        b = b.replace("#}", "# }")
    return b


def rand_template(rng):
    """-> segments (model form) or None when the draw is not a valid template."""
    segs = []
    ntags = rng.randint(1, 4)
    for j in range(ntags):
        tag_kind = rng.choice(["comment", "raw"])
        if tag_kind == "comment":
            lminus = rng.random() < 0.15
            rminus = rng.random() < 0.15
            body = rand_body(rng, "comment")
            if rng.random() < 0.7:
                body = " " + body + " "
            if not M.valid_comment_body(body, lminus, rminus):
                return None
            tag = ("comment", body, lminus, rminus)
        else:
            o, c = rng.choice(RAW_OPEN), rng.choice(RAW_CLOSE)
            body = rand_body(rng, "raw")
            strip = rng.random() < 0.15
            if strip:
                o = o.rstrip("}")[:-1].rstrip() + " -%}"
                if not M.strip_is_unambiguous(body, left=True):
                    return None
            if not M.valid_raw_body(body, c):
                return None
            tag = ("raw", body, o, c, strip)
            lminus = False
        prev_minus = bool(segs) and segs[-1][0] == "comment" and segs[-1][3]
        safe = prev_minus or (tag_kind == "comment" and lminus)
        t = rand_text(rng, rng.choice([0, 2, 5]), safe_only=safe)
        if not M.valid_text(t, True):
            t += " "
        if prev_minus and not M.strip_is_unambiguous(t, left=True):
            return None
        if tag_kind == "comment" and lminus and not M.strip_is_unambiguous(t, left=False):
            return None
        if t or not segs or segs[-1][0] != "text":
            segs.append(("text", t))
        segs.append(tag)
    prev_minus = segs[-1][0] == "comment" and segs[-1][3]
    t = rand_text(rng, rng.choice([0, 0, 2, 5]), safe_only=prev_minus)
    if rng.random() < 0.4:
        t += rng.choice(BREAKS)
    if prev_minus and not M.strip_is_unambiguous(t, left=True):
        return None
    segs.append(("text", t))
    return segs


def tmpl_mode(segments, got, exps):
    if got[0] == "exc":
        return "raises:" + type(got[1]).__name__
    out = got[1]
    n = lambda s: M.normalize(s, "\n")  # noqa: E731
    if any(n(out) == n(e) for e in exps):
        return "newline-form"
    if any(n(out).rstrip("\n") == n(e).rstrip("\n") for e in exps):
        return "trailing-newline"
    return "content"


def check_template(ctx, envs, segments, cfgs=None, pool=None, combos=()):
    src = M.source_of(segments)
    kinds = sorted({s[0] for s in segments if s[0] != "text"})
    mods = sorted({"comment-minus" for s in segments if s[0] == "comment" and (s[2] or s[3])}
                  | {"raw-minus" for s in segments if s[0] == "raw" and s[4]})
    if combos:
        last = segments[-1][1] if segments[-1][0] == "text" else ""
        check_modes(ctx, pool, "template", src, last,
                    lambda nl, keep: M.expected(segments, nl, keep), combos,
                    {"kind": "template", "segments": [list(s) for s in segments]})
        if cfgs == []:
            return
    for (nl, keep), env in envs.items():
        if cfgs is not None and [nl, keep] not in cfgs:
            continue
        exps = M.expected(segments, nl, keep)
        got = render(env, src)
        ctx.ev()
        ctx.count("template_renders")
        if not (got[0] == "ok" and got[1] in exps):
            mode = tmpl_mode(segments, got, exps)
            ctx.violation("template:" + "+".join(kinds + mods) + ":" + mode,
                          f"source {src!r} newline_sequence={nl!r} keep_trailing_newline={keep}: "
                          f"rendered {got[1]!r}, expected one of {sorted(exps)!r}",
                          {"kind": "template", "segments": [list(s) for s in segments],
                           "nl": nl, "keep": keep})
    ctx.count("comment_segments", sum(1 for s in segments if s[0] == "comment"))
    ctx.count("raw_segments", sum(1 for s in segments if s[0] == "raw"))
    ctx.count("minus_modifier_templates", 1 if mods else 0)
    ctx.dist(("t", src))


def run_templates(ctx, envs, rng, n, pool, mrng):
    i = done = 0
    while ctx.more(done, n, min(n, 60)) and i < n * 5:
        i += 1
        segs = rand_template(rng)
        if segs is None:
            ctx.count("template_draws_rejected")
            continue
        done += 1
        check_template(ctx, envs, segs, pool=pool, combos=sample_combos(mrng, MODE_SAMPLES))
        if done <= 2 and ctx.shard == 0:
            ctx.sample({"kind": "template", "src": M.source_of(segs)})


FIXED_TEMPLATES = [
    [("text", "a"), ("comment", " note ", False, False), ("text", "b\n")],
    [("comment", "{{ x }}{% if %}\n{#", False, False), ("text", "\n")],
    [("text", "x\r\n"), ("raw", "{{ y }}\r\n{% if %}", "{% raw %}", "{% endraw %}", False),
     ("text", "\r\n\r\n")],
    [("raw", " \n\t {{ z }} ", "{% raw -%}", "{% endraw %}", True), ("text", "")],
    [("text", "a \n"), ("comment", " c ", True, True), ("text", " \n b")],
    [("raw", "{% raw %}", "{% raw %}", "{% endraw %}", False), ("text", "\r")],
    [("raw", "", "{%raw%}", "{%endraw%}", False), ("comment", "", False, False), ("text", "")],
]


# ------------------------------------------------------------------ systematic mode section
MODE_SAMPLES = 4          # (config, mode) combinations drawn per random text / template
MODE_ALPHABET = "a&<>'\"\n"
MODE_TEMPLATES = [
    [("text", "<a href=\"?x=1&y='2'\">"), ("comment", " <c> & \"d\" ", False, False),
     ("text", "'q' & </a>\n")],
    [("raw", "<{{ x }}> & \"r\" {% if %}\r\n'", "{% raw %}", "{% endraw %}", False),
     ("text", "\n")],
    [("text", "x < y\r\n"), ("raw", " \n & {{ '<' }}", "{% raw -%}", "{% endraw %}", True),
     ("comment", "&", True, True), ("text", " \n&amp;\n")],
    [("comment", "<!-- -->", False, False), ("text", "")],
    [("text", "1 < 2 && 3 > 2"), ("raw", "", "{%raw%}", "{%endraw%}", False),
     ("text", " \"ok\" 'ok'\r")],
    [("raw", "&lt;already&gt; &amp; <not>", "{% raw %}", "{%- endraw %}", False), ("text", "&")],
]


def mode_texts():
    """every string of length <= 1 over the HTML alphabet + pairs that put a metacharacter next
    to a line break / another metacharacter"""
    out = [""] + list(MODE_ALPHABET)
    out += ["a&", "<a>", "&\n", "\n<", "'\"", "&&", "\r\n>", "&amp;", "<\n\n"]
    return out


def run_modes_systematic(ctx, envs, pool):
    """Every short text over the HTML-metacharacter alphabet and every fixed template under
    EVERY (env autoescape x autoescape block x finalize) mode x every newline configuration."""
    idx = 0
    items = [("p", t) for t in mode_texts()] + [("t", segs) for segs in MODE_TEMPLATES]
    for kind, item in items:
        for mode in OTHER_MODES:
            idx += 1
            if not ctx.mine(idx):
                continue
            combos = [(nl, keep, mode) for nl, keep in CONFIGS]
            ctx.count("mode_systematic_cells")
            if kind == "p":
                check_modes(ctx, pool, "plain", item, item,
                            lambda nl, keep, item=item: {M.plain_expected(item, nl, keep)},
                            combos, {"kind": "plain", "src": item})
                if item or mode[1]:
                    ctx.dist(("pm", item, list(mode)))
            else:
                check_template(ctx, envs, item, cfgs=[], pool=pool, combos=combos)
                ctx.dist(("tm", M.source_of(item), list(mode)))
    ctx.extra["mode_table_cells"] = idx if ctx.shard == 0 else 0


# ------------------------------------------------------------------ environment histories
# Several environments alive in one process: each one must render text per ITS OWN options
# (constructor arguments, overlay() arguments, or attributes assigned BEFORE it loaded its first
# template - api.rst: "Instances of this class may be modified if they are not shared and if no
# template was loaded so far").  An environment whose options are reassigned AFTER it loaded a
# template is in documented "undefined behavior" territory: it keeps being used (that is what
# applications do) but is never judged; every OTHER environment still is.
HIST_VARIANTS = {          # options that have nothing to do with template text
    "plain": {},
    "autoescape": {"autoescape": True},
    "unoptimized": {"optimized": False},
    "nocache": {"cache_size": 0},
    "strict": {"undefined": "StrictUndefined"},
    "ext": {"extensions": ["jinja2.ext.do", "jinja2.ext.loopcontrols"]},
}
HIST_FAMILIES = ("default", "stmt-prefix", "comment-prefix", "both-prefixes")
_salt_counter = itertools.count()


def family_kwargs(family, salt):
    """Options shared by all environments of one history.  The line prefixes contain '@', which
    no generated source contains, so they never match: the family only makes the environments of
    one history differently configured from those of every other history in the process."""
    kw = {}
    if family in ("stmt-prefix", "both-prefixes"):
        kw["line_statement_prefix"] = f"@@S{salt}@@"
    if family in ("comment-prefix", "both-prefixes"):
        kw["line_comment_prefix"] = f"@@C{salt}@@"
    return kw


def hist_source(rng):
    """-> JSON-able source spec; sources end in / contain line breaks most of the time."""
    if rng.random() < 0.5:
        s = rand_text(rng, rng.choice([2, 5, 12]))
        if rng.random() < 0.8:
            s += rng.choice(BREAKS)
        if not M.BREAK.search(s):
            s = "l1" + rng.choice(BREAKS[:3]) + s
        return {"kind": "plain", "src": s}
    for _ in range(20):
        segs = rand_template(rng)
        if segs is not None and M.BREAK.search(M.source_of(segs)):
            return {"kind": "template", "segments": [list(x) for x in segs]}
    return {"kind": "template", "segments": [list(x) for x in rng.choice(FIXED_TEMPLATES[:3])]}


def gen_history(rng):
    """-> (family, ops).  ops: ["new", slot, nl, keep, variant] | ["overlay", slot, parent, nl|None,
    keep|None] | ["assign", slot, attr, value] | ["render", slot, source] | ["del", slot] | ["gc"]."""
    family = rng.choice(HIST_FAMILIES + HIST_FAMILIES[1:])
    cfgs = rng.sample(CONFIGS, rng.choice([1, 2, 2, 3]))
    ops, live, nslot = [], {}, 0          # live: slot -> {"children", "overlay", "tainted"}
    gc_left = 1 if rng.random() < 0.3 else 0
    for step in range(rng.randint(8, 22)):
        k = rng.random()
        cand = sorted(live)
        if not cand or (k < 0.22 and len(cand) < 5):
            nl, keep = rng.choice(cfgs)
            ops.append(["new", nslot, nl, keep, rng.choice(sorted(HIST_VARIANTS))])
            live[nslot] = {"children": False, "overlay": False, "tainted": False}
            nslot += 1
        elif k < 0.30 and len(cand) < 6:
            parents = [c for c in cand if not live[c]["tainted"]]
            if not parents:
                continue
            par = rng.choice(parents)
            nl = rng.choice([None, None] + [c[0] for c in cfgs])
            keep = rng.choice([None, None] + [c[1] for c in cfgs] + [True, False])
            ops.append(["overlay", nslot, par, nl, keep])
            live[par]["children"] = True
            live[nslot] = {"children": False, "overlay": True, "tainted": False}
            nslot += 1
        elif k < 0.45:
            victims = [c for c in cand if not live[c]["children"]]
            if not victims:
                continue
            v = rng.choice(victims)
            if rng.random() < 0.5:
                ops.append(["assign", v, "newline_sequence", rng.choice(["\n", "\r\n", "\r"])])
            else:
                ops.append(["assign", v, "keep_trailing_newline", rng.random() < 0.5])
            if rng.random() < 0.5:       # both options, as a reconfiguration hook would
                ops.append(["assign", v, "keep_trailing_newline", rng.random() < 0.5])
        elif k < 0.52 and len(cand) > 1:
            v = rng.choice(cand)
            ops.append(["del", v])
            del live[v]
            if gc_left and rng.random() < 0.5:
                gc_left -= 1
                ops.append(["gc"])
        else:
            ops.append(["render", rng.choice(cand), hist_source(rng)])
    # every environment that is still alive renders once more at the end
    for c in sorted(live):
        ops.append(["render", c, hist_source(rng)])
    return family, ops


def exec_history(family, ops, salt):
    """Run the operations; -> (failures, stats).  A failure is a render on a judged environment
    whose output is not what that environment's own options prescribe."""
    import gc

    import jinja2

    fkw = family_kwargs(family, salt)
    slots, failures = {}, []
    reassigned_cfgs = []        # configurations some environment was USED with before it was reassigned
    deleted_cfgs = []
    st = {"judged": 0, "unjudged": 0, "judged_overlay": 0, "judged_preassigned": 0,
          "judged_equal_cfg_reassigned_elsewhere": 0, "judged_recreated_after_delete": 0,
          "judged_with_sibling_equal_cfg": 0, "judged_equal_cfg_deleted_earlier": 0, "envs": 0, "deletes": 0, "assign_after_use": 0,
          "assign_before_use": 0}
    for i, op in enumerate(ops):
        what = op[0]
        if what == "new":
            _, slot, nl, keep, variant = op
            kw = dict(HIST_VARIANTS[variant])
            if "undefined" in kw:
                kw["undefined"] = getattr(jinja2, kw["undefined"])
            env = jinja2.Environment(newline_sequence=nl, keep_trailing_newline=keep, **fkw, **kw)
            slots[slot] = {"env": env, "own": (nl, keep), "used": False, "tainted": False,
                           "kind": "constructed", "recreated": (nl, keep) in deleted_cfgs}
            st["envs"] += 1
        elif what == "overlay":
            _, slot, par, nl, keep = op
            if par not in slots or slots[par]["tainted"]:
                continue
            p = slots[par]
            kw = {}
            if nl is not None:
                kw["newline_sequence"] = nl
            if keep is not None:
                kw["keep_trailing_newline"] = keep
            env = p["env"].overlay(**kw)
            own = (p["own"][0] if nl is None else nl, p["own"][1] if keep is None else keep)
            slots[slot] = {"env": env, "own": own, "used": False, "tainted": False,
                           "kind": "overlay", "recreated": own in deleted_cfgs,
                           "parent_used": p["used"]}
            p["children"] = True
            st["envs"] += 1
        elif what == "assign":
            _, slot, attr, value = op
            if slot not in slots or slots[slot].get("children"):
                continue
            s = slots[slot]
            if s["used"] or s["kind"] == "overlay":
                if s["used"] and not s["tainted"]:
                    reassigned_cfgs.append(s["own"])
                elif s["used"]:
                    reassigned_cfgs.append((s["env"].newline_sequence, s["env"].keep_trailing_newline))
                s["tainted"] = True          # undefined behaviour for THIS environment from now on
                st["assign_after_use"] += 1
            else:
                nl, keep = s["own"]
                s["own"] = (value, keep) if attr == "newline_sequence" else (nl, value)
                s["kind"] = "assigned-before-use"
                st["assign_before_use"] += 1
            setattr(s["env"], attr, value)
        elif what == "del":
            if op[1] in slots:
                deleted_cfgs.append(slots[op[1]]["own"])
                del slots[op[1]]
                st["deletes"] += 1
        elif what == "gc":
            gc.collect()
        elif what == "render":
            _, slot, spec = op
            if slot not in slots:
                continue
            s = slots[slot]
            if spec["kind"] == "plain":
                src = spec["src"]
                exps = {M.plain_expected(src, *s["own"])}
            else:
                segs = [tuple(x) for x in spec["segments"]]
                src = M.source_of(segs)
                exps = M.expected(segs, *s["own"])
            assert "@" not in src
            got = render(s["env"], src)
            s["used"] = True
            if s["tainted"]:
                st["unjudged"] += 1
                continue
            st["judged"] += 1
            if s["kind"] == "overlay":
                st["judged_overlay"] += 1
            if s["kind"] == "assigned-before-use":
                st["judged_preassigned"] += 1
            if s["own"] in reassigned_cfgs:
                st["judged_equal_cfg_reassigned_elsewhere"] += 1
            if s["recreated"]:
                st["judged_recreated_after_delete"] += 1
            if s["own"] in deleted_cfgs:
                st["judged_equal_cfg_deleted_earlier"] += 1
            if any(o is not s and o["own"] == s["own"] for o in slots.values()):
                st["judged_with_sibling_equal_cfg"] += 1
            if not (got[0] == "ok" and got[1] in exps):
                failures.append({"op": i, "kind": s["kind"], "own": s["own"], "src": src,
                                 "got": got, "exps": exps,
                                 "mismatch": tmpl_mode(None, got, exps)})
    return failures, st


HIST_CLASSES = {
    "reassign-after-use": lambda op, ctxt: op[0] == "assign" and ctxt["used"].get(op[1]),
    "assign-before-use": lambda op, ctxt: op[0] == "assign" and not ctxt["used"].get(op[1]),
    "delete": lambda op, ctxt: op[0] in ("del", "gc"),
    "overlay": lambda op, ctxt: op[0] == "overlay",
}


def without_class(ops, cls):
    pred, out, used = HIST_CLASSES[cls], [], {}
    for op in ops:
        if op[0] == "render":
            used[op[1]] = True
        if not pred(op, {"used": used}):
            out.append(op)
    return out


def history_key(family, ops, fail):
    """Mechanism: judged environment kind + mismatch class + which operation classes the
    history needs for the mismatch to appear (each class is dropped in turn and the history is
    re-executed with a fresh family salt, i.e. with environments no earlier history shares
    configuration with)."""
    fam = family if family != "default" else "both-prefixes"
    same = lambda fs: any(f["mismatch"] == fail["mismatch"] for f in fs)  # noqa: E731
    alone = [["new", 0, fail["own"][0], fail["own"][1], "plain"], ["render", 0, ops[fail["op"]][2]]]
    if same(exec_history(fam, alone, f"k{next(_salt_counter)}")[0]):
        # not a matter of several environments: the other sections report this mechanism
        return f"history:{fail['mismatch']}:needs=nothing(one-fresh-environment-fails-alone)"
    if not same(exec_history(fam, ops, f"k{next(_salt_counter)}")[0]):
        return f"history:{fail['mismatch']}:needs=process-wide-state-of-earlier-histories"
    needs, cur = [], ops
    for cls in HIST_CLASSES:
        trial = without_class(cur, cls)
        if same(exec_history(fam, trial, f"k{next(_salt_counter)}")[0]):
            cur = trial
        else:
            needs.append(cls)
    return f"history:{fail['mismatch']}:needs=" + ("+".join(needs) or "several-environments-only")


def check_history(ctx, family, ops, salt, counting=True):
    failures, st = exec_history(family, ops, salt)
    if counting:
        ctx.count("history_runs")
        ctx.count("history_environments", st["envs"])
        ctx.count("history_judged_renders", st["judged"])
        ctx.count("history_unjudged_renders_on_reassigned_env", st["unjudged"])
        ctx.count("history_judged_overlay_renders", st["judged_overlay"])
        ctx.count("history_judged_assigned_before_use_renders", st["judged_preassigned"])
        ctx.count("history_judged_equal_cfg_reassigned_elsewhere",
                  st["judged_equal_cfg_reassigned_elsewhere"])
        ctx.count("history_judged_recreated_after_delete", st["judged_recreated_after_delete"])
        ctx.count("history_judged_with_sibling_equal_cfg", st["judged_with_sibling_equal_cfg"])
        ctx.count("history_judged_equal_cfg_deleted_earlier",
                  st["judged_equal_cfg_deleted_earlier"])
        ctx.count("history_reassign_after_use", st["assign_after_use"])
        if family == "default":
            ctx.count("history_default_family_runs")
    ctx.ev(st["judged"])
    if failures:
        f = failures[0]
        ctx.violation(history_key(family, ops, f),
                      f"environment history ({family} family, {st['envs']} environments): operation "
                      f"#{f['op']} renders {f['src']!r} on a {f['kind']} environment whose own "
                      f"options are newline_sequence={f['own'][0]!r} keep_trailing_newline="
                      f"{f['own'][1]}: got {f['got'][1]!r}, expected one of {sorted(f['exps'])!r}; "
                      f"operations before it: "
                      f"{[o if o[0] != 'render' else ['render', o[1]] for o in ops[:f['op']]]!r}",
                      {"kind": "history", "family": family, "ops": ops})
    shape = [o if o[0] != "render" else ["render", o[1], o[2]["kind"]] for o in ops]
    ctx.dist(("h", family, shape))


def run_histories(ctx, rng, n):
    i = 0
    while ctx.more(i, n, min(n, 12)):
        family, ops = gen_history(rng)
        check_history(ctx, family, ops, f"{ctx.shard}x{i}")
        if i < 1 and ctx.shard == 0:
            ctx.sample({"kind": "history", "family": family,
                        "ops": [o if o[0] != "render" else ["render", o[1]] for o in ops]})
        i += 1



def run(ctx):
    envs = make_envs()
    pool = EnvPool()
    quick = ctx.tier == "quick"
    # histories first: no other environment of this process has loaded a template yet, so the
    # default-family histories start from a pristine process
    run_histories(ctx, ctx.rng("hist"), 45 if quick else 900)
    for j, segs in enumerate(FIXED_TEMPLATES):
        if ctx.mine(j):
            check_template(ctx, envs, segs)
    run_modes_systematic(ctx, envs, pool)
    mrng = ctx.rng("mode")
    run_random_text(ctx, envs, ctx.rng("text"), 100 if quick else 1500, pool, mrng)
    run_templates(ctx, envs, ctx.rng("tmpl"), 100 if quick else 1500, pool, mrng)
    # exhaustive part last: lengths <= 4 (quick) / <= 5 (thorough) always complete, the final
    # length is time-boxed and the completed length is reported
    done = run_exhaustive(ctx, envs, EXH_LEN[ctx.tier], timebox_from=5 if quick else 6)
    if done < (4 if quick else 5):
        ctx.inconc(f"exhaustive plain-text enumeration only reached length {done}")


def replay(ctx, case):
    if case["kind"] == "history":
        check_history(ctx, case["family"], case["ops"], "replay", counting=False)
        return
    envs = make_envs()
    if case.get("mode"):
        pool = EnvPool()
        combos = [(case["nl"], case["keep"], tuple(case["mode"]))]
        if case["kind"] == "plain":
            src = case["src"]
            check_modes(ctx, pool, "plain", src, src,
                        lambda nl, keep: {M.plain_expected(src, nl, keep)}, combos,
                        {"kind": "plain", "src": src})
        else:
            segs = [tuple(s) for s in case["segments"]]
            check_template(ctx, envs, segs, cfgs=[], pool=pool, combos=combos)
        return
    if case["kind"] == "plain":
        check_plain(ctx, {(case["nl"], case["keep"]): envs[(case["nl"], case["keep"])]},
                    case["src"], "replay", dist=False)
    else:
        segs = [tuple(s) for s in case["segments"]]
        check_template(ctx, envs, segs, cfgs=[[case["nl"], case["keep"]]])
