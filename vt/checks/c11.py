"""C11 — plain text, comments and raw blocks render verbatim (modulo the
documented line-break normalisation and single trailing newline removal)."""
from __future__ import annotations

import itertools

from vt.model import c11_text as M

PID = "C11"
LEVEL = "exploration"
RULE = ("plain text: EVERY string up to length L over {a, space, tab, {, }, %, #, -, \\n, \\r} "
        "that contains no delimiter start ({{ {% {#) rendered under all 6 configurations "
        "(newline_sequence \\n|\\r\\n|\\r x keep_trailing_newline) and compared with the "
        "split/join model; random long texts (Unicode, NUL/controls, \\x0b \\x0c \\x1c-\\x1e "
        "\\x85 U+2028/9 which are not line breaks, partial and closing delimiters, all break "
        "forms incl. mixtures at the end); random templates of text + comments + raw blocks "
        "whose bodies contain delimiter look-alikes ({{ x }}, {% if %}, {# #}, {% raw %}, "
        "near-miss endraw tags) with tag-internal whitespace variants and the documented '-' "
        "forms ({#- -#}, {% raw -%}). distinct = each exhaustive string that contains a line "
        "break or a partial delimiter character (len<=5) / each random source; a case is "
        "non-trivial when it contains a line break, a delimiter character or a tag")
TECHNIQUE = "reference-model monitor (newline split/join model) over exhaustive short strings + random templates"
LEVEL_TEXT = ("held for every plain string up to the reported length in all 6 newline "
              "configurations and on the random texts/templates generated")
ASSUMPTIONS = [
    "default delimiters, no line statements, trim_blocks/lstrip_blocks off (C12 covers them)",
    "line breaks inside a raw block may come out verbatim or converted to newline_sequence "
    "(the documentation does not say; both are accepted, a mixture is not)",
    "'-' modifiers are only used next to whitespace runs made of space, tab, \\n, \\r",
]
NSHARDS = {"quick": 16, "thorough": 16}
BUDGET_S = {"quick": 12, "thorough": 540}
EXH_LEN = {"quick": 5, "thorough": 6}
FLOORS = {
    # lengths <= 4 (quick) / <= 5 (thorough) are never time-boxed: 10.8k / 108k strings x 6 configs
    "quick": {"evaluations": 70000, "distinct": 9000,
              "counters": {"exh_strings": 10000, "exh_renders": 60000, "random_text_renders": 4000,
                           "template_renders": 4000, "comment_segments": 700,
                           "raw_segments": 700, "trailing_break_cases": 2000,
                           "mixed_break_cases": 800, "minus_modifier_templates": 100}},
    "thorough": {"evaluations": 700000, "distinct": 80000,
                 "counters": {"exh_strings": 100000, "exh_renders": 600000,
                              "random_text_renders": 30000, "template_renders": 30000,
                              "comment_segments": 15000, "raw_segments": 15000,
                              "trailing_break_cases": 20000, "mixed_break_cases": 8000,
                              "minus_modifier_templates": 2000}},
}

ALPHABET = "a \t{}%#-\n\r"
CONFIGS = [(nl, keep) for nl in ("\n", "\r\n", "\r") for keep in (False, True)]
NLNAME = {"\n": "lf", "\r\n": "crlf", "\r": "cr"}


def make_envs():
    from jinja2 import Environment

    return {(nl, keep): Environment(newline_sequence=nl, keep_trailing_newline=keep)
            for nl, keep in CONFIGS}


def render(env, src):
    try:
        return ("ok", env.from_string(src).render())
    except Exception as e:  # noqa: BLE001
        return ("exc", e)


def classify_plain(src, exp, got):
    """Mechanism of a plain-text mismatch."""
    if got[0] == "exc":
        return "raises:" + type(got[1]).__name__
    out = got[1]
    n = lambda s: M.normalize(s, "\n")  # noqa: E731
    if n(out) == n(exp):
        return "newline-form"
    if n(out).rstrip("\n") == n(exp).rstrip("\n"):
        return "trailing-newline"
    if n(out).replace("\n", "") == n(exp).replace("\n", ""):
        return "line-splitting"
    return "content"


def break_forms(src):
    forms = sorted({m.group(0) for m in M.BREAK.finditer(src)})
    return "+".join(NLNAME[f] for f in forms) or "none"


def check_plain(ctx, envs, src, counter, dist=True):
    nbreaks = len(M.BREAK.findall(src))
    trailing = M.strip_one_trailing_break(src) != src
    for (nl, keep), env in envs.items():
        exp = M.plain_expected(src, nl, keep)
        got = render(env, src)
        ctx.ev()
        ctx.count(counter)
        if got != ("ok", exp):
            mode = classify_plain(src, exp, got)
            ctx.violation(f"plain:{mode}:breaks={break_forms(src)}",
                          f"source {src!r} with newline_sequence={nl!r} keep_trailing_newline="
                          f"{keep}: rendered {got[1]!r}, expected {exp!r}",
                          {"kind": "plain", "src": src, "nl": nl, "keep": keep})
    if trailing:
        ctx.count("trailing_break_cases")
    if len({m.group(0) for m in M.BREAK.finditer(src)}) > 1:
        ctx.count("mixed_break_cases")
    if dist and (nbreaks or any(c in src for c in "{}%#-")):
        ctx.dist(("p", src))


# ------------------------------------------------------------------ exhaustive
def run_exhaustive(ctx, envs, maxlen, timebox_from):
    idx = 0
    complete = 0
    for n in range(0, maxlen + 1):
        cut = False
        for tup in itertools.product(ALPHABET, repeat=n):
            idx += 1
            if not ctx.mine(idx):
                continue
            s = "".join(tup)
            if M.DELIM_START.search(s):
                ctx.count("exh_skipped_has_delimiter")
                continue
            ctx.count("exh_strings")
            check_plain(ctx, envs, s, "exh_renders", dist=(n <= 5))
            if n >= timebox_from and ctx.out_of_time():
                cut = True
                break
        if cut:
            ctx.count("exh_enumeration_cut")
            break
        complete = n
    ctx.extra["exhaustive_plain_length"] = complete if ctx.shard == 0 else 0
    return complete


# ------------------------------------------------------------------ random text
LETTERS = "abcXYZ019"
UNI = "\xe9\xdf\u03bb\u0436\u4e2d\U0001f600\xa0\u3000\ufeff\u200b"
NOTBREAK = "\x0b\x0c\x1c\x1d\x1e\x85\u2028\u2029"
CTRL = "\x00\x01\x07\x08\x1b\x1f\x7f"
PARTIAL = ["{", "}", "%", "#", "-", "+", "}}", "%}", "#}", "-%}", "-}}", "-#}", "{ {", "{ %",
           "{ #", "{-", "\\", "'", '"', "raw", "endraw", "% raw %", "{x{"]
BREAKS = ["\n", "\r\n", "\r", "\n\r", "\r\r\n", "\n\n", "\r\n\r\n", "\r\r"]


def rand_text(rng, maxparts, safe_only=False):
    parts = []
    for _ in range(rng.randint(0, maxparts)):
        k = rng.random()
        if k < 0.30:
            parts.append("".join(rng.choice(LETTERS) for _ in range(rng.randint(1, 5))))
        elif k < 0.50:
            parts.append(rng.choice(BREAKS))
        elif k < 0.62:
            parts.append(rng.choice([" ", "  ", "\t", " \t "]))
        elif k < 0.80:
            parts.append(rng.choice(PARTIAL))
        elif safe_only:
            parts.append("z")
        elif k < 0.88:
            parts.append(rng.choice(UNI))
        elif k < 0.96:
            parts.append(rng.choice(NOTBREAK))
        else:
            parts.append(rng.choice(CTRL))
    s = "".join(parts)
    # break up accidental delimiter starts
    while True:
        m = M.DELIM_START.search(s)
        if not m:
            return s
        s = s[: m.start() + 1] + " " + s[m.start() + 1:]


def run_random_text(ctx, envs, rng, n):
    i = 0
    while ctx.more(i, n, min(n, 60)):
        i += 1
        s = rand_text(rng, rng.choice([3, 8, 20, 60]))
        if rng.random() < 0.5:
            s += rng.choice(BREAKS + [" \n", "\n ", "\x0b", "\x85", " ", "\x0c\n"])
        check_plain(ctx, envs, s, "random_text_renders")
        if i <= 2 and ctx.shard == 0:
            ctx.sample({"kind": "plain", "src": s})


# ------------------------------------------------------------------ templates
LOOKALIKES = ["{{ x }}", "{{", "}}", "{% if x %}", "{% endif %}", "{%", "%}", "{# c #}", "{#",
              "{% raw %}", "{%raw%}", "{%- raw -%}", "{% endraw", "endraw %}", "{% endrawx %}",
              "{% end raw %}", "{ % endraw % }", "{% endraw x %}", "{{ '{% endraw' }}", "#",
              "{%-", "-%}", "{{-", "{#-", "{% for a in b %}", "{{ 1 + }}", "{% %}"]
RAW_OPEN = ["{% raw %}", "{%raw%}", "{%  raw  %}", "{%\traw %}", "{% raw\n%}", "{%raw %}"]
RAW_CLOSE = ["{% endraw %}", "{%endraw%}", "{%  endraw  %}", "{% endraw\t%}", "{%\nendraw %}"]


def rand_body(rng, kind):
    parts = []
    for _ in range(rng.randint(0, 6)):
        k = rng.random()
        if k < 0.45:
            parts.append(rng.choice(LOOKALIKES))
        elif k < 0.65:
            parts.append(rand_text(rng, 3, safe_only=False).replace("{", "{ "))
        elif k < 0.8:
            parts.append(rng.choice(BREAKS))
        elif k < 0.9:
            parts.append(rng.choice([" ", "\t", "  "]))
        else:
            parts.append(rng.choice(UNI + NOTBREAK))
    b = "".join(parts)
    if kind == "comment":
        b = b.replace("#}", "# }")
    return b


def rand_template(rng):
    """-> segments (model form) or None when the draw is not a valid template."""
    segs = []
    ntags = rng.randint(1, 4)
    for j in range(ntags):
        tag_kind = rng.choice(["comment", "raw"])
        if tag_kind == "comment":
            lminus = rng.random() < 0.15
            rminus = rng.random() < 0.15
            body = rand_body(rng, "comment")
            if rng.random() < 0.7:
                body = " " + body + " "
            if not M.valid_comment_body(body, lminus, rminus):
                return None
            tag = ("comment", body, lminus, rminus)
        else:
            o, c = rng.choice(RAW_OPEN), rng.choice(RAW_CLOSE)
            body = rand_body(rng, "raw")
            strip = rng.random() < 0.15
            if strip:
                o = o.rstrip("}")[:-1].rstrip() + " -%}"
                if not M.strip_is_unambiguous(body, left=True):
                    return None
            if not M.valid_raw_body(body, c):
                return None
            tag = ("raw", body, o, c, strip)
            lminus = False
        prev_minus = bool(segs) and segs[-1][0] == "comment" and segs[-1][3]
        safe = prev_minus or (tag_kind == "comment" and lminus)
        t = rand_text(rng, rng.choice([0, 2, 5]), safe_only=safe)
        if not M.valid_text(t, True):
            t += " "
        if prev_minus and not M.strip_is_unambiguous(t, left=True):
            return None
        if tag_kind == "comment" and lminus and not M.strip_is_unambiguous(t, left=False):
            return None
        if t or not segs or segs[-1][0] != "text":
            segs.append(("text", t))
        segs.append(tag)
    prev_minus = segs[-1][0] == "comment" and segs[-1][3]
    t = rand_text(rng, rng.choice([0, 0, 2, 5]), safe_only=prev_minus)
    if rng.random() < 0.4:
        t += rng.choice(BREAKS)
    if prev_minus and not M.strip_is_unambiguous(t, left=True):
        return None
    segs.append(("text", t))
    return segs


def tmpl_mode(segments, got, exps):
    if got[0] == "exc":
        return "raises:" + type(got[1]).__name__
    out = got[1]
    n = lambda s: M.normalize(s, "\n")  # noqa: E731
    if any(n(out) == n(e) for e in exps):
        return "newline-form"
    if any(n(out).rstrip("\n") == n(e).rstrip("\n") for e in exps):
        return "trailing-newline"
    return "content"


def check_template(ctx, envs, segments, cfgs=None):
    src = M.source_of(segments)
    kinds = sorted({s[0] for s in segments if s[0] != "text"})
    mods = sorted({"comment-minus" for s in segments if s[0] == "comment" and (s[2] or s[3])}
                  | {"raw-minus" for s in segments if s[0] == "raw" and s[4]})
    for (nl, keep), env in envs.items():
        if cfgs is not None and [nl, keep] not in cfgs:
            continue
        exps = M.expected(segments, nl, keep)
        got = render(env, src)
        ctx.ev()
        ctx.count("template_renders")
        if not (got[0] == "ok" and got[1] in exps):
            mode = tmpl_mode(segments, got, exps)
            ctx.violation("template:" + "+".join(kinds + mods) + ":" + mode,
                          f"source {src!r} newline_sequence={nl!r} keep_trailing_newline={keep}: "
                          f"rendered {got[1]!r}, expected one of {sorted(exps)!r}",
                          {"kind": "template", "segments": [list(s) for s in segments],
                           "nl": nl, "keep": keep})
    ctx.count("comment_segments", sum(1 for s in segments if s[0] == "comment"))
    ctx.count("raw_segments", sum(1 for s in segments if s[0] == "raw"))
    ctx.count("minus_modifier_templates", 1 if mods else 0)
    ctx.dist(("t", src))


def run_templates(ctx, envs, rng, n):
    i = done = 0
    while ctx.more(done, n, min(n, 60)) and i < n * 5:
        i += 1
        segs = rand_template(rng)
        if segs is None:
            ctx.count("template_draws_rejected")
            continue
        done += 1
        check_template(ctx, envs, segs)
        if done <= 2 and ctx.shard == 0:
            ctx.sample({"kind": "template", "src": M.source_of(segs)})


FIXED_TEMPLATES = [
    [("text", "a"), ("comment", " note ", False, False), ("text", "b\n")],
    [("comment", "{{ x }}{% if %}\n{#", False, False), ("text", "\n")],
    [("text", "x\r\n"), ("raw", "{{ y }}\r\n{% if %}", "{% raw %}", "{% endraw %}", False),
     ("text", "\r\n\r\n")],
    [("raw", " \n\t {{ z }} ", "{% raw -%}", "{% endraw %}", True), ("text", "")],
    [("text", "a \n"), ("comment", " c ", True, True), ("text", " \n b")],
    [("raw", "{% raw %}", "{% raw %}", "{% endraw %}", False), ("text", "\r")],
    [("raw", "", "{%raw%}", "{%endraw%}", False), ("comment", "", False, False), ("text", "")],
]


def run(ctx):
    envs = make_envs()
    quick = ctx.tier == "quick"
    for j, segs in enumerate(FIXED_TEMPLATES):
        if ctx.mine(j):
            check_template(ctx, envs, segs)
    run_random_text(ctx, envs, ctx.rng("text"), 100 if quick else 1500)
    run_templates(ctx, envs, ctx.rng("tmpl"), 100 if quick else 1500)
    # exhaustive part last: lengths <= 4 (quick) / <= 5 (thorough) always complete, the final
    # length is time-boxed and the completed length is reported
    done = run_exhaustive(ctx, envs, EXH_LEN[ctx.tier], timebox_from=5 if quick else 6)
    if done < (4 if quick else 5):
        ctx.inconc(f"exhaustive plain-text enumeration only reached length {done}")


def replay(ctx, case):
    envs = make_envs()
    if case["kind"] == "plain":
        check_plain(ctx, {(case["nl"], case["keep"]): envs[(case["nl"], case["keep"])]},
                    case["src"], "replay", dist=False)
    else:
        segs = [tuple(s) for s in case["segments"]]
        check_template(ctx, envs, segs, cfgs=[[case["nl"], case["keep"]]])
