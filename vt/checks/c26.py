"""C26 — LRUCache vs a reference LRU map: exhaustive sequential histories and
schedule-enumerated concurrent histories checked for linearizability."""
from __future__ import annotations

import copy
import itertools
import pickle
import threading
import types
from collections import OrderedDict

from vt.mon import sched as S

PID = "C26"
LEVEL = "exploration"
RULE = ("sequential: every history of length<=L over {get,getitem,set,del,setdefault,contains}"
        "x3 keys + clear/copy/pickle, capacities 1-3, all observers compared with an "
        "OrderedDict model after the last op; concurrent: 2-3 threads x 1-3 ops on the real "
        "LRUCache under a sys.monitoring line-level scheduler with cooperative lock "
        "substitution, DFS over schedules within a pre-emption bound, each history checked "
        "for linearizability against the model (Wing-Gong search). distinct = distinct "
        "sequential histories (op,key,capacity sequences) + distinct concurrent schedules "
        "(choice sequences) that contain >=1 pre-emption")
ASSUMPTIONS = [
    "pre-emption only at line boundaries of LRUCache methods (CPython switches at bytecode "
    "boundaries; intra-line switches are not explored)",
    "pre-emption bound 2 (quick) / 3 (thorough)",
    "values are unique per write so reads identify their write",
]
NSHARDS = {"quick": 16, "thorough": 16}
BUDGET_S = {"quick": 25, "thorough": 600}
FLOORS = {
    "quick": {"evaluations": 20000, "distinct": 2000,
              "counters": {"conc_schedules": 1500, "conc_preempt_in_locked": 300,
                           "seq_histories": 10000, "lin_checks": 1500,
                           "conc_writer_writer_programs_run": 40}},
    "thorough": {"evaluations": 200000, "distinct": 20000,
                 "counters": {"conc_schedules": 20000, "conc_preempt_in_locked": 3000,
                              "seq_histories": 100000, "lin_checks": 20000,
                              "conc_writer_writer_programs_run": 100}},
}

KEYS = ["a", "b", "c"]
MISSING = "<KeyError>"


# ------------------------------------------------------------------ model
class Model:
    def __init__(self, cap):
        self.cap = cap
        self.d = OrderedDict()  # oldest first

    def clone(self):
        m = Model(self.cap)
        m.d = OrderedDict(self.d)
        return m

    def apply(self, op, k=None, v=None):
        d = self.d
        if op == "get":
            if k in d:
                d.move_to_end(k)
                return d[k]
            return None
        if op == "getitem":
            if k in d:
                d.move_to_end(k)
                return d[k]
            return MISSING
        if op == "set":
            if k in d:
                del d[k]
            elif len(d) >= self.cap:
                d.popitem(last=False)
            d[k] = v
            return None
        if op == "del":
            if k in d:
                del d[k]
                return None
            return MISSING
        if op == "setdefault":
            if k in d:
                d.move_to_end(k)
                return d[k]
            if len(d) >= self.cap:
                d.popitem(last=False)
            d[k] = v
            return v
        if op == "contains":
            return k in d
        if op == "len":
            return len(d)
        if op == "clear":
            d.clear()
            return None
        if op in ("copy", "pickle"):
            return None
        if op == "keys":
            return list(reversed(d))
        raise AssertionError(op)

    def mru_keys(self):
        return list(reversed(self.d))


def real_apply(c, op, k=None, v=None):
    try:
        if op == "get":
            return c.get(k)
        if op == "getitem":
            return c[k]
        if op == "set":
            c[k] = v
            return None
        if op == "del":
            del c[k]
            return None
        if op == "setdefault":
            return c.setdefault(k, v)
        if op == "contains":
            return k in c
        if op == "len":
            return len(c)
        if op == "clear":
            return c.clear()
        if op == "keys":
            return list(c.keys())
    except KeyError:
        return MISSING
    raise AssertionError(op)


def observers(c):
    """Everything the mapping API lets a caller see, as plain data."""
    return {
        "len": len(c),
        "keys": list(c.keys()),
        "values": list(c.values()),
        "items": [list(x) for x in c.items()],
        "iter": list(iter(c)),
        "reversed": list(reversed(c)),
        "in": [k in c for k in KEYS],
        "capacity": c.capacity,
    }


def model_observers(m):
    ks = m.mru_keys()
    return {
        "len": len(ks),
        "keys": ks,
        "values": [m.d[k] for k in ks],
        "items": [[k, m.d[k]] for k in ks],
        "iter": ks,
        "reversed": list(reversed(ks)),
        "in": [k in m.d for k in KEYS],
        "capacity": m.cap,
    }


SEQ_OPS = [(o, k) for o in ("get", "getitem", "set", "del", "setdefault", "contains")
           for k in KEYS] + [("clear", None), ("copy", None), ("pickle", None)]


def run_seq_history(LRUCache, cap, hist, full_prefix_check=False):
    """Returns None or a description of the first divergence."""
    c = LRUCache(cap)
    m = Model(cap)
    mid = (len(hist) - 1) // 2
    held = None
    for i, (op, k) in enumerate(hist):
        v = f"v{i}"
        if i == mid + 1 and len(hist) >= 2:
            # iterators obtained now and consumed after the remaining operations
            # (`for k in cache: cache[k]`): consuming them never raises, and when nothing
            # changes membership or order in between they yield what they would have yielded
            try:
                it, rit = iter(c), reversed(c)
                first = next(it, None)
            except Exception as e:
                return f"iterator creation raised {type(e).__name__}: {e}"
            held = (it, rit, first, model_observers(m)["iter"])
        if op == "copy":
            c2 = c.copy() if i % 2 == 0 else copy.copy(c)
            if observers(c2) != observers(c):
                return f"copy differs from original after {hist[:i+1]}"
            if type(c2) is not type(c) or c2 is c:
                return "copy returned wrong object"
            c = c2
            continue
        if op == "pickle":
            for proto in (2, pickle.HIGHEST_PROTOCOL):
                c2 = pickle.loads(pickle.dumps(c, proto))
                if observers(c2) != observers(c):
                    return f"pickle proto {proto} differs after {hist[:i+1]}"
            c = c2
            continue
        try:
            r = real_apply(c, op, k, v)
        except Exception as e:  # anything but the model's KeyError
            return f"step {i} {op}({k}) raised {type(e).__name__}: {e}"
        e = m.apply(op, k, v)
        if r != e:
            return f"step {i} {op}({k}) returned {r!r}, model {e!r}"
        if len(c) > cap:
            return f"step {i}: len {len(c)} exceeds capacity {cap}"
        if full_prefix_check and observers(c) != model_observers(m):
            return f"step {i}: observers {observers(c)} != model {model_observers(m)}"
    if held is not None:
        it, rit, first, snap = held
        try:
            fwd = ([] if first is None else [first]) + list(it)
            bwd = list(rit)
        except Exception as e:
            return (f"held-iterator consumed after {hist[mid + 1:]} raised {type(e).__name__}: {e} "
                    f"(history {hist})")
        if all(o in ("contains",) for o, _ in hist[mid + 1:]) and (fwd != snap or bwd != snap[::-1]):
            return f"held-iterator yields {fwd}/{bwd}, keys at creation were {snap} (history {hist})"
    try:
        o = observers(c)
    except Exception as e:
        return f"observer raised {type(e).__name__}: {e}"
    if o != model_observers(m):
        return f"final observers {o} != model {model_observers(m)}"
    return None


# ------------------------------------------------------- concurrent part
CONC_OPS = ["get", "getitem", "set", "del", "contains", "clear"]


def gen_programs(rng, n, nthreads_choices=(2, 3), maxops=2, caps=(1, 2)):
    progs = []
    for _ in range(n):
        nt = rng.choice(nthreads_choices)
        cap = rng.choice(caps)
        # prefill so evictions and hits happen immediately
        pre = [rng.choice(KEYS) for _ in range(rng.randint(0, cap + 1))]
        ths = []
        for t in range(nt):
            ops = []
            for j in range(rng.randint(1, maxops)):
                op = rng.choice(CONC_OPS)
                k = None if op == "clear" else rng.choice(KEYS)
                ops.append([op, k])
            ths.append(ops)
        progs.append({"cap": cap, "pre": pre, "threads": ths})
    return progs


def all_small_programs(cap_choices=(1, 2)):
    """Every 2-thread program with 1 op per thread + every (2,1)/(1,2) split,
    over 2 keys (a,b), prefill [a] — the thorough tier's exhaustive core."""
    sym = [[o, k] for o in CONC_OPS if o != "clear" for k in ("a", "b")] + [["clear", None]]
    out = []
    for cap in cap_choices:
        for pre in (["a"], ["a", "b"]):
            for x in sym:
                for y in sym:
                    out.append({"cap": cap, "pre": pre, "threads": [[x], [y]]})
    return out


def reader_writer_programs():
    """One mutating call racing two reads in another thread: the shape that
    exposes a mutator whose intermediate state is visible to lock-free reads."""
    w = [[o, k] for o in ("set", "del", "getitem") for k in ("a", "b")] + [["clear", None]]
    r = [[o, k] for o in ("contains", "get") for k in ("a", "b")]
    out = []
    for cap, pre in ((1, ["a"]), (2, ["a", "b"]), (2, ["b", "a"])):
        for x in w:
            for y1 in r:
                for y2 in r:
                    if y1[1] != y2[1] or y1[0] != y2[0]:
                        out.append({"cap": cap, "pre": pre, "threads": [[x], [y1, y2]]})
    return out


def writer_writer_programs():
    """One mutating call racing TWO mutating calls of another thread (a multi-step mutator
    whose intermediate state is picked up by an insertion that has to evict)."""
    w = [["del", "a"], ["del", "b"], ["set", "c"], ["clear", None]]
    m = [["set", "a"], ["set", "b"], ["set", "c"], ["del", "a"]]
    out = []
    for cap, pre in ((2, ["a", "b"]), (1, ["a"])):
        for x in w:
            for y1 in m:
                for y2 in m:
                    out.append({"cap": cap, "pre": pre, "threads": [[x], [y1, y2]], "ww": True})
    return out


def lru_codes(LRUCache):
    codes = []
    for name, obj in vars(LRUCache).items():
        if isinstance(obj, types.FunctionType):
            codes.append(obj.__code__)
    return codes


def swap_locks(cache, sched):
    """Replace every lock attribute of the instance by a cooperative lock."""
    lock_t = type(threading.Lock())
    rlock_t = type(threading.RLock())
    n = 0
    for name, val in list(vars(cache).items()):
        if isinstance(val, (lock_t, rlock_t)):
            cl = S.CoopLock(sched)
            setattr(cache, name, cl)
            sched.locks.append(cl)
            n += 1
    return n


def run_conc(LRUCache, prog, prefix):
    """One controlled execution.  Returns (trace, history, final_keys, sched)."""
    cache = LRUCache(prog["cap"])
    model0 = Model(prog["cap"])
    for i, k in enumerate(prog["pre"]):
        cache[k] = f"p{i}"
        model0.apply("set", k, f"p{i}")
    sch = S.Sched(lru_codes(LRUCache), prefix)
    nlocks = swap_locks(cache, sch)
    clock = itertools.count()
    hist = []

    def mk(t, ops):
        def fn():
            for j, (op, k) in enumerate(ops):
                v = f"t{t}.{j}"
                rec = {"t": t, "op": op, "k": k, "v": v, "call": next(clock),
                       "ret": None, "res": None}
                hist.append(rec)
                try:
                    r = real_apply(cache, op, k, v)
                except S.Deadlock:
                    raise
                except BaseException as e:
                    r = f"<EXC {type(e).__name__}: {e}>"
                rec["res"] = r
                rec["ret"] = next(clock)
        return fn

    sch.run([mk(t, ops) for t, ops in enumerate(prog["threads"])])
    final = {"keys": list(cache.keys()), "items": [list(x) for x in cache.items()],
             "len": len(cache), "in": [k in cache for k in KEYS]}
    return sch, hist, final, model0, nlocks


def linearizable(hist, model0, final):
    """Wing-Gong style search. hist entries have call/ret stamps.  The final
    quiescent observation must match the model state of the witness."""
    n = len(hist)
    order = sorted(range(n), key=lambda i: hist[i]["call"])
    seen = set()

    def rec(done_mask, model):
        if done_mask == (1 << n) - 1:
            ks = model.mru_keys()
            return (final["keys"] == ks
                    and final["items"] == [[k, model.d[k]] for k in ks]
                    and final["len"] == len(ks)
                    and final["in"] == [k in model.d for k in KEYS])
        key = (done_mask, tuple(model.d.items()))
        if key in seen:
            return False
        seen.add(key)
        # minimal ops: not done, and no other not-done op returned before its call
        pend = [i for i in order if not done_mask >> i & 1]
        min_ret = min(hist[i]["ret"] if hist[i]["ret"] is not None else 1 << 60 for i in pend)
        for i in pend:
            h = hist[i]
            if h["call"] > min_ret:
                continue
            m2 = model.clone()
            if m2.apply(h["op"], h["k"], h["v"]) == h["res"]:
                if rec(done_mask | 1 << i, m2):
                    return True
        return False

    return rec(0, model0.clone())


def check_conc_exec(ctx, LRUCache, prog, prefix):
    sch, hist, final, model0, nlocks = run_conc(LRUCache, prog, prefix)
    trace = sch.trace
    ctx.ev()
    ctx.count("conc_schedules")
    ctx.count("conc_sched_points", sch.points)
    npre = S.preemptions(trace)
    if npre:
        ctx.dist(("conc", prog, [t[1] for t in trace]))
    if sch.locked_points:
        ctx.count("conc_points_while_lock_held", sch.locked_points)
    if any(cur is not None and ch != cur for en, ch, cur, loc in trace) and sch.locked_points:
        ctx.count("conc_preempt_in_locked")
    if nlocks == 0:
        ctx.count("no_lock_attribute_found")
    case = {"kind": "concurrent", "prog": prog, "prefix": [t[1] for t in trace]}
    if sch.error is not None:
        ctx.violation("concurrent:deadlock", str(sch.error), case)
        return trace
    bad = [h for h in hist if isinstance(h["res"], str) and h["res"].startswith("<EXC")]
    if bad:
        key = "concurrent:raises:" + bad[0]["op"] + ":" + bad[0]["res"].split(":")[0][5:]
        ctx.violation(key, f"call raised: {bad[0]}; history={hist}", case)
        return trace
    if final["len"] > prog["cap"]:
        ctx.violation("concurrent:capacity", f"len {final['len']} > cap; final={final}", case)
        return trace
    if len(set(final["keys"])) != len(final["keys"]):
        ctx.violation("concurrent:duplicate-keys", f"final={final}", case)
        return trace
    ctx.count("lin_checks")
    if not linearizable(hist, model0, final):
        ops = sorted({h["op"] for h in hist})
        # mechanism key: which operation kinds are involved
        ctx.violation("concurrent:not-linearizable:" + "+".join(ops),
                      f"history={hist} final={final} pre={prog['pre']} cap={prog['cap']}", case)
    return trace


def run(ctx):
    from jinja2.utils import LRUCache

    quick = ctx.tier == "quick"
    # ---------------- sequential, exhaustive
    L = 4 if quick else 5
    caps = (1, 2, 3)
    idx = 0
    nseq = 0
    t_seq = ctx.budget_s * 0.45
    complete = True
    for length in range(1, L + 1):
        for hist in itertools.product(SEQ_OPS, repeat=length):
            idx += 1
            if not ctx.mine(idx):
                continue
            for cap in caps:
                nseq += 1
                bad = run_seq_history(LRUCache, cap, hist)
                ctx.ev()
                ctx.count("seq_histories")
                if bad:
                    ops = sorted({o for o, _ in hist})
                    ctx.violation("sequential:" + bad.split(" ")[0] + ":" + hist[-1][0], bad,
                                  {"kind": "sequential", "cap": cap, "hist": list(hist)})
            if length >= 2:
                ctx.dist(("seq", hist))
            if nseq % 3000 == 0 and ctx.elapsed() > t_seq * (4 if not quick else 1.6):
                complete = False
                break
        if not complete:
            ctx.count("seq_enumeration_cut")
            break
    ctx.extra["seq_max_length_complete"] = L if complete else length - 1
    if ctx.shard == 0:
        ctx.sample({"kind": "sequential", "cap": 2,
                    "hist": [list(x) for x in SEQ_OPS[6:10]]})
    # random longer sequential histories with per-step observer comparison
    rng = ctx.rng("seqlong")
    for i in range(300 if quick else 20000):
        hist = tuple(rng.choice(SEQ_OPS) for _ in range(rng.randint(6, 40)))
        cap = rng.randint(1, 4)
        bad = run_seq_history(LRUCache, cap, hist, full_prefix_check=True)
        ctx.ev()
        ctx.count("seq_long_histories")
        if bad:
            ctx.violation("sequential:" + bad.split(" ")[0] + ":long", bad,
                          {"kind": "sequential", "cap": cap, "hist": list(hist), "full": True})
        if ctx.out_of_time() and i > 100:
            break

    # ---------------- concurrent, schedule-enumerated
    bound = 2 if quick else 3
    progs = []
    rw = reader_writer_programs()
    mine_rw = [p for i, p in enumerate(rw) if ctx.mine(i)]
    ww = [p for i, p in enumerate(writer_writer_programs()) if ctx.mine(i)]
    ctx.count("conc_writer_writer_programs", len(ww))
    # interleaved, so that a time cut takes its toll from both directed families alike
    for i in range(max(len(mine_rw), len(ww))):
        progs += mine_rw[i:i + 1] + ww[i:i + 1]
    if not quick:
        small = all_small_programs()
        progs += [p for i, p in enumerate(small) if ctx.mine(i)]
    rng = ctx.rng("conc")
    progs += gen_programs(rng, 12 if quick else 140, maxops=2)
    progs += gen_programs(rng, 2 if quick else 30, nthreads_choices=(2,), maxops=3)
    max_runs = 400 if quick else 4000
    for pi, prog in enumerate(progs):
        runs = 0
        for prefix, trace in S.explore(lambda pf: check_conc_exec(ctx, LRUCache, prog, pf),
                                       bound, max_runs=max_runs):
            runs += 1
        ctx.count("conc_programs")
        if prog.get("ww"):
            ctx.count("conc_writer_writer_programs_run")
        if runs >= max_runs:
            ctx.count("conc_programs_schedule_capped")
        if pi < 2 and ctx.shard == 0:
            ctx.sample({"kind": "concurrent", "prog": prog, "schedules_run": runs})
        if ctx.elapsed() > ctx.budget_s * (1.0 if quick else 1.0) and pi >= 3:
            ctx.count("conc_programs_skipped_time", len(progs) - pi - 1)
            break

    # ---------------- free-running stress (exceptions + quiescent invariants only)
    stress(ctx, LRUCache, rounds=2 if quick else 20)


def stress(ctx, LRUCache, rounds):
    import sys

    old = sys.getswitchinterval()
    sys.setswitchinterval(1e-6)
    try:
        for r in range(rounds):
            cache = LRUCache(2)
            errs = []
            rng0 = ctx.rng(f"stress{r}")
            seeds = [rng0.random() for _ in range(8)]

            def worker(s):
                import random

                rg = random.Random(s)
                for _ in range(3000):
                    op = rg.choice(CONC_OPS)
                    k = rg.choice(KEYS)
                    try:
                        real_apply(cache, op, k, 1)
                    except BaseException as e:
                        errs.append(f"{op}({k}): {type(e).__name__}: {e}")
                        return

            ths = [threading.Thread(target=worker, args=(s,)) for s in seeds]
            for t in ths:
                t.start()
            for t in ths:
                t.join()
            ctx.ev()
            ctx.count("stress_rounds")
            ctx.count("stress_ops", 8 * 3000)
            case = {"kind": "stress", "round": r}
            if errs:
                ctx.violation("concurrent:raises:stress:" + errs[0].split(":")[1].strip(),
                              errs[0], case)
            ks = list(cache.keys())
            if len(cache) > 2 or len(set(ks)) != len(ks) or \
                    sorted(ks) != sorted(k for k in KEYS if k in cache):
                ctx.violation("concurrent:quiescent-invariant",
                              f"keys={ks} len={len(cache)}", case)
    finally:
        sys.setswitchinterval(old)


def replay(ctx, case):
    from jinja2.utils import LRUCache

    if case["kind"] == "sequential":
        hist = [tuple(x) for x in case["hist"]]
        bad = run_seq_history(LRUCache, case["cap"], hist, case.get("full", False))
        if bad:
            ctx.violation("sequential", bad, case)
    elif case["kind"] == "concurrent":
        check_conc_exec(ctx, LRUCache, case["prog"], case["prefix"])
    else:
        stress(ctx, LRUCache, 20)
