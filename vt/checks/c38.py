"""C38 — exceptions raised by data propagate as the same object and leave the
environment usable.

Probe data objects count every call / __next__ / attribute / item / __str__
(+ __html__ / __iter__ / __len__ / __bool__ / async call body / __aiter__ /
__anext__) event of a clean render (N events); then for every k <= N the same
template is rendered with a private exception instance raised at the k-th
event.  Oracle: the render raises that very object; afterwards the same
template and two other templates of the same environment render to their clean
outputs.  Events inside the bodies of templates imported / included without
context happen only on the first render of an environment: those fault points
each get a brand-new environment (fresh_phase)."""
from __future__ import annotations

import asyncio

from vt import core
from vt.mon import c38_gen as GEN
from vt.mon import c38_probe as P

PID = "C38"
LEVEL = "fault_enumeration"
RULE = ("case = environment (sync or async, autoescape on/off) with 3 generated main templates "
        "(2-4 labelled fragments each: attribute/item access, missing lookups, for loops over "
        "probe iterables incl. loop.length/last, calls, string conversion, __html__, truth tests, "
        "sort/map/sum/groupby/selectattr/join/min/max/unique with attribute arguments, iterator "
        "filters, tests, macros, call blocks, set/filter blocks, include, import, with, recursive "
        "loops, extends+super+self.block, str.format/__format__ conversion; async: awaited "
        "callables, async iterables; MODULE-BODY fragments: import / from-import / include without "
        "context (incl. name list + ignore missing) / include of an importing template, of generated "
        "templates glib.j2 / incg.j2 whose top-level body calls / reads / iterates / str-converts "
        "probe data bound as environment globals, and import / from-import WITH context of a library "
        "whose body reads the render variables; I18N (60% of the environments load the i18n "
        "extension: new-style or old-style gettext x null translations / harness callables / harness "
        "callables returning lazy message objects with __mod__ + __str__): trans blocks with bound "
        "and context variables, __html__ / __format__ objects, pluralize (count expression, named "
        "count, num), message context, trimmed, no variables, direct gettext/ngettext/pgettext/"
        "npgettext calls with keyword variables (new-style) or % / |format (old-style)) + data "
        "recipe; fault point = (target template, API in {render, generate, stream | render_async, "
        "generate_async, render-via-asyncio.run}, k) for EVERY k <= N events of the clean run in the "
        "warmed-up environment, PLUS for the first render in a BRAND-NEW environment (own environment "
        "per fault point): every event inside an imported / included-without-context template body "
        "and a few others; after each fault all 3 main templates are rendered cleanly in that same "
        "environment. distinct = (template source + recipe + i18n hash, API, k, fresh?) whose fault "
        "actually fired")
TECHNIQUE = "probe-counted exhaustive fault injection with exception-identity and re-render oracle"
LEVEL_TEXT = ("held on every enumerated fault point of the generated templates (each data event "
              "of each clean run, one API per point in quick, all APIs in thorough)")
ASSUMPTIONS = [
    "the injected exception is a private Exception subclass instance (not one of the documented "
    "lookup signals AttributeError / LookupError / TypeError / StopIteration, which are never "
    "injected)",
    "events on the subjects of capability tests (`is sequence`, `is iterable`) may either "
    "propagate the same object or be reported as false (documented exception)",
    "engine-internal feature probing of data objects (dunder / jinja_* attribute lookups) is not "
    "a data event",
    "probes reachable without a render context (environment globals g_*, the installed gettext "
    "callables and the lazy messages they return) are data in the sense of the statement; calls of "
    "the gettext callables are fault points too",
    "brand-new environments of one case share a harness-side in-memory BytecodeCache (public API): "
    "compiled code only, no template or module objects",
    "clean reference output = render in the warmed-up environment; a first render in a new "
    "environment that differs from it is counted, not judged (no fault involved)",
]
NSHARDS = {"quick": 16, "thorough": 16}
BUDGET_S = {"quick": 12, "thorough": 420}
FLOORS = {
    "quick": {"evaluations": 3000, "distinct": 3000,
              "counters": {"faults_fired": 3000, "identity_checks": 3000,
                           "post_fault_renders": 9000, "cases": 30,
                           "faults_sync": 1000, "faults_async": 1000,
                           "faults_fresh_env": 500,
                           "faults_fresh_env_in_module_body_sync": 200,
                           "faults_fresh_env_in_module_body_async": 200,
                           "faults_in_i18n_fragment": 300,
                           "faults_in_i18n_fragment:newstyle:str": 60,
                           "faults_in_i18n_fragment:oldstyle:str": 40}},
    "thorough": {"evaluations": 170000, "distinct": 170000,
                 "counters": {"faults_fired": 170000, "identity_checks": 170000,
                              "post_fault_renders": 500000, "cases": 500,
                              "faults_sync": 80000, "faults_async": 80000,
                              "faults_fresh_env": 45000,
                              "faults_fresh_env_in_module_body_sync": 9000,
                              "faults_fresh_env_in_module_body_async": 9000,
                              "faults_in_i18n_fragment": 20000,
                              "faults_in_i18n_fragment:newstyle:str": 4000,
                              "faults_in_i18n_fragment:oldstyle:str": 2400}},
}

SYNC_APIS = ["render", "generate", "stream"]
ASYNC_APIS = ["render_async", "generate_async", "render"]


def _mem_cache():
    """Harness-side in-memory bytecode cache (public BytecodeCache API): the many
    brand-new environments of one case share the compiled code of its templates,
    nothing else (no template objects, no modules)."""
    from jinja2 import BytecodeCache

    class Mem(BytecodeCache):
        def __init__(self):
            self.d = {}

        def load_bytecode(self, bucket):
            b = self.d.get(bucket.key)
            if b is not None:
                bucket.bytecode_from_string(b)

        def dump_bytecode(self, bucket):
            self.d[bucket.key] = bucket.bytecode_to_string()

    return Mem()


class CaseEnv:
    def __init__(self, case, recipe, loop, bcc=None):
        from jinja2 import DictLoader, Environment

        self.case = case
        self.recipe = recipe
        self.loop = loop
        self.is_async = case["is_async"]
        i18n = case.get("i18n")
        self.env = Environment(loader=DictLoader(dict(case["tpls"])),
                               enable_async=self.is_async, autoescape=bool(case["autoescape"]),
                               extensions=["jinja2.ext.i18n"] if i18n else [],
                               bytecode_cache=bcc)
        self.ev = None
        # probes that are not render variables (environment globals, gettext callables)
        # report to the run in progress through this proxy
        self.proxy = P.EvProxy()
        self.env.globals["mark"] = self._mark
        self.env.globals.update(P.build_globals(recipe, self.proxy, self.is_async))
        if i18n:
            if i18n["callables"] == "null":
                self.env.install_null_translations(newstyle=bool(i18n["newstyle"]))
            else:
                g, ng, pg, npg = P.make_gettext(self.proxy, i18n["callables"] == "lazy")
                self.env.install_gettext_callables(g, ng, newstyle=bool(i18n["newstyle"]),
                                                   pgettext=pg, npgettext=npg)

    def _mark(self, label):
        if self.ev is not None:
            self.ev.label = label
        return ""

    def run(self, name, api, fault_at=None):
        """-> (kind, value, events)."""
        ev = self.ev = P.Events(fault_at)
        data = P.build(self.recipe, ev, self.is_async)
        t = self.env.get_template(name)
        self.proxy.cur = ev
        try:
            if api == "render":
                out = t.render(**data)
            elif api == "generate":
                out = "".join(list(t.generate(**data)))
            elif api == "stream":
                st = t.stream(**data)
                st.enable_buffering(3)
                out = "".join(st)
            elif api == "render_async":
                out = self.loop.run_until_complete(t.render_async(**data))
            elif api == "generate_async":
                async def consume():
                    return "".join([x async for x in t.generate_async(**data)])
                out = self.loop.run_until_complete(consume())
            else:
                raise AssertionError(api)
            return ("ok", out, ev)
        except Exception as e:  # noqa: BLE001 - the outcome is the observation
            return ("exc", e, ev)
        finally:
            self.ev = None
            self.proxy.cur = None


def check_fault(ctx, ce, clean, target, api, k, fresh=False):
    """One fault point.  clean: {name: output}.  fresh: ce is a brand-new
    environment (nothing rendered / imported in it yet)."""
    case = ce.case
    rcase = {"case": case, "recipe": ce.recipe, "target": target, "api": api, "k": k,
             "fresh": bool(fresh)}
    kind, val, ev = ce.run(target, api, fault_at=k)
    ctx.ev()
    if not ev.fired:
        # the faulted run did not reach event k: the clean run was not reproducible
        ctx.count("fault_not_reached")
        return
    ctx.count("faults_fired")
    ctx.count("faults_async" if ce.is_async else "faults_sync")
    if fresh:
        ctx.count("faults_fresh_env")
        if str(ev.fired_label).startswith("mod:"):
            ctx.count("faults_fresh_env_in_module_body")
            ctx.count("faults_fresh_env_in_module_body_" + ("async" if ce.is_async else "sync"))
    if case.get("i18n"):
        ctx.count("faults_i18n_env")
        if str(ev.fired_label).startswith(("trans-", "gettext-")):
            ctx.count("faults_in_i18n_fragment")
            ctx.count("faults_in_i18n_fragment:%s:%s"
                      % ("newstyle" if case["i18n"]["newstyle"] else "oldstyle", ev.fired_kind))
    ctx.count("fault_event:" + ev.fired_kind)
    ctx.count("fault_api:" + api)
    ctx.count("fault_in:" + str(ev.fired_label))
    where = "%s@%s" % (ev.fired_kind, ev.fired_label)
    ctx.dist((core.h8([case["tpls"][target], ce.recipe, case["autoescape"], ce.is_async,
                       case.get("i18n")]), api, k, bool(fresh)))
    ctx.count("identity_checks")
    if kind == "exc" and val is ev.boom:
        pass
    elif ev.fired_cap:
        # documented: capability tests report false instead of propagating
        ctx.count("fault_absorbed_by_capability_test")
    elif kind == "ok":
        ctx.violation("swallowed:" + where,
                      "exception raised by the data at event %d (%s, in fragment %r) did not "
                      "propagate: %s() returned %r; template %r"
                      % (k, ev.fired_kind, ev.fired_label, api, val[:200],
                         case["tpls"][target][:500]), rcase)
    else:
        ctx.violation("not-same-object:%s:%s" % (where, type(val).__name__),
                      "data raised %r at event %d (%s, fragment %r) but %s() raised a different "
                      "object %r (cause=%r context=%r); template %r"
                      % (ev.boom, k, ev.fired_kind, ev.fired_label, api, val,
                         getattr(val, "__cause__", None), getattr(val, "__context__", None),
                         case["tpls"][target][:500]), rcase)
    # the engine must still be usable: same template and the two others, cleanly
    post_api = "render_async" if ce.is_async else "render"
    for name in case["mains"]:
        k2, v2, _ = ce.run(name, post_api)
        ctx.count("post_fault_renders")
        rel = "same" if name == target else "other"
        if k2 != "ok":
            ctx.violation("engine-unusable-after-fault:%s:%s-template-raises:%s"
                          % (where, rel, type(v2).__name__),
                          "after the fault at event %d of %s (%s), a clean render of %s raised %r"
                          % (k, target, api, name, v2), rcase)
        elif v2 != clean[name]:
            ctx.violation("engine-unusable-after-fault:%s:%s-template-differs" % (where, rel),
                          "after the fault at event %d of %s (%s), a clean render of %s gave %r "
                          "instead of %r" % (k, target, api, name, v2[:300], clean[name][:300]),
                          rcase)


def run_case(ctx, case, recipe, quick, loop):
    try:
        ce = CaseEnv(case, recipe, loop)
        for name in case["tpls"]:
            ce.env.get_template(name)
    except Exception as e:
        ctx.count("case_rejected_compile:" + type(e).__name__)
        return
    apis = ASYNC_APIS if ce.is_async else SYNC_APIS
    clean, nev = {}, {}
    # warm-up: the bodies of templates imported / included without context run once
    # per environment (cached module); their events belong to fresh_phase below
    for name in case["mains"]:
        kind, val, ev = ce.run(name, apis[0])
        if kind != "ok":
            ctx.count("case_rejected_clean_raises:" + type(val).__name__)
            if len(ctx.samples) < 6:
                ctx.sample({"rejected_clean_raises": repr(val)[:300], "i18n": case.get("i18n"),
                            "template": case["tpls"][name]})
            return
    for name in case["mains"]:
        outs = []
        for api in apis:
            kind, val, ev = ce.run(name, api)
            if kind != "ok":
                ctx.count("case_rejected_clean_raises:" + type(val).__name__)
                return
            outs.append((val, ev.n))
            for kk, c in ev.kinds.items():
                ctx.count("clean_event:" + kk, c)
        if len({o for o in outs}) != 1:
            ctx.count("case_rejected_apis_disagree")
            return
        clean[name], nev[name] = outs[0]
    ctx.count("cases")
    ctx.count("cases_async" if ce.is_async else "cases_sync")
    if len(ctx.samples) < 3:
        ctx.sample({"is_async": ce.is_async, "autoescape": case["autoescape"],
                    "template": case["tpls"][case["mains"][0]], "events_clean": nev,
                    "clean_output": clean[case["mains"][0]]})
    for ti, target in enumerate(case["mains"]):
        N = nev[target]
        for k in range(1, N + 1):
            if quick:
                # one API per fault point, rotating; the asyncio.run wrapper is slow: 1 in 6
                if ce.is_async:
                    api = apis[2] if k % 6 == 0 else apis[(k + ti) % 2]
                else:
                    api = apis[(k + ti) % 3]
                check_fault(ctx, ce, clean, target, api, k)
            else:
                for api in apis:
                    check_fault(ctx, ce, clean, target, api, k)
        ctx.count("targets_fully_enumerated")
        if ctx.elapsed() > ctx.budget_s * 1.5:
            ctx.count("case_cut_by_time")
            break
    fresh_phase(ctx, case, recipe, loop, clean, quick)


def fresh_phase(ctx, case, recipe, loop, clean, quick):
    """Fault points of the FIRST render in a brand-new environment: the bodies of
    templates imported / included without context run only then (the module is
    cached afterwards), so every event inside such a body ('mod:' labels) is a
    fault point, each in its own new environment, followed by clean renders of all
    main templates in that environment."""
    is_async = case["is_async"]
    apis = ASYNC_APIS if is_async else SYNC_APIS
    bcc = _mem_cache()
    for ti, target in enumerate(case["mains"]):
        ce = CaseEnv(case, recipe, loop, bcc)
        kind, val, ev = ce.run(target, apis[0])
        if kind != "ok" or val != clean[target]:
            # not this property's business (no fault involved); visible in the evidence
            ctx.count("fresh_first_render_differs_from_warm(not deciding)")
            continue
        modpts = [i for i, (_, lab, _) in enumerate(ev.trace, 1) if str(lab).startswith("mod:")]
        others = [i for i in range(1, ev.n + 1) if i not in set(modpts)]
        nother = 2 if quick else 8
        step = max(1, len(others) // nother)
        pts = modpts[:60 if quick else 400] + others[ti % step::step][:nother]
        if modpts:
            ctx.count("fresh_targets_with_module_body_events")
        for j, k in enumerate(sorted(pts)):
            for api in ([apis[(j + ti) % 2]] if quick else apis):
                check_fault(ctx, CaseEnv(case, recipe, loop, bcc), clean, target, api, k,
                            fresh=True)
        if ctx.elapsed() > ctx.budget_s * 1.5:
            ctx.count("case_cut_by_time")
            break


def run(ctx):
    quick = ctx.tier == "quick"
    rng = ctx.rng("gen")
    loop = asyncio.new_event_loop()
    try:
        i = 0
        nmax = 300 if quick else 20000
        while ctx.more(i, nmax, floor=2):
            is_async = (i + ctx.shard) % 2 == 1
            case = GEN.gen_case(rng, is_async)
            recipe = P.gen_recipe(rng)
            run_case(ctx, case, recipe, quick, loop)
            i += 1
    finally:
        loop.close()


def replay(ctx, obj):
    loop = asyncio.new_event_loop()
    try:
        case = obj["case"]
        ref = CaseEnv(case, obj["recipe"], loop)
        post_api = "render_async" if ref.is_async else "render"
        clean = {}
        for name in case["mains"]:
            kind, val, _ = ref.run(name, post_api)
            if kind != "ok":
                return
            clean[name] = val
        if obj.get("fresh"):
            ce = CaseEnv(case, obj["recipe"], loop)
        else:
            ce = ref
        check_fault(ctx, ce, clean, obj["target"], obj["api"], obj["k"],
                    fresh=bool(obj.get("fresh")))
    finally:
        loop.close()
