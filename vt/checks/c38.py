"""C38 — exceptions raised by data propagate as the same object and leave the
environment usable.

Probe data objects additionally count every attribute lookup by name that the
engine itself makes on them (jinja_pass_arg, __html__, __call__, __aiter__,
unsafe_callable, alters_data, __class__ ...: events "probe:<name>").

Probe data objects count every call / __next__ / attribute / item / __str__
(+ __html__ / __iter__ / __len__ / __bool__ / async call body / __aiter__ /
__anext__) event of a clean render (N events); then for every k <= N the same
template is rendered with a private exception instance raised at the k-th
event.  Oracle: the render raises that very object; afterwards the sentinel
template (eval-context sensitive macros inside every module the environment
caches), the same template, the two other templates and the Python-side
Template.module calls of the same environment give their clean outputs.  Events inside the bodies of templates imported / included without
context happen only on the first render of an environment: those fault points
each get a brand-new environment (fresh_phase)."""
from __future__ import annotations

import asyncio

from vt import core
from vt.mon import c38_deferred as DF
from vt.mon import c38_gen as GEN
from vt.mon import c38_probe as P
from vt.mon import c38_shared as SH

PID = "C38"
DEFERRED_CHANNELS = [c.replace("@", "-at-") for c in DF.CHANNELS]
DEFERRED_NESTINGS = [">".join(DF._NAME[c] for c in n) for n in DF.NESTINGS]
LEVEL = "fault_enumeration"
RULE = ("case = environment (sync or async, autoescape on/off) with 3 generated main templates "
        "(2-4 labelled fragments each: attribute/item access, missing lookups, for loops over "
        "probe iterables incl. loop.length/last, calls, string conversion, __html__, truth tests, "
        "sort/map/sum/groupby/selectattr/join/min/max/unique with attribute arguments, iterator "
        "filters, tests, macros, call blocks, set/filter blocks, include, import, with, recursive "
        "loops, extends+super+self.block, str.format/__format__ conversion; every probe class also "
        "reports each attribute lookup by name made ON it that is not one of the template's own field "
        "names (instrumented __getattribute__: the engine's feature probes jinja_pass_arg / __call__ on "
        "called objects, __html__ on printed / escaped / joined values, __aiter__ / __anext__ / "
        "__getitem__ checks, isinstance()'s __class__, and in the 25% SANDBOXED environments "
        "unsafe_callable / alters_data) as events probe:<name>, fault points like all others (the "
        "__class__ lookups sampled 1 in 4); async: awaited "
        "callables, async iterables; MODULE-BODY fragments: import / from-import / include without "
        "context (incl. name list + ignore missing) / include of an importing template, of generated "
        "templates glib.j2 / incg.j2 whose top-level body calls / reads / iterates / str-converts "
        "probe data bound as environment globals, and import / from-import WITH context of a library "
        "whose body reads the render variables; I18N (60% of the environments load the i18n "
        "extension: new-style or old-style gettext x null translations / harness callables / harness "
        "callables returning lazy message objects with __mod__ + __str__): trans blocks with bound "
        "and context variables, __html__ / __format__ objects, pluralize (count expression, named "
        "count, num), message context, trimmed, no variables, direct gettext/ngettext/pgettext/"
        "npgettext calls with keyword variables (new-style) or % / |format (old-style)); SHARED "
        "STATE (30% of the fragments): every main template imports the generated library slib.j2 "
        "(module + Context + eval context cached per environment) whose macros wrap events on their "
        "probe arguments in scoped constructs: autoescape blocks (constant: per case all / half / none of them the opposite of the "
        "environment default / data-dependent incl. a probe as the flag / expression that calls data / "
        "nested / around caller() with the call block's body touching data / inside a loop left by "
        "break + continue (loopcontrols) / around trans, filter, set and with blocks / around sibling "
        "macro calls / around awaited callables and async iteration), scoped eval-context modifiers of a "
        "harness extension ({% evalctx autoescape=X %} -> nodes.ScopedEvalContextModifier), a module "
        "level namespace and cycler that the macro re-initialises before touching data; reached by "
        "import, from-import, an include of an importing template, and - sync environments, 4th fault "
        "target - by calling the macros of Template.module from Python; autoescape / evalctx blocks "
        "around the global-probe events of the module bodies glib.j2 / incg.j2; eval-context "
        "sensitive filters over probe data and autoescape blocks in the main templates themselves. "
        "DEFERRED CODE (40% of the shared-state fragments): a second cached library dlib.j2 (16 "
        "entries, 4 table variants x 3 constant patterns) whose macros and call blocks are DEFINED "
        "inside scoped constructs (autoescape / evalctx / with / loop, nested 1-3 levels: autoescape, "
        "autoescape>autoescape, autoescape>with, loop>autoescape, evalctx, with, autoescape>loop>with, "
        "evalctx>autoescape) and CALLED AFTER those constructs ended, so that their own nested scoped "
        "constructs (autoescape, autoescape>autoescape, evalctx, with>autoescape, autoescape>macro>"
        "autoescape, data-dependent autoescape) run outside the dynamic extent of the constructs that "
        "enclose them lexically; the macro object leaves its defining construct through: a module-level "
        "namespace filled by the module body at import / by a library macro during the render, a "
        "namespace local to the defining macro, `caller` stored in the module namespace by the macro a "
        "call block was passed to (module body / library macro), the argument of the main template's "
        "call block which keeps it in a namespace of its own; called directly, through a {% set %} "
        "variable of the main template and (sync) through Template.module attribute chains from "
        "Python; fault at every event inside them (zones deferred-macro|call-block:defined-in=<constructs>:"
        "called-after-it-ended-via=<channel>); dlib.j2 carries sentinels too. "
        "SENTINELS: every cached module (slib.j2, dlib.j2, lib.j2, glib.j2) carries a `sense` macro that renders "
        "join / replace / xmlattr over text + Markup constants, a pass_eval_context filter and "
        "a pass_context function reporting eval_ctx.autoescape, a sibling macro call and (new-style "
        "i18n) gettext; zprobe.j2 calls them through import / from-import / an included importer and "
        "is rendered after EVERY fault, before the main templates; + data "
        "recipe; fault point = (target template, API in {render, generate, stream | render_async, "
        "generate_async, render-via-asyncio.run}, k) + RAISE SHAPE (how the data code raises its "
        "exception object, fixed per fault point by k: 5 of 11 points a bare raise; 1 of 11 each: "
        "`raise X from e` with a low-level error e that was itself raised and caught (KeyError / "
        "AttributeError / TypeError / ValueError / OSError / IndexError / RuntimeError by turns), a "
        "cause chain of 2, a cause that was never raised, raised while handling a low-level error "
        "(implicit __context__), `from None` inside a handler, re-raise of a kept exception object "
        "that already carries a traceback; the caller must get the raised object, never its cause / "
        "context) for EVERY k <= N events of the clean run in the "
        "warmed-up environment, PLUS for the first render in a BRAND-NEW environment (own environment "
        "per fault point): every event inside an imported / included-without-context template body "
        "a few inside scoped constructs of slib.j2 and a few others; after each fault the sentinel "
        "template, all 3 main templates and the module calls run cleanly in that same environment. A "
        "sentinel difference is keyed cached-module-state-changed-after-fault:fault-in=<scoped construct "
        "the fault fired in, told by the library's zone() calls>:seen-in=<first differing module>, a "
        "main-template difference engine-unusable-after-fault:<event>@<fragment>:<which>; after a "
        "violation the warmed-up environment is replaced so later records stay attributable. "
        "distinct = (target source + recipe + i18n hash, API, k, fresh?) whose fault actually fired")
TECHNIQUE = "probe-counted exhaustive fault injection with exception-identity and re-render oracle"
LEVEL_TEXT = ("held on every enumerated fault point of the generated templates (each data event "
              "of each clean run incl. the engine's own attribute lookups on the data objects, one API per point "
              "in quick, all APIs in thorough; isinstance's __class__ lookups sampled 1 in 4); state that "
              "outlives a render is observed through eval-context sensitive sentinel macros in the "
              "cached modules, whose sensitivity is self-checked per case")
ASSUMPTIONS = [
    "the injected exception is a private Exception subclass instance (not one of the documented "
    "lookup signals AttributeError / LookupError / TypeError / StopIteration, which are never "
    "injected); the low-level errors used as its __cause__ / __context__ in the chained raise shapes "
    "are of those classes among others, but they are caught by the data code itself and never "
    "reach the engine as the raised exception",
    "events on the subjects of capability tests (`is sequence`, `is iterable`) may either "
    "propagate the same object or be reported as false (documented exception)",
    "every attribute lookup by name that reaches a data object's __getattribute__ while a render is "
    "in progress - the engine's own feature probing (jinja_pass_arg, __html__, __call__, __aiter__, "
    "__getitem__, the sandbox's unsafe_callable / alters_data, isinstance()'s __class__ lookup ...) as "
    "much as the attributes a template names - is an access to data: the private exception raised there "
    "must come out unchanged (it is not an AttributeError, so no documented lookup signal applies); only "
    "on the subjects of capability tests it may instead be reported as false. The interpreter's implicit "
    "special-method lookups (str(), iter(), len(), calls) go to the type and are covered by the events "
    "inside those methods",
    "probes reachable without a render context (environment globals g_*, the installed gettext "
    "callables and the lazy messages they return) are data in the sense of the statement; calls of "
    "the gettext callables are fault points too",
    "the environments of one shard share a harness-side in-memory BytecodeCache (public "
    "BytecodeCache / Bucket API, keyed by template name + source + compile-relevant environment "
    "configuration): compiled code objects only, no template, module or context objects",
    "sentinels see shared state only through what the engine hands to eval-context aware callables "
    "(documented: pass_eval_context, context.eval_ctx.autoescape, Markup-aware builtin filters); a "
    "per-case self-check renders them under `autoescape true` and `autoescape false` and makes the "
    "run inconclusive if the outputs do not differ",
    "the sentinel reference is the render after the fault-free warm-up; a case whose sentinels "
    "render differently in a brand-new environment (fault-free renders alone changed cached-module "
    "state) is skipped and counted, not judged: no fault is involved",
    "module-level namespace / cycler of slib.j2 are re-initialised by the macro before it touches "
    "data (their state is the template's own, documented to persist with the cached module); "
    "zone() / mark() are harness globals that only record",
    "the module-level namespace REG of dlib.j2 only holds macro objects (the same ones after every "
    "definition); a macro object called after the construct it was defined in has ended is ordinary "
    "template code: its scoped constructs must restore the eval context of the cached module like "
    "any other, whatever enclosed the definition lexically",
    "macros called through Template.module from Python are 'rendering' in the sense of the "
    "statement (documented use of the module attribute)",
    "clean reference output = render in the warmed-up environment; a first render in a new "
    "environment that differs from it is counted, not judged (no fault involved)",
]
NSHARDS = {"quick": 16, "thorough": 16}
BUDGET_S = {"quick": 10, "thorough": 420}
# (quick run at load: 9.6k plain, 1.9-2.1k per other shape, 11.6k chained = 6.8k sync + 4.9k async)
RAISE_SHAPE_FLOORS = {
    "quick": {"faults_raised_chained_or_reraised": 2000,
              "faults_raised_chained_or_reraised_sync": 1100,
              "faults_raised_chained_or_reraised_async": 800,
              **{"fault_raise_shape:" + s: 350 for s in P.RAISE_SHAPES},
              "fault_raise_shape:plain": 1600},
    "thorough": {"faults_raised_chained_or_reraised": 70000,
                 "faults_raised_chained_or_reraised_sync": 35000,
                 "faults_raised_chained_or_reraised_async": 30000,
                 **{"fault_raise_shape:" + s: 12000 for s in P.RAISE_SHAPES},
                 "fault_raise_shape:plain": 60000},
}
FLOORS = {
    "quick": {"evaluations": 3000, "distinct": 3000,
              "counters": {"faults_fired": 3000, "identity_checks": 3000,
                           "post_fault_renders": 9000, "cases": 30,
                           "faults_sync": 1000, "faults_async": 1000,
                           "faults_fresh_env": 500,
                           "faults_fresh_env_in_module_body_sync": 200,
                           "faults_fresh_env_in_module_body_async": 200,
                           "faults_in_i18n_fragment": 300,
                           "faults_in_i18n_fragment:newstyle:str": 60,
                           "faults_in_i18n_fragment:oldstyle:str": 40,
                           "post_fault_sentinel_renders": 3000,
                           "sentinel_sensitivity_checks": 30,
                           "faults_in_shared_state_fragment": 900,
                           "faults_in_scoped_construct_of_cached_module": 700,
                           "faults_in_scoped_construct_of_cached_module_sync": 450,
                           "faults_in_scoped_construct_of_cached_module_async": 250,
                           "fault_zone:autoescape-block": 400,
                           "fault_zone:autoescape-block+loopcontrol": 20,
                           "fault_zone:scoped-evalctx-block": 25,
                           "faults_via_module_api": 250,
                           "faults_in_deferred_macro_or_call_block_of_cached_module": 150,
                           "faults_in_deferred_macro_or_call_block_of_cached_module_sync": 90,
                           "faults_in_deferred_macro_or_call_block_of_cached_module_async": 40,
                           **{"deferred_via:" + c: 8 for c in DEFERRED_CHANNELS},
                           **{"deferred_defined_in:" + c: 8 for c in DEFERRED_NESTINGS},
                           # engine-initiated attribute lookups on data objects as fault points
                           # (5.6k / 890 / 930 / 1.8k / 1.5k / 3.9k / 186 / 187 in a quick run at load)
                           "faults_at_engine_initiated_attribute_probe": 1200,
                           "faults_at_engine_initiated_attribute_probe_sync": 600,
                           "faults_at_engine_initiated_attribute_probe_async": 450,
                           "fault_event:probe:jinja_pass_arg": 200,
                           "fault_event:probe:__html__": 200,
                           "fault_event:probe:__call__": 400,
                           "fault_event:probe:__class__": 300,
                           "fault_event:probe:__aiter__": 5,
                           "cases_sandboxed": 4, "faults_in_sandboxed_environment": 800,
                           "fault_event:probe:unsafe_callable": 40,
                           "fault_event:probe:alters_data": 40,
                           # raise shapes: how the data code raises the exception object
                           **RAISE_SHAPE_FLOORS["quick"]}},
    "thorough": {"evaluations": 170000, "distinct": 170000,
                 "counters": {"faults_fired": 170000, "identity_checks": 170000,
                              "post_fault_renders": 500000, "cases": 400,
                              "faults_sync": 80000, "faults_async": 80000,
                              "faults_fresh_env": 45000,
                              "faults_fresh_env_in_module_body_sync": 9000,
                              "faults_fresh_env_in_module_body_async": 9000,
                              "faults_in_i18n_fragment": 20000,
                              "faults_in_i18n_fragment:newstyle:str": 4000,
                              "faults_in_i18n_fragment:oldstyle:str": 2000,
                              "post_fault_sentinel_renders": 170000,
                              "sentinel_sensitivity_checks": 400,
                              "faults_in_shared_state_fragment": 25000,
                              "faults_in_scoped_construct_of_cached_module": 20000,
                              "faults_in_scoped_construct_of_cached_module_sync": 11000,
                              "faults_in_scoped_construct_of_cached_module_async": 8500,
                              "fault_zone:autoescape-block": 13000,
                              "fault_zone:autoescape-block+loopcontrol": 1100,
                              "fault_zone:scoped-evalctx-block": 850,
                              "faults_via_module_api": 3000,
                              "faults_in_deferred_macro_or_call_block_of_cached_module": 6000,
                              "faults_in_deferred_macro_or_call_block_of_cached_module_sync": 3400,
                              "faults_in_deferred_macro_or_call_block_of_cached_module_async": 2700,
                              **{"deferred_via:" + c: 800 for c in DEFERRED_CHANNELS},
                              **{"deferred_defined_in:" + c: 600 for c in DEFERRED_NESTINGS},
                              "faults_at_engine_initiated_attribute_probe": 35000,
                              "faults_at_engine_initiated_attribute_probe_sync": 17000,
                              "faults_at_engine_initiated_attribute_probe_async": 13000,
                              "fault_event:probe:jinja_pass_arg": 4500,
                              "fault_event:probe:__html__": 4500,
                              "fault_event:probe:__call__": 9000,
                              "fault_event:probe:__class__": 8000,
                              "fault_event:probe:__aiter__": 110,
                              "cases_sandboxed": 30, "faults_in_sandboxed_environment": 22000,
                              "fault_event:probe:unsafe_callable": 1000,
                              "fault_event:probe:alters_data": 1000,
                              **RAISE_SHAPE_FLOORS["thorough"]}},
}

SYNC_APIS = ["render", "generate", "stream"]
ASYNC_APIS = ["render_async", "generate_async", "render"]


_BCC = {}


def _mem_cache(case):
    """Harness-side in-memory bytecode cache (public BytecodeCache / Bucket API),
    one per compile-relevant environment configuration and process: environments
    share the compiled code objects of templates with identical name + source,
    nothing else (no template objects, no modules, no contexts)."""
    from jinja2 import BytecodeCache

    class Mem(BytecodeCache):
        def __init__(self):
            self.d = {}

        def load_bytecode(self, bucket):
            code = self.d.get((bucket.key, bucket.checksum))
            if code is not None:
                bucket.code = code

        def dump_bytecode(self, bucket):
            self.d[(bucket.key, bucket.checksum)] = bucket.code

    i18n = case.get("i18n")
    sig = (bool(case["is_async"]), bool(case["autoescape"]), bool(i18n),
           bool(i18n and i18n["newstyle"]), bool(case.get("sandbox")))
    if sig not in _BCC:
        _BCC[sig] = Mem()
    return _BCC[sig]


class CaseEnv:
    def __init__(self, case, recipe, loop):
        from jinja2 import DictLoader, Environment
        from jinja2.sandbox import SandboxedEnvironment

        if case.get("sandbox"):
            # the sandbox asks every object a template calls / reads for more (unsafe_callable,
            # alters_data, ...): engine-initiated attribute probes, fault points like the others
            Environment = SandboxedEnvironment
        self.case = case
        self.recipe = recipe
        self.loop = loop
        self.is_async = case["is_async"]
        i18n = case.get("i18n")
        self.env = Environment(loader=DictLoader(dict(case["tpls"])),
                               enable_async=self.is_async, autoescape=bool(case["autoescape"]),
                               extensions=(["jinja2.ext.i18n"] if i18n else [])
                               + ["jinja2.ext.loopcontrols", SH.harness_extension()],
                               bytecode_cache=_mem_cache(case))
        self.ev = None
        self.env.globals["zone"] = self._zone
        self.env.filters["ectx"], self.env.globals["ectxf"] = SH.sentinel_callables()
        # probes that are not render variables (environment globals, gettext callables)
        # report to the run in progress through this proxy
        self.proxy = P.EvProxy()
        self.env.globals["mark"] = self._mark
        self.env.globals.update(P.build_globals(recipe, self.proxy, self.is_async))
        if i18n:
            if i18n["callables"] == "null":
                self.env.install_null_translations(newstyle=bool(i18n["newstyle"]))
            else:
                g, ng, pg, npg = P.make_gettext(self.proxy, i18n["callables"] == "lazy")
                self.env.install_gettext_callables(g, ng, newstyle=bool(i18n["newstyle"]),
                                                   pgettext=pg, npgettext=npg)

    def _mark(self, label):
        if self.ev is not None:
            self.ev.label = label
        return ""

    def _zone(self, name):
        """Called by the macros of long-lived modules when they enter / leave a
        scoped construct: lets the harness attribute a fault to the construct."""
        if self.ev is not None:
            self.ev.zone = name
        return ""

    def _module_calls(self, data):
        """Template.module from Python: the cached module of slib.j2, its macros
        called with probe data."""
        parts = []
        for mac, args in self.case["modcalls"]:
            # 'name' = macro of slib.j2; 'tpl:a.b' = attribute chain on the module of tpl
            tname, _, path = mac.rpartition(":")
            obj = self.env.get_template(tname or "slib.j2").module
            for part in path.split("."):
                obj = getattr(obj, part)
            self._mark("module-api:" + mac)
            parts.append(str(obj(*[SH.resolve_arg(a, data) for a in args])))
        return SH.SEG.join(parts)

    def run(self, name, api, fault_at=None, shape="plain"):
        """-> (kind, value, events)."""
        ev = self.ev = P.Events(fault_at, shape)
        data = P.build(self.recipe, ev, self.is_async)
        t = None if name == SH.MODULE_TARGET else self.env.get_template(name)
        self.proxy.cur = ev
        try:
            if name == SH.MODULE_TARGET:
                out = self._module_calls(data)
            elif api == "render":
                out = t.render(**data)
            elif api == "generate":
                out = "".join(list(t.generate(**data)))
            elif api == "stream":
                st = t.stream(**data)
                st.enable_buffering(3)
                out = "".join(st)
            elif api == "render_async":
                out = self.loop.run_until_complete(t.render_async(**data))
            elif api == "generate_async":
                async def consume():
                    return "".join([x async for x in t.generate_async(**data)])
                out = self.loop.run_until_complete(consume())
            else:
                raise AssertionError(api)
            return ("ok", out, ev)
        except Exception as e:  # noqa: BLE001 - the outcome is the observation
            return ("exc", e, ev)
        finally:
            self.ev = None
            self.proxy.cur = None


def raise_shape_of(case, target, k):
    """How the data raises its exception at fault point k: 5 of 11 points a bare
    ``raise Boom()``, the other 6 one raise shape each (11 is coprime to the API / sampling
    rotations over k, so every shape meets every API and event kind)."""
    tl = post_targets(case)
    ti = tl.index(target) if target in tl else 0
    j = (k + 4 * ti) % 11
    return P.RAISE_SHAPES[j - 4] if j >= 5 else "plain"


def check_fault(ctx, ce, clean, target, api, k, fresh=False):
    """One fault point.  clean: {name: output}.  fresh: ce is a brand-new
    environment (nothing rendered / imported in it yet)."""
    case = ce.case
    shape = raise_shape_of(case, target, k)
    rcase = {"case": case, "recipe": ce.recipe, "target": target, "api": api, "k": k,
             "fresh": bool(fresh), "raise_shape": shape}
    kind, val, ev = ce.run(target, api, fault_at=k, shape=shape)
    ctx.ev()
    if not ev.fired:
        # the faulted run did not reach event k: the clean run was not reproducible
        ctx.count("fault_not_reached")
        return
    ctx.count("faults_fired")
    ctx.count("faults_async" if ce.is_async else "faults_sync")
    # how the data code raised the exception object (chained / re-raised / bare)
    ctx.count("fault_raise_shape:" + shape)
    if shape != "plain":
        ctx.count("faults_raised_chained_or_reraised")
        ctx.count("faults_raised_chained_or_reraised_" + ("async" if ce.is_async else "sync"))
        ctx.count("fault_raise_shape_x_api:%s:%s" % (shape.split(":")[0], api))
    if case.get("sandbox"):
        ctx.count("faults_in_sandboxed_environment")
    if ev.fired_kind.startswith("probe:"):
        # the event is an attribute lookup the ENGINE made on the data object (feature probing)
        ctx.count("faults_at_engine_initiated_attribute_probe")
        ctx.count("faults_at_engine_initiated_attribute_probe_"
                  + ("async" if ce.is_async else "sync"))
    if fresh:
        ctx.count("faults_fresh_env")
        if str(ev.fired_label).startswith("mod:"):
            ctx.count("faults_fresh_env_in_module_body")
            ctx.count("faults_fresh_env_in_module_body_" + ("async" if ce.is_async else "sync"))
    if case.get("i18n"):
        ctx.count("faults_i18n_env")
        if str(ev.fired_label).startswith(("trans-", "gettext-")):
            ctx.count("faults_in_i18n_fragment")
            ctx.count("faults_in_i18n_fragment:%s:%s"
                      % ("newstyle" if case["i18n"]["newstyle"] else "oldstyle", ev.fired_kind))
    zone = ev.fired_zone or "none"
    if str(ev.fired_label).startswith(("shared-", "module-api:")):
        ctx.count("faults_in_shared_state_fragment")
    if ev.fired_zone:
        # the fault fired while a macro of a cached module was inside a scoped construct
        ctx.count("faults_in_scoped_construct_of_cached_module")
        ctx.count("faults_in_scoped_construct_of_cached_module_"
                  + ("async" if ce.is_async else "sync"))
        ctx.count("fault_zone:" + ev.fired_zone)
        if ev.fired_zone.startswith("deferred-"):
            # inside a macro / call block that was defined inside scoped constructs of a
            # cached module and is called after those constructs ended
            dz = dict(x.split("=", 1) for x in ev.fired_zone.split(":")[1:])
            ctx.count("faults_in_deferred_macro_or_call_block_of_cached_module")
            ctx.count("faults_in_deferred_macro_or_call_block_of_cached_module_"
                      + ("async" if ce.is_async else "sync"))
            ctx.count("deferred_defined_in:" + dz["defined-in"])
            ctx.count("deferred_via:" + dz["called-after-it-ended-via"])
    if target == SH.MODULE_TARGET:
        ctx.count("faults_via_module_api")
    ctx.count("fault_event:" + ev.fired_kind)
    ctx.count("fault_api:" + api)
    ctx.count("fault_in:" + str(ev.fired_label))
    where = "%s@%s" % (ev.fired_kind, ev.fired_label)
    tsrc = _target_source(case, target)
    ctx.dist((core.h8([tsrc, ce.recipe, case["autoescape"], ce.is_async,
                       case.get("i18n")]), api, k, bool(fresh)))
    ctx.count("identity_checks")
    if kind == "exc" and val is ev.boom:
        pass
    elif ev.fired_cap:
        # documented: capability tests report false instead of propagating
        ctx.count("fault_absorbed_by_capability_test")
    elif kind == "ok":
        ctx.violation("swallowed:" + where,
                      "exception raised by the data at event %d (%s, in fragment %r) did not "
                      "propagate: %s() returned %r; template %r"
                      % (k, ev.fired_kind, ev.fired_label, api, val[:200], tsrc[:500]), rcase)
    else:
        ctx.violation("not-same-object:%s:%s" % (where, type(val).__name__),
                      "data raised %r (raise shape: %s) at event %d (%s, fragment %r) but %s() "
                      "raised a different object %r (cause=%r context=%r); template %r"
                      % (ev.boom, shape, k, ev.fired_kind, ev.fired_label, api, val,
                         getattr(val, "__cause__", None), getattr(val, "__context__", None),
                         tsrc[:500]), rcase)
    # the engine must still be usable.  First the sentinels of every module that is
    # cached per environment (state that outlives the faulted render) ...
    post_api = "render_async" if ce.is_async else "render"
    dirty = False
    for name in case.get("probes", []):
        k2, v2, _ = ce.run(name, post_api)
        ctx.count("post_fault_sentinel_renders")
        if k2 != "ok":
            dirty = True
            ctx.violation("engine-unusable-after-fault:%s:sentinel-template-raises:%s"
                          % (where, type(v2).__name__),
                          "after the fault at event %d of %s (%s; %s, fragment %r, inside %s) the "
                          "sentinel template %s raised %r"
                          % (k, target, api, ev.fired_kind, ev.fired_label, zone, name, v2), rcase)
        elif v2 != clean[name]:
            dirty = True
            seg = SH.first_diff_segment(clean[name], v2)
            ctx.violation("cached-module-state-changed-after-fault:fault-in=%s:seen-in=%s"
                          % (zone, seg),
                          "after the fault at event %d of %s (%s; %s raised in fragment %r while a "
                          "macro of a cached module was inside: %s) the eval-context sensitive "
                          "sentinel macros of the cached modules render %r instead of %r (first "
                          "differing module: %s); target %r; slib.j2 %r"
                          % (k, target, api, ev.fired_kind, ev.fired_label, zone, v2[:300],
                             clean[name][:300], seg, tsrc[:400], case["tpls"].get("slib.j2", "")[:1500]),
                          rcase)
    if dirty:
        # one precise record per fault point; the caller replaces the environment
        return True
    # ... then the same template and the others (and the Python-side module calls)
    for name in post_targets(case):
        k2, v2, _ = ce.run(name, "module" if name == SH.MODULE_TARGET else post_api)
        ctx.count("post_fault_renders")
        rel = "module-api" if name == SH.MODULE_TARGET else "same" if name == target else "other"
        if k2 != "ok":
            dirty = True
            ctx.violation("engine-unusable-after-fault:%s:%s-template-raises:%s"
                          % (where, rel, type(v2).__name__),
                          "after the fault at event %d of %s (%s), a clean render of %s raised %r"
                          % (k, target, api, name, v2), rcase)
        elif v2 != clean[name]:
            dirty = True
            ctx.violation("engine-unusable-after-fault:%s:%s-template-differs" % (where, rel),
                          "after the fault at event %d of %s (%s), a clean render of %s gave %r "
                          "instead of %r" % (k, target, api, name, v2[:300], clean[name][:300]),
                          rcase)
    return dirty


def post_targets(case):
    return list(case["mains"]) + ([SH.MODULE_TARGET] if case.get("modcalls") else [])


def _target_source(case, target):
    if target == SH.MODULE_TARGET:
        return "Template.module calls %r on slib.j2" % (case["modcalls"],)
    return case["tpls"][target]


def sentinel_self_check(ctx, ce):
    """The sentinels must be able to SEE an eval context that differs from the
    module default: inside `autoescape true` vs `autoescape false` they have to
    render differently (else the post-fault observation is blind -> inconclusive)."""
    t = ce.env.get_template(SH.SELFCHECK)
    ce.proxy.cur = None
    if ce.is_async:
        out = ce.loop.run_until_complete(t.render_async())
    else:
        out = t.render()
    on, off = out.split(SH.SEG)
    ctx.count("sentinel_sensitivity_checks")
    if on == off:
        ctx.inconc("sentinel macros render %r under autoescape true and false alike: they "
                   "cannot see the eval context" % on[:200])
        return False
    return True


def apis_of(ce, target):
    if target == SH.MODULE_TARGET:
        return ["module"]
    return ASYNC_APIS if ce.is_async else SYNC_APIS


def warm_env(ctx, case, recipe, loop):
    """New environment with every main template (+ module calls + sentinel
    template) rendered once: the bodies of templates imported / included without
    context run once per environment (cached module); their events belong to
    fresh_phase.  -> CaseEnv or None."""
    ce = CaseEnv(case, recipe, loop)
    for name in case["tpls"]:
        ce.env.get_template(name)
    for name in post_targets(case) + list(case.get("probes", [])):
        kind, val, ev = ce.run(name, apis_of(ce, name)[0])
        if kind != "ok":
            ctx.count("case_rejected_clean_raises:" + type(val).__name__)
            if len(ctx.samples) < 6:
                ctx.sample({"rejected_clean_raises": repr(val)[:300], "i18n": case.get("i18n"),
                            "template": _target_source(case, name)})
            return None
    return ce


def run_case(ctx, case, recipe, quick, loop):
    try:
        ce = warm_env(ctx, case, recipe, loop)
    except Exception as e:
        ctx.count("case_rejected_compile:" + type(e).__name__)
        if len(ctx.samples) < 6:
            ctx.sample({"rejected_compile": repr(e)[:300]})
        return
    if ce is None:
        return
    if not sentinel_self_check(ctx, ce):
        return
    clean, nev, kinds_at = {}, {}, {}
    targets = post_targets(case)
    for name in targets + list(case.get("probes", [])):
        outs = []
        for api in apis_of(ce, name) * (3 if name == SH.MODULE_TARGET else 1):
            kind, val, ev = ce.run(name, api)
            if kind != "ok":
                ctx.count("case_rejected_clean_raises:" + type(val).__name__)
                return
            outs.append((val, ev.n))
            kinds_at[name] = [t[0] for t in ev.trace]
            for kk, c in ev.kinds.items():
                ctx.count("clean_event:" + kk, c)
        if len({o for o in outs}) != 1:
            ctx.count("case_rejected_apis_disagree")
            return
        clean[name], nev[name] = outs[0]
    # reference hygiene: the sentinels must render in a brand-new environment (nothing
    # rendered yet) as they do after the fault-free warm-up; if fault-free renders alone
    # change what the cached modules' sentinels show, that is not this property's
    # business (no fault involved) and the reference would be ambiguous
    fresh = CaseEnv(case, recipe, loop)
    for name in case.get("probes", []):
        kind, val, _ = fresh.run(name, apis_of(fresh, name)[0])
        if kind != "ok" or val != clean[name]:
            ctx.count("case_skipped_sentinels_differ_without_any_fault(not deciding)")
            if len(ctx.samples) < 6:
                ctx.sample({"sentinels_differ_without_fault": True,
                            "fresh": repr(val)[:400], "after_warm_up": clean[name][:400],
                            "mains": {m: case["tpls"][m] for m in case["mains"]}})
            return
    ctx.count("cases")
    ctx.count("cases_async" if ce.is_async else "cases_sync")
    if case.get("sandbox"):
        ctx.count("cases_sandboxed")
    if case.get("modcalls"):
        ctx.count("cases_with_module_api_target")
    if len(ctx.samples) < 3:
        ctx.sample({"is_async": ce.is_async, "autoescape": case["autoescape"],
                    "template": case["tpls"][case["mains"][0]], "events_clean": nev,
                    "clean_output": clean[case["mains"][0]],
                    "slib.j2": case["tpls"]["slib.j2"], "modcalls": case.get("modcalls"),
                    "sentinels_clean": clean[case["probes"][0]]})
    for ti, target in enumerate(targets):
        N = nev[target]
        apis = apis_of(ce, target)
        for k in range(1, N + 1):
            if k % 4 and k <= len(kinds_at[target]) and \
                    kinds_at[target][k - 1] == "probe:__class__":
                # the __class__ lookups of isinstance() (by far the most frequent engine-side
                # lookup, above all in the sandbox: a third of all events) are sampled 1 in 4
                ctx.count("skipped_isinstance_class_lookup_points")
                continue
            if quick and len(apis) > 1:
                # one API per fault point, rotating; the asyncio.run wrapper is slow: 1 in 6
                if ce.is_async:
                    use = [apis[2] if k % 6 == 0 else apis[(k + ti) % 2]]
                else:
                    use = [apis[(k + ti) % 3]]
            else:
                use = apis
            for api in use:
                if check_fault(ctx, ce, clean, target, api, k):
                    # a violation was recorded: the environment may be damaged for good;
                    # continue in a new one so that later records stay attributable
                    ctx.count("environment_replaced_after_violation")
                    ce = warm_env(ctx, case, recipe, loop)
                    if ce is None:
                        return
        ctx.count("targets_fully_enumerated")
        if ctx.elapsed() > ctx.budget_s * 1.5:
            ctx.count("case_cut_by_time")
            break
    fresh_phase(ctx, case, recipe, loop, clean, quick)


def fresh_phase(ctx, case, recipe, loop, clean, quick):
    """Fault points of the FIRST render in a brand-new environment: the bodies of
    templates imported / included without context run only then (the module is
    cached afterwards), so every event inside such a body ('mod:' labels) is a
    fault point, each in its own new environment, followed by clean renders of the
    sentinel template and all main templates in that environment.  The module of
    slib.j2 is created by the faulted render itself there."""
    for ti, target in enumerate(post_targets(case)):
        ce = CaseEnv(case, recipe, loop)
        apis = apis_of(ce, target)
        kind, val, ev = ce.run(target, apis[0])
        if kind != "ok" or val != clean[target]:
            # not this property's business (no fault involved); visible in the evidence
            ctx.count("fresh_first_render_differs_from_warm(not deciding)")
            continue
        modpts = [i for i, (_, lab, _) in enumerate(ev.trace, 1) if str(lab).startswith("mod:")]
        zonepts = [i for i, z in enumerate(ev.zones, 1) if z and i not in set(modpts)]
        others = [i for i in range(1, ev.n + 1) if i not in set(modpts) and i not in set(zonepts)]
        nother = 2 if quick else 8
        step = max(1, len(others) // nother)
        # + a few points inside scoped constructs of the (then brand-new) cached module
        zstep = max(1, len(zonepts) // nother)
        pts = (modpts[:60 if quick else 400] + others[ti % step::step][:nother]
               + zonepts[ti % zstep::zstep][:nother])
        if modpts:
            ctx.count("fresh_targets_with_module_body_events")
        for j, k in enumerate(sorted(pts)):
            for api in ([apis[(j + ti) % min(2, len(apis))]] if quick else apis):
                check_fault(ctx, CaseEnv(case, recipe, loop), clean, target, api, k,
                            fresh=True)
        if ctx.elapsed() > ctx.budget_s * 1.5:
            ctx.count("case_cut_by_time")
            break


def run(ctx):
    quick = ctx.tier == "quick"
    rng = ctx.rng("gen")
    loop = asyncio.new_event_loop()
    try:
        i = 0
        nmax = 300 if quick else 20000
        while ctx.more(i, nmax, floor=2):
            is_async = (i + ctx.shard) % 2 == 1
            case = GEN.gen_case(rng, is_async)
            recipe = P.gen_recipe(rng)
            case["sandbox"] = (i // 2 + ctx.shard // 2) % 4 == 3
            run_case(ctx, case, recipe, quick, loop)
            i += 1
    finally:
        loop.close()


def replay(ctx, obj):
    loop = asyncio.new_event_loop()
    try:
        case = obj["case"]
        ref = warm_env(ctx, case, obj["recipe"], loop)
        if ref is None:
            return
        clean = {}
        for name in post_targets(case) + list(case.get("probes", [])):
            kind, val, _ = ref.run(name, apis_of(ref, name)[-1] if name == SH.MODULE_TARGET
                                   else ("render_async" if ref.is_async else "render"))
            if kind != "ok":
                return
            clean[name] = val
        if obj.get("fresh"):
            ce = CaseEnv(case, obj["recipe"], loop)
        else:
            ce = ref
        check_fault(ctx, ce, clean, obj["target"], obj["api"], obj["k"],
                    fresh=bool(obj.get("fresh")))
    finally:
        loop.close()
