"""C22 - collection filters against executable contracts written from their
docstrings; every case is driven through Environment.call_filter and through a
rendered template, in a sync and in an async environment (async generators as
input where the filter has an async variant); arguments are fingerprinted
before/after every drive, and every result is searched for mutable containers
it shares with the arguments (identity), then modified in place to see whether
an argument moves.  The six case-(in)sensitive comparison filters (unique, sort,
groupby, min, max, dictsort; bare and through attribute=) additionally get
strings with special case mappings, and their contract is explicit that "case
insensitive" compares str.lower() of the keys.  Every filter (plus items and
random) is also driven with the same generated elements held in other subject
types - dict / OrderedDict, dict views, set / frozenset, str, range, deque, list
subclass, objects offering only one protocol (__iter__; __iter__+__len__;
__reversed__+__len__; __getitem__+__len__), generators, other Mapping types, an
undefined value - and held to its contract wherever the subject offers the
protocol the docstring names; elsewhere only the four drives must agree.  Every
filter with a string-valued argument is also driven with that argument held as a
string marked safe (Markup, ``'..'|safe`` inline), as a plain str subclass and
(join's delimiter) as a number, join over items with HTML metacharacters: with
autoescape off the kind of an argument may not change the result."""
from __future__ import annotations

import collections
import itertools
import math
import types

from vt.gen import fcase_c2223 as F
from vt.model import c22_spec as SP

PID = "C22"
LEVEL = "exploration"
TECHNIQUE = ("contract monitor over the results of the real filters: per-filter executable "
             "specification (case-insensitive = keys compared lower-cased, told apart from other "
             "caseless forms by special-casing strings) + sync/async/template agreement + argument "
             "fingerprints + result/argument aliasing (identity walk and modify-the-result probe); "
             "subject-type dimension: the same contracts over every container type that offers "
             "the protocol the docstring names")
RULE = ("cases = (filter, subject kind, elements, positional/keyword arguments); an enumerated "
        "edge grid (batch/slice: every length 0-12 x count 1-5 x fill; unique/sort/groupby: every "
        "sequence of length<=4 over a small mixed-case alphabet x flags; unique/groupby/sort/min/"
        "max/dictsort, bare and with attribute=: every sequence of length<=3 over the "
        "special-casing alphabets {sharp s, 'ss', capital sharp s, 'SZ'} and {sharp s, 'ss', 'ST', "
        "long s} x case_sensitive) plus seeded random cases "
        "(ints with duplicates, mixed-case words, int/float mixes, nested dict/object records "
        "with dotted, integer and comma-separated attribute paths, (word,int) pairs, missing "
        "attributes with defaults, truthiness bags) for all 21 filters; 60% of the string-keyed "
        "cases of the six comparison filters draw every string (elements, record attributes, "
        "dict keys/values, pair members, groupby defaults) from a pool built around one of 7 "
        "clusters of strings whose lower() differs from casefold() or upper-then-lower (sharp s, "
        "fi/fl ligatures, long s, final sigma, dotless/dotted i, micro sign, n-apostrophe, iota "
        "subscript, titlecase digraphs) with their look-alikes, other-case forms and sort "
        "neighbours, with case_sensitive true and false. The contract compares lower() of the "
        "keys; an input is AMBIGUOUS when two keys differ under lower() but are case variants "
        "of each other (same upper()/casefold(), not both all-lower or all-upper: sharp s and "
        "'SS') - there a result matching any of lower/casefold/upper-then-lower is accepted; "
        "every other input is strict (all-lower-case keys must compare as in plain Python) and a "
        "result that matches another caseless form is reported as "
        "case-insensitive:keys-not-compared-lower-cased (the message names the form). Each case runs on "
        "list/tuple/generator/iter-only/str/dict subjects through call_filter and a template "
        "(|list, for-loop or direct form; arguments as variables or inline literals) in a sync "
        "and an async environment (async generator / async-iterable subjects for the 12 filters "
        "with async variants). After every drive the mutable containers (list/dict/set/object) "
        "reachable from the result are matched by identity against those reachable from the "
        "subject and the arguments: list and sort must return a new list, an async drive may "
        "share no container its sync counterpart (same path: call_filter / template) does not "
        "share, and after the harness appends to / overwrites every result-owned container the "
        "argument fingerprints must be unchanged. SUBJECT TYPES: for all 21 filters plus items "
        "and random, an enumerated grid (every (filter, subject kind) the generators can fill, "
        "twice, from fixed seeds) and one random case per three cases of the main workload take "
        "the elements and arguments of a generated case and hold the elements in another "
        "container: dict / OrderedDict keys, dict.keys() / .values() / .items() views, set, "
        "frozenset, str, range, deque, a list subclass, objects defining only __iter__, only "
        "__iter__+__len__, only __reversed__+__len__, only __getitem__+__len__ (indexes "
        "0..len-1), a generator, an undefined value (environment.undefined() for call_filter, a "
        "missing variable in the template); dictsort / items get OrderedDict, MappingProxyType, "
        "an abc.Mapping subclass, UserDict, defaultdict. The contract is applied when the "
        "subject offers the protocol the docstring names (first and the iterating filters: "
        "iterable; last: reversible - 'Does not work with generators' is the only exclusion; "
        "length: sized; random: indexable and sized; dictsort/items: mapping; an undefined value "
        "iterates as empty and items of it is empty), with expected items = what iterating the "
        "subject yields; otherwise only call_filter/template and sync/async agreement is "
        "demanded (never for random). Re-iterable subjects are re-read after every drive and "
        "must still hold the same elements. ARGUMENT KINDS: for the 15 filters that take a "
        "string-valued argument (join delimiter, batch/slice fill value, attribute paths, "
        "groupby/map defaults, map's filter name and its operands, select/reject test names and "
        "string operands, dictsort by) an enumerated grid (every (filter, kind), 3 times - join "
        "8 times - from fixed seeds) and one random case per four cases of the main workload "
        "(every second one on join) hold one or more of those arguments in another kind of "
        "value: a string marked safe (markupsafe.Markup; written 'lit'|safe when the template "
        "passes arguments inline), a plain str subclass, and for join's delimiter an int / "
        "float (the separator as text); join items are then drawn from strings with HTML "
        "metacharacters, some marked safe. Autoescape is off, so the contract is the same as "
        "with plain str arguments (join = str(d).join(str(x) ...), items untouched); the "
        "mechanism key names parameter and kind (filter:join/arg:d:markup/result). distinct = distinct (filter, kind, elements, args, "
        "kwargs) tuples with >= 2 elements")
LEVEL_TEXT = ("held on K generated executions of the real filters covering the enumerated edge "
              "grid completely and a seeded random sample of the argument space; no claim beyond "
              "the generated element types")
ASSUMPTIONS = [
    "autoescape is off (Markup-aware behaviour of join etc. belongs to C24)",
    "case insensitive means the keys are compared lower-cased (ignore_case: 'Converts strings "
    "to lowercase'; groupby: 'the lowercase key'; case_sensitive=True: 'sort upper and lower "
    "case separately' / 'Treat upper and lower case strings as distinct'), so two different "
    "strings that are both entirely lower-case (sharp s / 'ss', fi ligature / 'fi') stay "
    "distinct and keep their plain Python order; only for a pair that differs under lower() "
    "although one is the upper-casing of the other (sharp s / 'SS', final sigma / capital "
    "sigma) both readings are accepted",
    "keys inside one case are mutually comparable and hashable",
    "an input that the docstring does not cover (first/min/max of an empty input, ties in "
    "min/max) is only checked for sync/async/template agreement",
    "subject types: a filter documented on 'a sequence' / 'an iterable' / 'a container' may rely "
    "on the protocol that Python definition uses (iter(), reversed(), len(), indexing for "
    "random, .items() for dictsort/items) and on nothing else; where a subject lacks that "
    "protocol (last of a set or generator, length of a generator, anything but items/iteration "
    "on an undefined value, random of a dict) the documentation is silent and only agreement of "
    "the four drives is checked; set subjects only hold elements hashed by value so that all "
    "drives see one order",
    "aliasing: only list and sort are required outright to return a new list (list(value) / "
    "sorted(value)); for every other filter the sync variant is the reference for which "
    "containers of the arguments may appear inside the result (items passed through, the start "
    "value of an empty sum, ...), and the async variant may not share more",
]
NSHARDS = {"quick": 16, "thorough": 16}
BUDGET_S = {"quick": 12, "thorough": 600}
# per subject kind / per filter floors of the subject-type workload (quick tier;
# about a third of what the grid + 16 x 66 guaranteed random cases give)
_TYPED_FLOORS = {"typed_kind:" + k: n for ks, n in (
    (("asdict", "odict", "dkeys", "dvalues", "set", "frozenset", "deque", "revlen", "getitem",
      "sizediter", "listsub", "iter", "gen", "undef"), 35),
    (("range", "str", "ditems"), 18),
    (("m:odict", "m:proxy", "m:abc", "m:userdict", "m:defaultdict"), 8)) for k in ks}
_TYPED_FLOORS.update({"typed:" + f: 30 for f in (
    "first", "last", "length", "count", "list", "reverse", "sort", "unique", "min", "max", "sum",
    "join", "batch", "slice", "map", "select", "reject", "selectattr", "rejectattr", "groupby",
    "dictsort", "items", "random")})
# the time box always lets 200 random cases per shard through, so the quick
# floors sit just under what grid + 16 x 200 cases produce
# argument kinds (quick tier: 115 grid cases + >= 50 random ones per shard; a seed-0 run
# gives 923 / 517 / 295 / 166 / 175 / 465 / 111 / 186)
_ARGKIND_FLOORS = {"argkind_cases": 230, "argkind:markup": 130, "argkind:strsub": 70,
                   "argkind:number": 40, "argkind_inline_safe_literal": 40,
                   "argkind_join_non_str_delimiter": 110,
                   "argkind_join_safe_delimiter_html_items": 25, "argkind_join_safe_items": 45}
FLOORS = {
    "quick": {"evaluations": 16000, "distinct": 3000,
              "counters": {"calls:call": 4000, "calls:tmpl": 4000, "calls:acall": 4000,
                           "calls:atmpl": 4000, "oracle_evaluations": 16000,
                           "async_iterable_subjects": 1200, "lazy_sync_subjects": 4000,
                           "fingerprints_compared": 35000, "grid_cases": 2200,
                           "alias_checks": 14000, "alias_result_pokes": 9000,
                           "alias_list_subject_list_result": 2200,
                           "filters_exercised_min_cases": 120,
                           # special-casing workload: the enumerated grid alone gives 982 /
                           # 498 / 60 / 386 / 196 / 153 and 44-88 per filter; the random
                           # part adds ~2.7 strict discriminating inputs per 100 cases
                           "fold_special_inputs": 900, "fold_special_case_sensitive": 400,
                           "fold_ambiguous_inputs": 50, "fold_strict_discriminating": 350,
                           "fold_strict_attribute": 150, "fold_strict_lazy_subject": 120,
                           "fold_strict_random": 30,
                           "fold_strict:unique": 40, "fold_strict:sort": 40,
                           "fold_strict:groupby": 40, "fold_strict:min": 40,
                           "fold_strict:max": 40, "fold_strict:dictsort": 40,
                           # subject types: 689 grid cases + >= 66 random ones per shard
                           "typed_cases": 1300, "typed_grid_cases": 600,
                           "typed_contract_cases": 1100, "typed_oracle_evaluations": 4400,
                           "typed_contract_non_sequence_subject": 500,
                           "typed_agreement_only_cases": 100, "typed_undefined_subjects": 60,
                           "typed_subject_snapshots": 4400, **_TYPED_FLOORS,
                           "argkind_grid_cases": 100, **_ARGKIND_FLOORS}},
    "thorough": {"evaluations": 600000, "distinct": 100000,
                 "counters": {"calls:call": 150000, "calls:tmpl": 150000, "calls:acall": 150000,
                              "calls:atmpl": 150000, "oracle_evaluations": 600000,
                              "async_iterable_subjects": 50000, "lazy_sync_subjects": 150000,
                              "fingerprints_compared": 1200000, "grid_cases": 2200,
                              "alias_checks": 550000, "alias_result_pokes": 350000,
                              "alias_list_subject_list_result": 90000,
                              "filters_exercised_min_cases": 6000,
                              "fold_special_inputs": 9000, "fold_special_case_sensitive": 4000,
                              "fold_ambiguous_inputs": 600, "fold_strict_discriminating": 2500,
                              "fold_strict_attribute": 1400, "fold_strict_lazy_subject": 1100,
                              "fold_strict_random": 2500,
                              "fold_strict:unique": 400, "fold_strict:sort": 400,
                              "fold_strict:groupby": 400, "fold_strict:min": 400,
                              "fold_strict:max": 400, "fold_strict:dictsort": 400,
                              "typed_cases": 30000, "typed_grid_cases": 600,
                              "typed_contract_cases": 25000, "typed_oracle_evaluations": 100000,
                              "typed_contract_non_sequence_subject": 10000,
                              "typed_agreement_only_cases": 2500,
                              "typed_undefined_subjects": 1500,
                              "typed_subject_snapshots": 100000,
                              **{k: v * 20 for k, v in _TYPED_FLOORS.items()},
                              "argkind_grid_cases": 100,
                              **{k: v * 20 for k, v in _ARGKIND_FLOORS.items()}}},
}
N_RANDOM = {"quick": 2000, "thorough": 80000}

# --------------------------------------------------------------- pools
# letters whose lower()/upper() are simple one-to-one folds
WORDS = ["foo", "Foo", "FOO", "bar", "Bar", "baz", "a", "A", "b", "B", "zebra", "Zebra",
         "apple", "Apple", "éclair", "Éclair", "mañana", "x1", "X1", "Hello World"]
CITIES = ["NY", "ny", "LA", "la", "Berlin", "berlin", "SF", "Ny"]
NICKS = ["zed", "Zed", "amy", "Amy", "bob"]
# strings with SPECIAL case mappings (str.lower() differs from str.casefold() or from
# upper-then-lower: sharp s, ligatures, long s, final sigma, dotless/dotted i, micro sign,
# n-apostrophe, iota subscript, titlecase digraphs) next to their look-alikes and plain
# neighbours in the sort order; per cluster (entirely lower-case forms, other-case forms)
FOLD_CLUSTERS = [
    (["ß", "ss", "sz", "st", "straße", "strasse", "s"],
     ["SS", "ẞ", "Straße", "STRASSE", "ST", "Ss", "SZ"]),
    (["ﬁsh", "fish", "ﬁ", "fi", "ﬂ", "fl", "fj"], ["FISH", "Fish", "FI", "FL", "FJ"]),
    (["ſ", "s", "ſt", "st", "r", "t"], ["S", "ST", "T", "St", "R"]),
    (["ς", "σ", "ας", "ασ", "τ", "ρ"], ["Σ", "ΑΣ", "Τ", "Ρ"]),
    (["ı", "i", "i̇", "j", "h"], ["I", "İ", "J", "H"]),
    (["µ", "μ", "ŉ", "ʼn", "ν", "n"], ["Μ", "ʼN", "Ν", "N"]),
    (["ᾳ", "αι", "ǆ", "α", "β"], ["ᾼ", "ΑΙ", "ǅ", "Ǆ", "Α"]),
]
# argument-kind workload: items / delimiters with HTML metacharacters (a filter that
# treats a safe-marked argument as a request to escape shows on them)
HTML_WORDS = ["<a>", "b & c", '"q"', "x'y", "<b>y</b>", "&amp;", "1 < 2", "plain", "A>B", "", "é<"]
HTML_DELIMS = ["<br>", " & ", ", ", "<hr/>", "|", "&nbsp;", " > ", "-"]
LENGTHS = [0, 1, 1, 2, 2, 3, 3, 4, 5, 6, 7, 8, 9, 10, 12, 15, 24]
FILTERS = SP.ALL_FILTERS


def pick_len(rng):
    return rng.choice(LENGTHS)


def ints(rng, n, lo=-3, hi=6):
    return [rng.randint(lo, hi) for _ in range(n)]


def words(rng, n, pool=WORDS):
    return [rng.choice(pool) for _ in range(n)]


def fold_pool(rng):
    """A small word pool around one cluster of special-casing strings.  Half of
    the pools are built so that no two words are case variants of each other
    with different lower() forms (the contract is strict on them, see
    c22_spec.fold_profile); the other half mixes the cases freely."""
    lows, others = rng.choice(FOLD_CLUSTERS)
    plain = rng.sample(WORDS, rng.randint(0, 3))
    if rng.random() < 0.5:
        src, k = lows, rng.randint(2, len(lows))
    else:
        src, k = lows + others, rng.randint(2, 6)
    # always at least one special-casing string
    pool = [rng.choice([w for w in src if SP.is_special(w)])]
    pool += rng.sample([w for w in src if w != pool[0]], k - 1)
    if src is lows:
        for w in rng.sample(others, rng.randint(0, 3)):
            if not SP.fold_profile(pool + [w])["ambiguous"]:
                pool.append(w)
    rng.shuffle(pool)
    return pool + plain


def record(rng, style, drop_nick=True, drop_addr=False, pool=None):
    """Nested record; style 0 = dicts, 1 = object with dict inside, 2 = objects
    all the way, 3 = dict holding an object.  ``pool``: the words of every
    string attribute (default: WORDS / CITIES / NICKS)."""
    WORDS, CITIES, NICKS = (pool, pool, pool) if pool else _DEFAULT_POOLS
    addr = {"city": rng.choice(CITIES), "zip": [rng.randint(0, 3), rng.randint(0, 9)]}
    d = {
        "name": rng.choice(WORDS),
        "age": rng.randint(0, 4),
        "score": rng.choice([0.5, 1.5, 2.0, 2.25, -1.0, 0.1, 0.2, 0.3]),
        "active": rng.random() < 0.5,
        "email": rng.choice([None, "a@example.com", "B@example.com"]),
        "tags": [rng.choice(WORDS), rng.choice(WORDS)],
    }
    if not (drop_addr and rng.random() < 0.4):
        d["addr"] = F.Obj(**addr) if style in (2, 3) else addr
    if not (drop_nick and rng.random() < 0.4):
        d["nick"] = rng.choice(NICKS)
    return F.Obj(**d) if style in (1, 2) else d


_DEFAULT_POOLS = (WORDS, CITIES, NICKS)


def records(rng, n, **kw):
    style = rng.choice([0, 0, 1, 2, 3, 4])
    return [record(rng, style if style < 4 else rng.randint(0, 3), **kw) for _ in range(n)]


STR_ATTRS = ["name", "addr.city", "tags.0", "tags.1"]
INT_ATTRS = ["age", "addr.zip.0", "addr.zip.1"]
MULTI_ATTRS = ["age,name", "addr.city,age", "addr.zip.0,name", "name,age", "active,age"]


def argstyle(rng, names, values):
    """Split documented parameters into positional prefix + keywords."""
    cut = rng.randint(0, len(names))
    # positional arguments cannot skip a parameter: trailing ones become keywords
    args = list(values[:cut])
    kwargs = {k: v for k, v in zip(names[cut:], values[cut:])}
    return args, kwargs


def drop_defaults(rng, name, args, kwargs):
    """Randomly omit keyword arguments that equal the documented default."""
    sig = dict(SP.SIG.get(name, []))
    for k in list(kwargs):
        if k in sig and sig[k] is not SP.REQ and kwargs[k] == sig[k] \
                and type(kwargs[k]) is type(sig[k]) and rng.random() < 0.6:
            del kwargs[k]
    return args, kwargs


def kinds_for(name):
    ks = ["list", "list", "tuple", "gen", "iter"]
    if name in SP.NEEDS_SIZED or name in SP.NEEDS_REVERSIBLE:
        ks = ["list", "list", "tuple"]
    if name in SP.ASYNC_VARIANT:
        ks += ["agen", "agen", "aiter"]
    return ks


# --------------------------------------------------------------- generators
def gen_case(rng, name, html=False):
    """``html``: the join cases draw items and delimiters that contain HTML
    metacharacters (argument-kind workload); the default stream is unchanged."""
    n = pick_len(rng)
    kind = rng.choice(kinds_for(name))
    args, kwargs = [], {}
    data = None
    # the word pool of the six case-(in)sensitive comparison filters: half of
    # their cases draw every string (elements, record attributes, dict keys and
    # values, pair members, groupby defaults) from a special-casing pool
    # (decided when the first string is drawn, so numeric cases do not use it up)
    fold = []

    def fp():
        if not fold:
            fold.append(fold_pool(rng) if name in SP.FOLDING and rng.random() < 0.6 else None)
        return fold[0]

    def str_attr(choices):
        # with a special-casing pool prefer the attributes that hold its words
        return rng.choice(STR_ATTRS if fp() and rng.random() < 0.6 else choices)

    if name in ("batch", "slice"):
        if rng.random() < 0.5:
            data = ints(rng, n, 1, 9)
        else:
            data = words(rng, n)
        k = rng.choice([1, 1, 2, 2, 3, 3, 4, 5, 6, 7, 10])
        fill = rng.choice([None, None, "·", "·", 0, False, "", [0]])
        pname = "linecount" if name == "batch" else "slices"
        args, kwargs = argstyle(rng, [pname, "fill_with"], [k, fill])
        if "fill_with" in kwargs and fill is None and rng.random() < 0.7:
            del kwargs["fill_with"]
        if rng.random() < 0.1 and data and isinstance(data[0], str):
            kind, data = "str", "".join(w[:1] for w in data)

    elif name == "unique":
        r = rng.random()
        cs = rng.random() < 0.5
        attr = None
        if r < 0.35:
            data = words(rng, n, (fp() or WORDS))
        elif r < 0.5:
            data = ints(rng, n, 0, 4)
        elif r < 0.6:
            data = [rng.choice([0.5, 1.5, 2, 3, -1, 2.5]) for _ in range(n)]
        elif r < 0.9:
            data = records(rng, n, drop_nick=False, pool=fp())
            attr = str_attr(STR_ATTRS + INT_ATTRS + ["active"])
        else:
            data = [[rng.choice((fp() or WORDS)), rng.randint(0, 3)] for _ in range(n)]
            if rng.random() < 0.5:
                data = [tuple(x) for x in data]
            attr = rng.choice([0, 1])
        args, kwargs = argstyle(rng, ["case_sensitive", "attribute"], [cs, attr])
        args, kwargs = drop_defaults(rng, name, args, kwargs)

    elif name == "groupby":
        r = rng.random()
        cs = rng.random() < 0.4
        default = None
        if r < 0.65:
            data = records(rng, n, drop_nick=False, pool=fp())
            attr = str_attr(STR_ATTRS + INT_ATTRS + ["active"])
        elif r < 0.85:
            data = records(rng, n, drop_nick=True, drop_addr=rng.random() < 0.5, pool=fp())
            attr = rng.choice(["nick", "nick", "addr.city", "addr.zip.0"])
            if attr == "addr.zip.0":
                default = rng.choice([7, 9, "NY"]) if rng.random() < 0.3 else rng.choice([7, 9])
                # keys must stay mutually comparable: a str default only when
                # no item has the (int) attribute
                if isinstance(default, str):
                    for x in data:
                        if isinstance(x, dict):
                            x.pop("addr", None)
                        elif hasattr(x, "addr"):
                            del x.addr
            else:
                default = rng.choice(fp() or ["anon", "Anon", "NY", "zed"])
        else:
            data = [[rng.choice((fp() or WORDS)), rng.randint(0, 3)] for _ in range(n)]
            if rng.random() < 0.5:
                data = [tuple(x) for x in data]
            attr = rng.choice([0, 1])
        args, kwargs = argstyle(rng, ["attribute", "default", "case_sensitive"],
                                [attr, default, cs])
        args, kwargs = drop_defaults(rng, name, args, kwargs)

    elif name == "sort":
        r = rng.random()
        rev = rng.random() < 0.4
        cs = rng.random() < 0.4
        attr = None
        if r < 0.3:
            data = words(rng, n, (fp() or WORDS))
        elif r < 0.45:
            data = ints(rng, n)
        elif r < 0.55:
            data = [rng.choice([1, 1.0, 2, 2.0, 0.5, -1, -1.0, 3]) for _ in range(n)]
        elif r < 0.9:
            data = records(rng, n, drop_nick=False, pool=fp())
            attr = str_attr(STR_ATTRS + INT_ATTRS + MULTI_ATTRS + MULTI_ATTRS + ["score"])
        else:
            data = [[rng.choice((fp() or WORDS)), rng.randint(0, 3)] for _ in range(n)]
            attr = rng.choice([0, 1, "0,1", "1,0"])
        args, kwargs = argstyle(rng, ["reverse", "case_sensitive", "attribute"], [rev, cs, attr])
        args, kwargs = drop_defaults(rng, name, args, kwargs)
        if rng.random() < 0.05 and attr is None and data and isinstance(data[0], str):
            kind, data = "str", "".join(w[:1] for w in data)

    elif name == "dictsort":
        kind = "dict"
        keys = []
        pool = (fp() or WORDS) if rng.random() < 0.8 else [1, 5, 3, 2, 9, 0, -4, 7, 12, 10]
        for w in (rng.choice(pool) for _ in range(n)):
            if w not in keys:
                keys.append(w)
        if rng.random() < 0.5:
            vals = [rng.randint(0, 4) for _ in keys]
        else:
            vals = [rng.choice((fp() or WORDS)) for _ in keys]
        data = dict(zip(keys, vals))
        args, kwargs = argstyle(rng, ["case_sensitive", "by", "reverse"],
                                [rng.random() < 0.4, rng.choice(["key", "value"]),
                                 rng.random() < 0.4])
        args, kwargs = drop_defaults(rng, name, args, kwargs)

    elif name == "items":
        kind = "dict"
        keys = []
        pool = WORDS if rng.random() < 0.7 else [1, 5, 3, 2, 9, 0, -4, 7, -1, 10]
        for w in (rng.choice(pool) for _ in range(n)):
            if w not in keys:
                keys.append(w)
        data = {k: rng.choice([rng.randint(0, 4), rng.choice(WORDS), None, [1]]) for k in keys}

    elif name in ("reverse", "first", "last", "list", "length", "count", "random"):
        r = rng.random()
        if r < 0.3:
            data = ints(rng, n)
        elif r < 0.6:
            data = words(rng, n)
        elif r < 0.8:
            data = records(rng, n)
        else:
            data = [rng.choice([None, 0, "", [], [1], {"a": 1}, 2.5, True]) for _ in range(n)]
        if rng.random() < 0.15:
            kind, data = "str", "".join(rng.choice("aAb é中-") for _ in range(n))

    elif name in ("min", "max"):
        r = rng.random()
        cs = rng.random() < 0.5
        attr = None
        if r < 0.3:
            data = words(rng, n, (fp() or WORDS))
        elif r < 0.5:
            data = ints(rng, n)
        elif r < 0.6:
            data = [rng.choice([0.5, 1.5, 2, 3, -1, 2.5, -7, 10]) for _ in range(n)]
        else:
            data = records(rng, n, drop_nick=False, pool=fp())
            attr = str_attr(STR_ATTRS + INT_ATTRS + ["score"])
        args, kwargs = argstyle(rng, ["case_sensitive", "attribute"], [cs, attr])
        args, kwargs = drop_defaults(rng, name, args, kwargs)

    elif name == "sum":
        r = rng.random()
        attr = None
        start = rng.choice([0, 0, 0, 5, -2, 1.5, 0.0])
        if r < 0.3:
            data = ints(rng, n, -9, 20)
        elif r < 0.5:
            data = [rng.choice([0.1, 0.2, 0.3, 0.7, 1.1, 2.5, 1e16, -1e16, 3.0, 1]) for _ in range(n)]
        elif r < 0.8:
            data = records(rng, n)
            attr = rng.choice(INT_ATTRS + ["score", "age"])
        else:
            data = [ints(rng, rng.randint(0, 3)) for _ in range(n)]
            start = [] if rng.random() < 0.6 else [rng.randint(0, 9)]
        args, kwargs = argstyle(rng, ["attribute", "start"], [attr, start])
        args, kwargs = drop_defaults(rng, name, args, kwargs)

    elif name == "join":
        r = rng.random()
        attr = None
        d = rng.choice(["", "", ",", ", ", "|", " - ", "—", "\n", "ab"])
        if html:
            d = rng.choice(HTML_DELIMS)
        if r < 0.3 or (html and r < 0.45):
            data = words(rng, n, HTML_WORDS if html else WORDS)
        elif r < 0.5:
            data = ints(rng, n)
        elif r < 0.6:
            data = [rng.choice([None, 0, "", "x", 2.5, True, "A b"]) for _ in range(n)]
        else:
            data = records(rng, n, pool=HTML_WORDS if html else None)
            attr = rng.choice(STR_ATTRS + INT_ATTRS + ["email", "score"])
        args, kwargs = argstyle(rng, ["d", "attribute"], [d, attr])
        args, kwargs = drop_defaults(rng, name, args, kwargs)
        if rng.random() < 0.05 and attr is None:
            kind, data = "str", "".join(rng.choice("aAb é") for _ in range(n))

    elif name == "map":
        r = rng.random()
        if r < 0.3:
            data = records(rng, n, drop_nick=False)
            kwargs = {"attribute": rng.choice(STR_ATTRS + INT_ATTRS + ["email", "tags", "addr"])}
        elif r < 0.5:
            data = records(rng, n, drop_nick=True, drop_addr=rng.random() < 0.6)
            kwargs = {"attribute": rng.choice(["nick", "nick", "addr.city", "addr.zip.0",
                                               "addr.zip", "nick.0"])}
            if rng.random() < 0.8:
                kwargs["default"] = rng.choice(["anon", "NY", 0, 7, "", False, [1, 2]])
            else:
                # without a default only a one-step lookup may be missing (it
                # yields an undefined value; walking further into it raises)
                kwargs["attribute"] = "nick"
        elif r < 0.58:
            data = [[rng.choice(WORDS), rng.randint(0, 3)] for _ in range(n)]
            kwargs = {"attribute": rng.choice([0, 1])}
        else:
            fname = rng.choice(["upper", "lower", "length", "count", "abs", "string", "list",
                                "first", "sum", "join", "trim", "default"])
            args = [fname]
            if fname in ("upper", "lower", "list"):
                data = words(rng, n)
            elif fname in ("length", "count"):
                data = [rng.choice(WORDS + [[], [1, 2], {"a": 1}]) for _ in range(n)]
            elif fname == "abs":
                data = [rng.choice([-3, 0, 2, -1.5, 2.5, True]) for _ in range(n)]
            elif fname == "string":
                data = [rng.choice([None, 0, "", "x", 2.5, True, [1]]) for _ in range(n)]
            elif fname == "first":
                data = [rng.choice(["foo", "Bar", [1, 2], [None], ["x"], "z"]) for _ in range(n)]
            elif fname == "sum":
                data = [ints(rng, rng.randint(0, 4)) for _ in range(n)]
            elif fname == "join":
                data = [words(rng, rng.randint(0, 3)) for _ in range(n)]
                if rng.random() < 0.6:
                    args.append(rng.choice([",", "-", ""]))
            elif fname == "trim":
                data = [rng.choice(["", " "]) + w + rng.choice(["", "  ", "\n"])
                        for w in words(rng, n)]
            elif fname == "default":
                data = words(rng, n)
                args.append("dflt")

    elif name in ("select", "reject"):
        data, args = gen_test(rng, n)

    elif name in ("selectattr", "rejectattr"):
        data = records(rng, n, drop_nick=True)
        choice = rng.choice([
            ["active"], ["email"], ["nick"], ["email", "none"], ["nick", "defined"],
            ["nick", "undefined"], ["age", "odd"], ["age", "even"],
            ["age", "ge", rng.randint(0, 4)], ["age", "lessthan", rng.randint(0, 4)],
            ["age", "eq", rng.randint(0, 4)], ["age", "in", [1, 3]],
            ["name", "eq", rng.choice(WORDS)], ["name", "equalto", rng.choice(WORDS)],
            ["name", "in", ["foo", "Bar", "a"]], ["name", "lower"], ["name", "upper"],
            ["addr.city", "in", ["NY", "LA"]], ["addr.city", "==", "NY"],
            ["addr.zip.0", "divisibleby", 2], ["addr.zip.1", ">", 4], ["tags.0", "ne", "foo"],
            ["score", "float"], ["score", "gt", 1.0], ["active", "true"], ["active", "false"],
            ["email", "string"], ["tags", "mapping"], ["addr", "mapping"],
        ])
        args = choice
    else:
        raise AssertionError(name)

    return {"filter": name, "kind": kind, "data": F.enc(data), "args": F.enc(args),
            "kwargs": F.enc(kwargs),
            "form": rng.choice(["list", "list", "for", "rec"]),
            "inline": rng.random() < 0.3,
            "via_render": rng.random() < 0.04}


def gen_test(rng, n):
    r = rng.random()
    cased = [w for w in WORDS if w.lower() != w.upper()]
    if r < 0.15:
        bag = [None, 0, 1, "", "a", [], [0], {}, {"a": 1}, 0.0, 2.5, True, False]
        return [rng.choice(bag) for _ in range(n)], []
    if r < 0.5:
        data = ints(rng, n, -5, 12)
        t = rng.choice([["odd"], ["even"], ["divisibleby", rng.choice([1, 2, 3, 5, -2])],
                        ["lt", rng.randint(-3, 9)], ["lessthan", rng.randint(-3, 9)],
                        ["<", 3], ["le", 2], ["<=", 0], ["gt", rng.randint(-3, 9)],
                        ["greaterthan", 4], [">", 0], ["ge", 3], [">=", 1],
                        ["eq", rng.randint(-3, 9)], ["equalto", 2], ["==", 0],
                        ["ne", rng.randint(-3, 9)], ["!=", 1], ["in", [1, 2, 3, 11]],
                        ["in", [rng.randint(-5, 12) for _ in range(3)]]])
        return data, t
    if r < 0.7:
        data = words(rng, n, cased)
        t = rng.choice([["eq", rng.choice(cased)], ["ne", rng.choice(cased)],
                        ["in", ["foo", "Bar", "a", "B"]], ["in", "foobar Zebra"],
                        ["lower"], ["upper"], ["lt", "c"], ["ge", "Foo"], ["string"]])
        return data, t
    bag = [None, 0, 1, "", "a", [], {}, {"a": 1}, 0.0, 2.5, -3, "7"]
    t = rng.choice([["none"], ["string"], ["number"], ["float"], ["mapping"], ["integer"],
                    ["defined"], ["undefined"]])
    tb = rng.choice([["boolean"], ["true"], ["false"], ["none"], ["mapping"], ["string"]])
    if rng.random() < 0.3:
        return [rng.choice(bag + [True, False]) for _ in range(n)], tb
    return [rng.choice(bag) for _ in range(n)], t


# --------------------------------------------------------------- argument kinds
# Every filter that takes a string-valued argument (delimiter, fill value,
# attribute path, default, filter / test name and their string operands, ``by``)
# is also driven with that argument held in another KIND of value: a string marked
# safe (markupsafe.Markup - in an inline template written ``'..'|safe``), a plain
# str subclass, and - for join's delimiter, which is turned into text - a number.
# The contract is unchanged: a str subclass is a string, autoescape is off, so the
# kind of an argument may not alter the result.
ARG_KINDS = ["markup", "markup", "strsub"]
NUMBER_DELIMS = {"int": [0, 7, -1, 10], "float": [1.5, 0.0, -2.25]}


def _wrap(v, kind):
    if kind == "markup":
        from markupsafe import Markup

        return Markup(v)
    if kind == "strsub":
        return F.StrSub(v)
    return v


def case_data(case):
    data = F.dec(case["data"])
    w = case.get("wrap")
    if w:
        for i, k in w.get("data", {}).items():
            data[int(i)] = _wrap(data[int(i)], k)
    return data


def case_args(case):
    args = F.dec(case["args"])
    kwargs = F.dec(case["kwargs"])
    w = case.get("wrap")
    if w:
        for i, k in w.get("args", {}).items():
            args[int(i)] = _wrap(args[int(i)], k)
        for n, k in w.get("kwargs", {}).items():
            kwargs[n] = _wrap(kwargs[n], k)
    return args, kwargs


def _is_html(x):
    return isinstance(x, str) and any(c in x for c in "<>&'\"")


def gen_argkind_case(rng, name, kind=None, min_len=0):
    """A generated case of ``name`` in which at least one string-valued argument
    is held in another kind of value; None when the generator produced no string
    argument in a few attempts (filters without one)."""
    for _ in range(12):
        case = gen_case(rng, name, html=True)
        if case["kind"] == "str":
            continue
        args, kwargs = F.dec(case["args"]), F.dec(case["kwargs"])
        if len(F.dec(case["data"])) < min_len:
            continue
        names = arg_names(name, args, kwargs)
        slots = [("args", str(i), names[i]) for i, a in enumerate(args) if type(a) is str]
        slots += [("kwargs", k, k) for k, a in kwargs.items() if type(a) is str]
        if not slots:
            continue
        rng.shuffle(slots)
        if name == "join":
            # the delimiter (turned into text by the filter) first
            slots.sort(key=lambda t: t[2] != "d")
        chosen = slots[:rng.choice([1, 1, 1, 2, len(slots)])]
        wrap = {"args": {}, "kwargs": {}, "data": {}}
        tags = []
        for where, key, pname in sorted(chosen):
            k = kind or rng.choice(ARG_KINDS)
            if name == "join" and pname == "d" and kind is None and rng.random() < 0.3:
                k = rng.choice(sorted(NUMBER_DELIMS))
            if k in NUMBER_DELIMS:
                if not (name == "join" and pname == "d"):
                    k = "markup"
                else:
                    v = rng.choice(NUMBER_DELIMS[k])
                    if where == "args":
                        args[int(key)] = v
                    else:
                        kwargs[key] = v
                    tags.append(f"{pname}:number")
                    continue
            wrap[where][key] = k
            tags.append(f"{pname}:{k}")
        data = F.dec(case["data"])
        if name == "join" and isinstance(data, list):
            # string items marked safe among plain ones
            for i, x in enumerate(data):
                if type(x) is str and rng.random() < 0.3:
                    wrap["data"][str(i)] = "markup"
        case["args"], case["kwargs"] = F.enc(args), F.enc(kwargs)
        case["wrap"] = wrap
        case["argtag"] = "/arg:" + "+".join(sorted(tags))
        case["via_render"] = False
        return case
    return None


# filters whose generated cases carry a string-valued argument
ARGKIND_FILTERS = ["batch", "slice", "unique", "groupby", "sort", "dictsort", "min", "max",
                   "sum", "join", "map", "select", "reject", "selectattr", "rejectattr"]


def argkind_grid_cases():
    """Every (filter, argument kind) the generators can fill, three times, from
    fixed seeds, plus join's delimiter as every kind x item shapes (the same
    list in every shard and for every VERIF_SEED)."""
    import random

    out = []
    for name in FILTERS:
        for kind in ("markup", "strsub") + (("int", "float") if name == "join" else ()):
            rng = random.Random(f"c22-argkind-grid:{name}:{kind}")
            for rep in range(3 if name != "join" else 8):
                case = gen_argkind_case(rng, name, kind, min_len=1 + rep % 3)
                if case is not None:
                    out.append(case)
    return out


def count_argkind(ctx, case):
    ctx.count("argkind_cases")
    w = case["wrap"]
    kinds = set(w["args"].values()) | set(w["kwargs"].values())
    for k in sorted(kinds):
        ctx.count("argkind:" + k)
    if ":number" in case["argtag"]:
        ctx.count("argkind:number")
    if case["inline"] and "markup" in kinds:
        ctx.count("argkind_inline_safe_literal")
    if case["filter"] == "join":
        args, kwargs = case_args(case)
        p = SP.bind("join", args, kwargs)
        g = SP.getter(p["attribute"])
        try:
            html_items = sum(1 for x in case_data(case) if _is_html(g(x)))
        except Exception:  # noqa: BLE001 - only a workload counter
            html_items = 0
        if type(p["d"]) is not str:
            ctx.count("argkind_join_non_str_delimiter")
            if html_items and hasattr(p["d"], "__html__"):
                # a delimiter marked safe between items that hold HTML metacharacters
                ctx.count("argkind_join_safe_delimiter_html_items")
        if w["data"]:
            ctx.count("argkind_join_safe_items")


# --------------------------------------------------------------- subject types
# Every filter is also driven with the SAME generated elements and arguments held
# in other containers: what the filter may rely on is the protocol its docstring
# names (c22_spec.KIND_CAPS / REQUIRES), not list/tuple.
TYPED_FILTERS = FILTERS + SP.EXTRA_FILTERS
ANY_KINDS = ["dvalues", "deque", "revlen", "getitem", "sizediter", "listsub", "iter", "gen",
             "undef"]
HASH_KINDS = ["asdict", "odict", "dkeys", "set", "frozenset"]
MAP_KINDS = ["m:odict", "m:proxy", "m:abc", "m:userdict", "m:defaultdict", "undef"]
TYPED_KINDS = ANY_KINDS + HASH_KINDS + ["range", "str", "ditems"] + MAP_KINDS[:-1]


def _hashable(x):
    try:
        hash(x)
    except TypeError:
        return False
    return True


def _value_hashed(x):
    if isinstance(x, tuple):
        return all(_value_hashed(y) for y in x)
    return x is None or isinstance(x, (bool, int, float, str))


def typed_kinds_for(name, data):
    """The subject kinds that can hold these elements for this filter."""
    if name in ("dictsort", "items"):
        return list(MAP_KINDS)
    ks = list(ANY_KINDS)
    if all(_hashable(x) for x in data):
        # a set's order follows the hashes: only elements hashed by value, so that
        # the four drives of a case see the same order
        ks += HASH_KINDS if all(_value_hashed(x) for x in data) else HASH_KINDS[:3]
    if all(type(x) is int for x in data):
        ks.append("range")
    if data and all(isinstance(x, str) and x for x in data):
        ks.append("str")
    if name in SP.ELEMENT_AGNOSTIC:
        ks.append("ditems")
    if name in SP.EXTRA_FILTERS:
        ks += ["list", "tuple"]
    return ks


def gen_typed_case(rng, name, kind=None, min_len=0):
    """A generated case of ``name`` whose elements are put into another
    container type (``kind`` fixed or drawn); None when ``kind`` cannot hold
    what the generator produced in a few attempts."""
    for _ in range(12):
        case = gen_case(rng, name)
        data = F.dec(case["data"])
        if case["kind"] == "str":
            data = list(data)
        if kind != "undef" and len(data) < min_len:
            continue
        ks = typed_kinds_for(name, data)
        if kind is None:
            k = rng.choice(ks)
        elif kind in ks:
            k = kind
        else:
            continue
        if k == "undef":
            data = {} if name in ("dictsort", "items") else []
        elif k in HASH_KINDS:
            data = list(dict.fromkeys(data))
        elif k == "range":
            start, step = rng.randint(-3, 5), rng.choice([1, 1, 2, 3, -1, -2])
            if name in ("batch", "slice"):
                # as in gen_case: no element may equal a fill value (0 / False)
                start, step = rng.randint(1, 5), rng.choice([1, 1, 2, 3])
            case["range"] = [start, start + step * len(data), step]
            data = list(range(*case["range"]))
        elif k == "str":
            data = "".join(w[:1] for w in data)
        if len(data) < min_len and k != "undef":
            continue
        case["kind"] = k
        case["data"] = F.enc(data)
        case["typed"] = True
        return case
    return None


def typed_grid_cases():
    """Every (filter, subject kind) that can be generated, twice, from fixed
    seeds (the same list in every shard and for every VERIF_SEED)."""
    import random

    out = []
    for name in TYPED_FILTERS:
        for kind in TYPED_KINDS + (["list", "tuple"] if name in SP.EXTRA_FILTERS else []):
            rng = random.Random(f"c22-typed-grid:{name}:{kind}")
            for rep in range(2):
                case = gen_typed_case(rng, name, kind, min_len=2 + rep)
                if case is not None:
                    case["via_render"] = False
                    out.append(case)
    return out


def grid_cases():
    """Enumerated edge grid (the same list in every shard)."""
    out = []

    def add(name, kind, data, args, kwargs, form="list"):
        out.append({"filter": name, "kind": kind, "data": F.enc(data), "args": F.enc(args),
                    "kwargs": F.enc(kwargs), "form": form, "inline": False,
                    "via_render": False})

    i = 0
    for name, pname in (("batch", "linecount"), ("slice", "slices")):
        for n in range(0, 13):
            for k in range(1, 6):
                for fill in (None, "·"):
                    i += 1
                    kind = ("list", "gen", "agen" if name == "slice" else "tuple")[i % 3]
                    if fill is None:
                        add(name, kind, list(range(1, n + 1)), [k], {}, ("list", "for")[i % 2])
                    else:
                        add(name, kind, list(range(1, n + 1)),
                            [k, fill] if i % 2 else [k], {} if i % 2 else {"fill_with": fill},
                            ("list", "for")[(i // 2) % 2])
    alpha = ["a", "A", "b"]
    for L in range(0, 5):
        for seq in itertools.product(alpha, repeat=L):
            for cs in (False, True):
                i += 1
                add("unique", ("list", "gen", "agen", "tuple")[i % 4], list(seq),
                    [cs] if i % 2 else [], {} if i % 2 else {"case_sensitive": cs})
                recs = [{"k": c, "i": j} for j, c in enumerate(seq)]
                add("groupby", ("list", "agen", "gen")[i % 3], recs, ["k"],
                    {"case_sensitive": cs})
    alpha = ["b", "A", "a", "B"]
    for L in range(0, 5):
        for seq in itertools.product(alpha, repeat=L):
            i += 1
            rev, cs = bool(i & 1), bool(i & 2)
            add("sort", ("list", "gen", "tuple")[i % 3], list(seq), [rev, cs], {})
            if L <= 3:
                add("sort", "list", [{"k": c, "i": j} for j, c in enumerate(seq)], [],
                    {"attribute": "k", "reverse": rev, "case_sensitive": cs})
    # the same grids over special-casing alphabets: sharp s (lower-case, its
    # capital form, its look-alike 'ss' and upper-casing 'SS') and long s, with a
    # plain upper-case neighbour that lower() and the other caseless forms order
    # differently against them; every sequence of length <= 3 x case_sensitive,
    # for all six comparison filters, bare and through attribute=
    alpha = ["ß", "ss", "ẞ", "SZ"]
    for L in range(0, 4):
        for seq in itertools.product(alpha, repeat=L):
            for cs in (False, True):
                i += 1
                add("unique", ("list", "gen", "agen", "tuple")[i % 4], list(seq),
                    [cs] if i % 2 else [], {} if i % 2 else {"case_sensitive": cs})
                recs = [{"k": c, "i": j} for j, c in enumerate(seq)]
                add("groupby", ("list", "agen", "gen")[i % 3], recs, ["k"],
                    {"case_sensitive": cs})
                add("unique", ("agen", "list", "gen")[i % 3], recs, [],
                    {"case_sensitive": cs, "attribute": "k"}, ("list", "for")[i % 2])
    alpha = ["ß", "ss", "ST", "ſ"]
    for L in range(0, 4):
        for seq in itertools.product(alpha, repeat=L):
            i += 1
            rev, cs = bool(i & 1), bool(i & 2)
            recs = [{"k": c, "i": j} for j, c in enumerate(seq)]
            add("sort", ("list", "gen", "tuple")[i % 3], list(seq), [rev, cs], {})
            add("sort", "list", recs, [], {"attribute": "k", "reverse": rev,
                                           "case_sensitive": not cs})
            if L:
                for f in ("min", "max"):
                    add(f, ("list", "gen", "tuple")[i % 3], list(seq), [cs], {})
                    add(f, ("gen", "list")[i % 2], recs, [], {"case_sensitive": not cs,
                                                              "attribute": "k"})
            add("dictsort", "dict", {j: c for j, c in enumerate(seq)}, [],
                {"by": "value", "case_sensitive": cs, "reverse": rev})
            if len(set(seq)) == len(seq):
                for cs2 in (False, True):
                    add("dictsort", "dict", {c: j for j, c in enumerate(seq)}, [cs2], {})
    return out


# --------------------------------------------------------------- execution
SYNC_KIND = {"agen": "gen", "aiter": "iter"}


class _Undef:
    def __repr__(self):
        return "<an undefined value>"


UNDEF = _Undef()   # replaced by environment.undefined() / a missing variable in drive()
MAPPING_BUILDERS = {
    "dict": lambda d: d,
    "m:odict": lambda d: collections.OrderedDict(d),
    "m:proxy": lambda d: types.MappingProxyType(d),
    "m:abc": lambda d: F.AbcMapping(d),
    "m:userdict": lambda d: collections.UserDict(d),
    "m:defaultdict": lambda d: collections.defaultdict(list, d),
}
TYPED_BUILDERS = {
    "asdict": lambda xs: dict.fromkeys(xs),
    "odict": lambda xs: collections.OrderedDict.fromkeys(xs),
    "dkeys": lambda xs: dict.fromkeys(xs).keys(),
    "dvalues": lambda xs: dict(enumerate(xs)).values(),
    "ditems": lambda xs: dict(enumerate(xs)).items(),
    "set": lambda xs: set(xs),
    "frozenset": lambda xs: frozenset(xs),
    "range": None,
    "deque": lambda xs: collections.deque(xs),
    "revlen": lambda xs: F.RevLenOnly(xs),
    "getitem": lambda xs: F.GetItemOnly(xs),
    "sizediter": lambda xs: F.SizedIter(xs),
    "listsub": lambda xs: F.ListSub(xs),
}


def resnap(subject, kind):
    """The elements of a re-iterable subject as the caller sees them after the
    call (None for one-shot / undefined subjects)."""
    if kind in ("gen", "iter", "agen", "aiter", "undef"):
        return None
    if kind == "revlen":
        return list(reversed(subject))[::-1]
    if kind == "dict" or kind.startswith("m:"):
        return list(subject.items())
    return list(subject)


def build(case, is_async):
    data = case_data(case)
    args, kwargs = case_args(case)
    kind = case["kind"]
    if not is_async:
        kind = SYNC_KIND.get(kind, kind)
    if kind == "undef":
        items = []
        subject = UNDEF
        S = F.Sameness(())
    elif kind == "dict" or kind.startswith("m:"):
        items = list(data.items())
        subject = MAPPING_BUILDERS[kind](data)
        S = F.Sameness(())
    elif kind in TYPED_BUILDERS:
        S = F.Sameness(data)
        if kind == "range":
            subject = range(*case["range"])
        else:
            subject = TYPED_BUILDERS[kind](data)
        if kind == "ditems":
            items = [(i, x) for i, x in enumerate(data)]
        elif kind in ("set", "frozenset"):
            items = list(subject)
        else:
            items = list(data)
    elif kind == "str":
        items = list(data)
        subject = data
        S = F.Sameness(())
    else:
        items = data
        S = F.Sameness(items)
        subject = {"list": lambda: items, "tuple": lambda: tuple(items),
                   "gen": lambda: F.gen(items), "iter": lambda: F.IterOnly(items),
                   "agen": lambda: F.agen(items), "aiter": lambda: F.AIterOnly(items)}[kind]()
    return data, items, subject, args, kwargs, S, kind


def same_elements(S, a, b):
    return len(a) == len(b) and all(x is y or S.same(x, y) for x, y in zip(a, b))


def template_src(case, args, kwargs, variables):
    name = case["filter"]
    expr = filter_expr(name, args, kwargs, variables, inline=case["inline"])
    form = case["form"]
    lazy = name in SP.ITERATOR_RESULT and not (name == "reverse" and case["kind"] == "str")
    if lazy and form == "for":
        return "{% for x in " + expr + " %}{{ rec1(x) }}{% endfor %}"
    if lazy:
        return "{{ rec(" + expr + "|list) }}"
    return "{{ rec(" + expr + ") }}"


def filter_expr(name, args, kwargs, variables, inline=False):
    """F.filter_expr, keeping the kind of a string argument: a string marked safe
    is written ``'..'|safe`` when inline, any other str subclass is always passed
    as a variable."""
    def keeps_kind(a):
        return type(a) is str or not isinstance(a, str)

    if all(keeps_kind(a) for a in list(args) + list(kwargs.values())):
        return F.filter_expr(name, args, kwargs, variables, inline=inline)
    parts = []
    for key, a, prefix in [(f"a{i}", a, "") for i, a in enumerate(args)] \
            + [(f"k_{k}", a, f"{k}=") for k, a in kwargs.items()]:
        lit = F.literal(a if keeps_kind(a) else str(a)) if inline else None
        if lit is not None and not keeps_kind(a):
            lit = f"({lit}|safe)" if hasattr(a, "__html__") else None
        if lit is None:
            variables[key] = a
            lit = key
        parts.append(prefix + lit)
    return f"data|{name}({', '.join(parts)})"


PATHS = ("call", "tmpl", "acall", "atmpl")


def drive(rig, case, path):
    is_async = path[0] == "a"
    data, items, subject, args, kwargs, S, kind = build(case, is_async)
    name = case["filter"]
    if path.endswith("call"):
        if subject is UNDEF:
            subject = (rig.aenv if is_async else rig.env).undefined(name="data")
        out = (rig.acall if is_async else rig.call)(name, subject, args, kwargs)
    else:
        # an undefined subject: the template names a variable that is not passed
        variables = {} if subject is UNDEF else {"data": subject}
        src = template_src(case, args, kwargs, variables)
        out = rig.render(is_async, src, variables, via_render=case.get("via_render", False))
    moved = None
    if case.get("typed") and subject is not UNDEF:
        after = resnap(subject, kind)
        if after is not None and not same_elements(S, after, items):
            moved = after
    return out, data, items, args, kwargs, S, kind, moved


def arg_names(name, args, kwargs):
    sig = [k for k, _ in SP.SIG.get(name, [])]
    names = []
    for i in range(len(args)):
        names.append(sig[i] if i < len(sig) else f"arg{i}")
    return names


class _Collector:
    """Stands in for the harness context while a typed case runs: counters
    pass through, violations are held back until their key is settled."""

    def __init__(self, ctx):
        self.ctx = ctx
        self.viol = []

    def ev(self, n=1):
        if self.ctx is not None:
            self.ctx.ev(n)

    def count(self, name, n=1):
        if self.ctx is not None:
            self.ctx.count(name, n)

    def violation(self, key, what, case):
        self.viol.append((key, what, case))


def twin_of(case):
    """The same elements and arguments on a plain list (dict for the mapping
    kinds) - None for an undefined subject, which has no such twin."""
    kind = case["kind"]
    if kind == "undef":
        return None
    twin = {k: v for k, v in case.items() if k not in ("typed", "range")}
    data = F.dec(case["data"])
    if kind.startswith("m:"):
        twin["kind"] = "dict"
    else:
        twin["kind"] = "list"
        if kind == "str":
            data = list(data)
        elif kind == "ditems":
            data = [(i, x) for i, x in enumerate(data)]
        twin["data"] = F.enc(data)
    return twin


def plain_twin_of(case):
    """The same case with every argument a plain str (a numeric join delimiter as
    its text)."""
    twin = {k: v for k, v in case.items() if k not in ("wrap", "argtag")}
    if ":number" in case["argtag"]:
        args, kwargs = F.dec(case["args"]), F.dec(case["kwargs"])
        if "d" in kwargs:
            kwargs["d"] = str(kwargs["d"])
        elif args:
            args[0] = str(args[0])
        twin["args"], twin["kwargs"] = F.enc(args), F.enc(kwargs)
    return twin


def run_case(ctx, rig, case, count=True):
    """Typed cases: a violation that the same elements on a plain list / dict
    show as well is reported under the key without the subject kind (the
    mechanism does not depend on the container)."""
    if case.get("wrap"):
        # argument-kind cases: a violation that the same case with plain str
        # arguments shows as well does not depend on the kind of the argument
        col = _Collector(ctx)
        profile = _run_case(col, rig, case, count)
        if col.viol:
            tcol = _Collector(None)
            _run_case(tcol, rig, plain_twin_of(case), count=False)
            tkeys = {k for k, _, _ in tcol.viol}
            for key, what, c in col.viol:
                base = key.replace(case["argtag"], "")
                ctx.violation(base if base in tkeys else key, what, c)
        return profile
    if not case.get("typed"):
        return _run_case(ctx, rig, case, count)
    col = _Collector(ctx)
    profile = _run_case(col, rig, case, count)
    if col.viol:
        twin = twin_of(case)
        tkeys = set()
        if twin is not None:
            tcol = _Collector(None)
            _run_case(tcol, rig, twin, count=False)
            tkeys = {k for k, _, _ in tcol.viol}
        tag = "/subject:" + SP.KIND_GROUP[case["kind"]]
        for key, what, c in col.viol:
            base = key.replace(tag, "")
            ctx.violation(base if base in tkeys else key, what, c)
    return profile


def _run_case(ctx, rig, case, count=True):
    name = case["filter"]
    ref_data = F.fp(case_data(case))
    _a, _k = case_args(case)
    ref_args = [F.fp(a) for a in _a]
    ref_kwargs = {k: F.fp(v) for k, v in _k.items()}
    # argument-kind cases: the mechanism key names the parameter and its kind
    rkey = name + case.get("argtag", "")
    desc = None
    sync_norm = None
    alias_ref = {}      # 'call' / 'tmpl' -> aliasing of the sync result
    profile = {}        # case-folding profile of the input (six comparison filters)
    typed = bool(case.get("typed"))
    # the documentation defines the result on this kind of subject (always true
    # for the list/tuple/generator/... subjects of the main workload)
    covered = SP.covered(name, case["kind"]) if typed else True
    # typed subjects: the mechanism key names the kind of container
    fkey = f"{name}/subject:{SP.KIND_GROUP[case['kind']]}" if typed else rkey
    for path in PATHS:
        out, data, items, args, kwargs, S, kind, moved = drive(rig, case, path)
        ctx.ev()
        if count:
            ctx.count("calls:" + path)
            if typed:
                pass
            elif kind in ("agen", "aiter"):
                ctx.count("async_iterable_subjects")
            elif kind in ("gen", "iter"):
                ctx.count("lazy_sync_subjects")
        is_async = path[0] == "a"
        if name == "reverse" and out.ok and not isinstance(out.value, (str, list, tuple)) \
                and hasattr(out.value, "__iter__"):
            # "Reverse the object or return an iterator ...": a re-iterable reversed
            # object (a reversed range) is as good as an iterator
            out.value = list(out.value)
        # ---- result
        if not covered:
            # documentation silent: only the four drives have to agree
            verdict = None
            norm = ("ok", S.norm(out.value)) if out.ok else ("raises", out.exc_name())
            if count:
                ctx.count("typed_agreement_only_drives")
        elif out.ok:
            info = {}
            verdict = SP.check(name, items, kind, args, kwargs, out.value, S, info)
            if path == "call":
                profile = info
            norm = ("ok", S.norm(out.value))
        else:
            verdict = ("raises:" + out.exc_name(), out.describe())
            norm = ("raises", out.exc_name())
        if name in SP.NONDETERMINISTIC and (out.ok or not covered):
            # a random choice: the drives legitimately differ (on a subject the
            # documentation does not cover even in whether the index is a key)
            norm = ("ok", "<one of the items>")
        if count and (covered or not typed):
            ctx.count("typed_oracle_evaluations" if typed else "oracle_evaluations")
        if desc is None:
            desc = f"{name} on {kind} {case_data(case)!r:.300} args={_a!r} kwargs={_k!r}"
        if moved is not None:
            ctx.violation(f"mutates:{'async' if is_async else 'sync'}:{fkey}/arg:value",
                          f"[{path}] {desc}: the subject container holds {moved!r:.300} after "
                          f"the call", case)
        if count and typed:
            ctx.count("typed_subject_snapshots")
        if path == "call":
            sync_norm = norm
            if verdict:
                ctx.violation(f"filter:{fkey}/{verdict[0]}",
                              f"[{path}] {desc}: {verdict[1]}", case)
        elif typed and norm != sync_norm:
            # (same key scheme as the main workload below, plus the subject kind)
            where = "async" if is_async else "template"
            aspect = "differs-from-call_filter" if not is_async else \
                (verdict[0] if verdict else "result-differs-from-sync")
            ctx.violation(f"{where}:{fkey}/{aspect}",
                          f"[{path}] {desc}: {out.describe()} but sync call_filter gave "
                          f"{sync_norm!r:.300}" + (f" ({verdict[1]})" if verdict else ""), case)
        elif norm != sync_norm:
            if not is_async:
                ctx.violation(f"template:{rkey}/differs-from-call_filter",
                              f"[{path}] {desc}: template gives {out.describe()}"
                              + (f" ({verdict[1]})" if verdict else ""), case)
            else:
                aspect = verdict[0] if verdict else "result-differs-from-sync"
                if name == "sum" and out.ok and isinstance(out.value, float):
                    # name the mechanism: plain left-to-right ``rv = rv + x`` accumulation
                    # (mathematically the same sum) instead of the builtin sum()
                    p = SP.bind(name, args, kwargs)
                    g = SP.getter(p["attribute"])
                    rv = p["start"]
                    for x in items:
                        rv = rv + g(x)
                    if S.same(out.value, rv):
                        aspect = "float-accumulation-order-differs-from-sync"
                ctx.violation(f"async:{rkey}/{aspect}",
                              f"[{path}] {desc}: async environment gives {out.describe()}, sync "
                              f"call_filter gave {sync_norm!r:.300}"
                              + (f" ({verdict[1]})" if verdict else ""), case)
        # ---- arguments unmodified
        mode = "async" if is_async else "sync"
        if F.fp(data) != ref_data:
            ctx.violation(f"mutates:{mode}:{name}/arg:value",
                          f"[{path}] {desc}: subject after the call is {data!r:.300}", case)
        names = arg_names(name, args, kwargs)
        for i, a in enumerate(args):
            if F.fp(a) != ref_args[i]:
                ctx.violation(f"mutates:{mode}:{name}/arg:{names[i]}",
                              f"[{path}] {desc}: positional argument {i} after the call is "
                              f"{a!r:.300}", case)
        for k, a in kwargs.items():
            if F.fp(a) != ref_kwargs[k]:
                ctx.violation(f"mutates:{mode}:{name}/arg:{k}",
                              f"[{path}] {desc}: keyword argument {k} after the call is "
                              f"{a!r:.300}", case)
        if count:
            ctx.count("fingerprints_compared", 1 + len(args) + len(kwargs))
        # ---- result does not alias the arguments
        if out.ok and norm == sync_norm:
            names = arg_names(name, args, kwargs)
            roots = [("value", data)] + [(f"arg:{names[i]}", a) for i, a in enumerate(args)] \
                + [(f"arg:{k}", a) for k, a in kwargs.items()]
            argmap = F.container_map(roots)
            pairs, fresh = F.alias_signature(out.value, argmap)
            if count:
                ctx.count("alias_checks")
                ctx.count("alias_shared_containers_seen", len(pairs))
                if kind == "list" and isinstance(out.value, list):
                    ctx.count("alias_list_subject_list_result")
            top = [a for r, a in pairs if r == ""]
            if name in SP.NEW_LIST_RESULT and top:
                # list(): "Convert the value into a list" / sorted(): a new list
                ctx.violation(f"alias:{mode}:{name}/result-is-argument:{_root(top[0])}",
                              f"[{path}] {desc}: the returned list IS the caller's "
                              f"{top[0]} object, not a new list", case)
            base = alias_ref.get(path[-4:])
            if not is_async:
                alias_ref[path[-4:]] = pairs
            elif name in SP.NONDETERMINISTIC:
                pass
            elif base is not None and not set(pairs) <= set(base):
                extra = sorted(set(pairs) - set(base))
                r, a = extra[0]
                what = f"result-is-argument:{_root(a)}" if r == "" else \
                    f"result-shares-container-of:{_root(a)}"
                ctx.violation(f"alias:async:{name}/{what}",
                              f"[{path}] {desc}: in the async environment the result{r} is the "
                              f"caller's object {a}; the sync variant returns a copy there "
                              f"(sync shares only {base[:4]})", case)
            # a caller that modifies what it got back must not modify what it passed in
            if F.poke(fresh):
                if count:
                    ctx.count("alias_result_pokes")
                changed = None
                if F.fp(data) != ref_data:
                    changed = "value"
                for i, a in enumerate(args):
                    if F.fp(a) != ref_args[i]:
                        changed = changed or names[i]
                for k, a in kwargs.items():
                    if F.fp(a) != ref_kwargs[k]:
                        changed = changed or k
                if changed:
                    ctx.violation(f"alias:{mode}:{name}/modifying-result-changes-arg:{changed}",
                                  f"[{path}] {desc}: after appending to / overwriting the "
                                  f"containers of the returned value the argument {changed} is "
                                  f"{(data if changed == 'value' else '...')!r:.200}", case)
    return profile


def _root(argpath):
    """'arg:start[0]' -> 'start', 'value[3].tags' -> 'value'."""
    for i, ch in enumerate(argpath):
        if ch in "[.":
            argpath = argpath[:i]
            break
    return argpath[4:] if argpath.startswith("arg:") else argpath


def nontrivial(case):
    d = case["data"]
    if isinstance(d, dict) and len(d) == 1 and next(iter(d)) in ("$d",):
        return len(d["$d"]) >= 2
    return len(d) >= 2


def count_fold(ctx, case, profile, strict_per_filter, grid=False):
    """Monitor counters of the special-casing workload (per case, from the
    profile the specification computed for the call_filter drive)."""
    if not profile.get("special"):
        return
    ctx.count("fold_special_inputs")
    if profile["case_sensitive"]:
        ctx.count("fold_special_case_sensitive")
    elif profile["ambiguous"]:
        ctx.count("fold_ambiguous_inputs")
    elif profile["discriminating"]:
        # case-insensitive, strict, and lower() / casefold() / upper-then-lower
        # identify or order some pair of its keys differently
        ctx.count("fold_strict_discriminating")
        if not grid:
            ctx.count("fold_strict_random")
        strict_per_filter[case["filter"]] += 1
        p = SP.bind(case["filter"], F.dec(case["args"]), F.dec(case["kwargs"]))
        if p.get("attribute") is not None:
            ctx.count("fold_strict_attribute")
        if case["kind"] in ("gen", "iter", "agen", "aiter"):
            ctx.count("fold_strict_lazy_subject")


def run_typed(ctx, rig, case, tally):
    run_case(ctx, rig, case)
    name, kind = case["filter"], case["kind"]
    ctx.count("typed_cases")
    tally["filter"][name] += 1
    tally["kind"][kind] += 1
    if SP.covered(name, kind):
        ctx.count("typed_contract_cases")
        if "q" not in SP.KIND_CAPS[kind] and len(case["data"]) >= 2:
            # the subject offers the protocol the docstring names, but is not a
            # positional sequence (dict, views, set, protocol-only objects ...)
            ctx.count("typed_contract_non_sequence_subject")
            tally["nonseq"][name] += 1
    else:
        ctx.count("typed_agreement_only_cases")
    if kind == "undef":
        ctx.count("typed_undefined_subjects")
    if nontrivial(case):
        ctx.dist([name, kind, case["data"], case["args"], case["kwargs"]])


def run_argkind(ctx, rig, case):
    run_case(ctx, rig, case)
    count_argkind(ctx, case)
    if nontrivial(case):
        ctx.dist([case["filter"], case["kind"], case["data"], case["args"], case["kwargs"],
                  case["wrap"]])


def run(ctx):
    rig = F.Rig()
    per_filter = {f: 0 for f in FILTERS}
    strict_per_filter = {f: 0 for f in sorted(SP.FOLDING)}
    tally = {"filter": {f: 0 for f in TYPED_FILTERS}, "kind": {k: 0 for k in TYPED_KINDS},
             "nonseq": {f: 0 for f in TYPED_FILTERS}}
    tally["kind"].update({"list": 0, "tuple": 0})
    try:
        # ---- subject types: every (filter, kind), statically partitioned
        tgrid = typed_grid_cases()
        for i, case in enumerate(tgrid):
            if ctx.mine(i):
                run_typed(ctx, rig, case, tally)
                ctx.count("typed_grid_cases")
        ctx.extra["typed_grid_size"] = len(tgrid) if ctx.shard == 0 else 0
        trng = ctx.rng("typed")
        # ---- argument kinds: every (filter, kind), statically partitioned
        agrid = argkind_grid_cases()
        for i, case in enumerate(agrid):
            if ctx.mine(i):
                run_argkind(ctx, rig, case)
                ctx.count("argkind_grid_cases")
        ctx.extra["argkind_grid_size"] = len(agrid) if ctx.shard == 0 else 0
        arng = ctx.rng("argkind")
        # ---- enumerated grid, statically partitioned
        grid = grid_cases()
        done = 0
        for i, case in enumerate(grid):
            if not ctx.mine(i):
                continue
            count_fold(ctx, case, run_case(ctx, rig, case), strict_per_filter, grid=True)
            ctx.count("grid_cases")
            per_filter[case["filter"]] += 1
            if nontrivial(case):
                ctx.dist([case["filter"], case["kind"], case["data"], case["args"],
                          case["kwargs"]])
            done += 1
        ctx.extra["grid_size"] = len(grid) if ctx.shard == 0 else 0
        # ---- seeded random cases
        rng = ctx.rng("cases")
        n_max = N_RANDOM[ctx.tier]
        i = 0
        while ctx.more(i, n_max, floor=200):
            name = FILTERS[(i + ctx.shard) % len(FILTERS)]
            case = gen_case(rng, name)
            count_fold(ctx, case, run_case(ctx, rig, case), strict_per_filter)
            ctx.count("random_cases")
            per_filter[name] += 1
            if nontrivial(case):
                ctx.dist([name, case["kind"], case["data"], case["args"], case["kwargs"]])
            if i < 3 and ctx.shard in (0, 5):
                ctx.sample(case)
            # ---- the same generators on other subject types (1 per 3 cases)
            if i % 3 == 2:
                tname = TYPED_FILTERS[(i // 3 + ctx.shard) % len(TYPED_FILTERS)]
                tcase = gen_typed_case(trng, tname)
                if tcase is not None:
                    run_typed(ctx, rig, tcase, tally)
                    if i < 8 and ctx.shard == 3:
                        ctx.sample(tcase)
            # ---- the same generators with other argument kinds (1 per 4 cases;
            # every second one on join, whose delimiter is turned into text)
            if i % 4 == 1:
                j = i // 4
                aname = "join" if j % 2 else ARGKIND_FILTERS[(j // 2 + ctx.shard)
                                                             % len(ARGKIND_FILTERS)]
                acase = gen_argkind_case(arng, aname)
                if acase is not None:
                    run_argkind(ctx, rig, acase)
                    if i < 8 and ctx.shard == 7:
                        ctx.sample(acase)
            i += 1
        for f, c in tally["filter"].items():
            ctx.count("typed:" + f, c)
        for k, c in tally["kind"].items():
            if k not in ("list", "tuple"):
                ctx.count("typed_kind:" + k, c)
        for f, c in per_filter.items():
            ctx.count("cases:" + f, c)
        ctx.count("filters_exercised_min_cases", min(per_filter.values()))
        for f, c in strict_per_filter.items():
            ctx.count("fold_strict:" + f, c)
    finally:
        rig.close()


def replay(ctx, case):
    rig = F.Rig()
    try:
        run_case(ctx, rig, case, count=False)
    finally:
        rig.close()
