"""C16 — autoescaping escapes each value exactly once (differential on/off)."""
from __future__ import annotations

import html

from vt import util
from vt.gen import corpus, jast, stmtgen

PID = "C16"
LEVEL = "exploration"
TECHNIQUE = "differential monitor: the same program rendered with autoescape on and off by the real engine; html.unescape(on) must equal off"
RULE = ("generated programs (expressions, statement programs with macros / call blocks / set blocks, "
        "inheritance chains with super/self, include/import sets), restricted to escaping-, length- "
        "and position-neutral filters, rendered with data and literals containing < > & \" ' under "
        "autoescape on and off (sync; every 4th case also async); oracle html.unescape(on) == off or "
        "same exception class. distinct = program shapes whose autoescape-on output actually "
        "contains an escaped entity")
LEVEL_TEXT = "held on the generated programs only"
ASSUMPTIONS = [
    "no filter block with upper/lower (case-changing a rendered fragment alters entity names)",
    "no length/slice/truncate/replace applied to rendered fragments",
]
NSHARDS = {"quick": 16, "thorough": 16}
BUDGET_S = {"quick": 20, "thorough": 500}
FLOORS = {
    # quick floors leave room for a ten times slower (heavily loaded) machine
    "quick": {"evaluations": 2500, "distinct": 250,
              "counters": {"outputs_with_entities": 300, "via_macro": 100, "via_setblock": 50,
                           "via_super_or_self": 60, "via_include": 60, "via_import_macro": 50,
                           "fragment_through_filter": 10, "plain_tilde_fragment": 8,
                           "local_autoescape_block_renders": 500,
                           "loop_exit_through_inner_autoescape_block": 25,
                           "evalctx_filter_by_name_via_map": 10, "fragment_as_join_delimiter": 10,
                           "directed_neutral_filter_on_fragment": 50}},
    "thorough": {"evaluations": 50000, "distinct": 6000,
                 "counters": {"outputs_with_entities": 16000, "via_macro": 2000, "via_setblock": 1000,
                              "via_super_or_self": 2000, "via_include": 2000, "via_import_macro": 1000,
                              "fragment_through_filter": 600, "plain_tilde_fragment": 600,
                              "local_autoescape_block_renders": 10000,
                              "loop_exit_through_inner_autoescape_block": 1200,
                              "evalctx_filter_by_name_via_map": 400, "fragment_as_join_delimiter": 400,
                              "directed_neutral_filter_on_fragment": 50}},
}

# every value has a raw metacharacter (over-escaping shows) AND entity-like text
# (under-escaping shows: unescape(raw value) != value)
HOT = ["a<b&amp;", "x&y&lt;", '"q"&gt;', "'s'&#39;", "<b>&amp;</b>", "1<2>0&quot;", "&lt;<"]


def heat(case, rng):
    """Put HTML metacharacters into the data of a generated case."""
    d = case["data"]
    k = case["kind"]
    if k == "expr":
        r = d["$expr"]
        r["s1"] = rng.choice(HOT)
        r["s2"] = rng.choice(HOT + ["b"])
        r["ls"] = [rng.choice(HOT + ["a"]) for _ in range(rng.randint(0, 3))]
    elif k == "stmt":
        for n in stmtgen.POOL:
            if rng.random() < 0.7:
                d[n] = rng.choice(HOT)
    elif k == "inherit":
        d["item"] = rng.choice(HOT)
        d["x"] = rng.choice(HOT)
    elif k == "incimp":
        d["p"] = rng.choice(HOT)
        d["q"] = rng.choice(HOT)
        case["globals"]["g"] = rng.choice(HOT)
    return case


def contains_block(st):
    found = []
    jast.walk_stmts([st], lambda x: found.append(1) if x[0] == "block" else None)
    return bool(found)


def localize(body, flag, split_macros=False):
    """Switch escaping on LOCALLY: wrap runs of statements in {% autoescape flag %}.  A block is
    never put inside an autoescape block (blocks inside autoescape blocks are a recorded C15
    finding); block bodies are wrapped from the inside instead."""
    out, run = [], []

    def flush():
        if run:
            out.append(["autoescape", flag, list(run)])
            del run[:]

    for st in body:
        k = st[0]
        if k == "extends" or (k == "if" and any(x[0] == "extends" for _, b in st[1] for x in b)):
            flush()
            out.append(st)
        elif k == "block":
            flush()
            out.append(["block", st[1], localize(st[2], flag, split_macros), st[3], st[4]])
        elif k == "macro" and split_macros:
            # an autoescape block is a scope of its own: a macro defined inside one run would be
            # invisible in the next; keep the definition outside, switch escaping on in its body
            flush()
            out.append(["macro", st[1], st[2], localize(st[3], flag, split_macros)])
        elif contains_block(st):
            flush()
            st = list(st)
            if k == "if":
                st[1] = [[c, localize(b, flag, split_macros)] for c, b in st[1]]
                st[2] = None if st[2] is None else localize(st[2], flag, split_macros)
            elif k == "for":
                st[3] = localize(st[3], flag, split_macros)
                st[4] = None if st[4] is None else localize(st[4], flag, split_macros)
            elif k == "with":
                st[2] = localize(st[2], flag, split_macros)
            out.append(st)
        else:
            run.append(st)
    flush()
    return out


def _map_bodies(st, f):
    k = st[0]
    st = list(st)
    if k == "if":
        st[1] = [[c, f(b)] for c, b in st[1]]
        st[2] = None if st[2] is None else f(st[2])
    elif k == "for":
        st[3] = f(st[3])
        st[4] = None if st[4] is None else f(st[4])
    elif k in ("setblock", "with", "block", "autoescape"):
        st[2] = f(st[2])
    elif k in ("macro", "callblock", "filterblock"):
        st[3] = f(st[3])
    return st


def wrap_exits(body, seen):
    """Every `{% if c %}{% break|continue %}{% endif %}` gets its own inner
    `{% autoescape false %}` region that prints nothing: the loop is then left THROUGH an
    autoescape block, and the enclosing region must still escape what follows."""
    out = []
    for st in body:
        if (st[0] == "if" and st[2] is None and len(st[1]) == 1
                and len(st[1][0][1]) == 1 and st[1][0][1][0][0] in ("break", "continue")):
            seen.append(1)
            # the condition is evaluated outside (an autoescape block is a scope; reading program
            # variables from a new nested scope would run into the recorded C03 late-store finding)
            out.append(["set", "xq", st[1][0][0]])
            out.append(["autoescape", ["const", False], [["if", [[["name", "xq"], st[1][0][1]]], None]]])
        else:
            out.append(_map_bodies(st, lambda b: wrap_exits(b, seen)))
    return out


def render_local(case, runtime_flag, is_async, seen=None):
    """Environment autoescape OFF, escaping switched on inside the templates."""
    flag = ["name", "aeflag"] if runtime_flag else ["const", True]
    c2 = dict(case)
    seen = [] if seen is None else seen
    c2["asts"] = {n: localize(wrap_exits(b, seen), flag, case["kind"] == "inherit")
                  for n, b in case["asts"].items()}
    env = corpus.make_env(c2, autoescape=False, enable_async=is_async)

    def f():
        d = corpus.realize_data(c2, env)
        d["aeflag"] = True
        return env.get_template(c2["main"]).render(d)
    return util.capture(f), c2


def render(case, autoescape, is_async):
    env = corpus.make_env(case, autoescape=autoescape, enable_async=is_async)
    return util.capture(lambda: env.get_template(case["main"]).render(corpus.realize_data(case, env)))


def check_case(ctx, case, is_async):
    on = render(case, True, is_async)
    off = render(case, False, is_async)
    ctx.ev(2)
    bad = None
    if on.ok and off.ok:
        if html.unescape(on.value) != off.value:
            bad = f"unescape(on)={html.unescape(on.value)!r} != off={off.value!r} (on={on.value!r})"
        if "&lt;" in on.value or "&amp;" in on.value or "&#3" in on.value or "&gt;" in on.value:
            ctx.count("outputs_with_entities")
            ctx.dist(corpus.shape(case))
    elif not on.ok and not off.ok:
        if type(on.exc) is not type(off.exc):
            bad = f"on {on!r} / off {off!r}"
    else:
        bad = f"on {on!r} / off {off!r}"
    if not bad and on.ok and off.ok and case["kind"] in ("stmt", "expr", "loop", "inherit"):
        for runtime_flag in (False, True):
            seen = []
            lo, c2 = render_local(case, runtime_flag, is_async, seen)
            ctx.ev()
            ctx.count("local_autoescape_block_renders")
            if seen:
                ctx.count("loop_exit_through_inner_autoescape_block")
            ok = lo.ok and html.unescape(lo.value) == off.value
            if not ok:
                mode = "runtime-flag" if runtime_flag else "static"
                ctx.violation("escape-once:local-autoescape-block:" + mode + ":" + case["kind"],
                              f"environment autoescape off + {{% autoescape {'flag' if runtime_flag else 'true'} %}} regions: "
                              f"{lo!r}; unescaped once it must equal the autoescape-off render {off.value!r} | "
                              f"sources={corpus.sources(c2)}", {"case": case, "async": is_async})
                break
    if bad:
        srcs = corpus.sources(case)
        feats = sorted(f for f in ("macro", "call ", "set ", "super()", "self.", "include", "import", "filter ")
                       if any(("{% " + f in s) or (f in s and f in ("super()", "self.")) for s in srcs.values()))
        ctx.violation("escape-once:" + "+".join(x.strip() for x in feats), f"{bad} | sources={srcs}",
                      {"case": case, "async": is_async})


def feature_counters(ctx, case):
    srcs = corpus.sources(case)
    allsrc = " ".join(srcs.values())
    if "{% macro" in allsrc:
        ctx.count("via_macro")
    if "endset" in allsrc:
        ctx.count("via_setblock")
    if "super()" in allsrc or "self." in allsrc:
        ctx.count("via_super_or_self")
    if "{% include" in allsrc:
        ctx.count("via_include")
    if "{% import" in allsrc or "{% from" in allsrc:
        ctx.count("via_import_macro")
    if "{% call" in allsrc:
        ctx.count("via_callblock")
    if ")|lower" in allsrc or ")|string" in allsrc or ")|trim" in allsrc:
        ctx.count("fragment_through_filter")
    if " ~ m" in allsrc or " ~ caller(" in allsrc:
        ctx.count("plain_tilde_fragment")
    if "|map('join'" in allsrc:
        ctx.count("evalctx_filter_by_name_via_map")
    if "'&amp;']|join(" in allsrc:
        ctx.count("fragment_as_join_delimiter")


def directed_cases():
    """Every escaping-neutral filter (plain and with its rarely given arguments) applied to every
    kind of already rendered, markup-safe fragment whose content is data with metacharacters."""
    N = lambda n: ["name", n]      # noqa: E731
    C = lambda v: ["const", v]     # noqa: E731
    T = lambda s: ["text", s]      # noqa: E731
    filters = [("lower", [], []), ("string", [], []), ("trim", [], []), ("trim", [C(" \n")], []),
               ("trim", [], [["chars", C(" ")]]), ("default", [C("-")], []), ("default", [C("-"), C(True)], []),
               ("d", [], []), ("indent", [C(0)], []), ("center", [C(1)], []), ("replace", [C("zq"), C("y")], []),
               ("safe", [], [])]
    inner = [T("<"), ["out", N("hd")], T(">")]
    out = []
    for fi, (f, a, kw) in enumerate(filters):
        F = lambda e: ["filter", e, f, a, kw]   # noqa: E731,B023
        bodies = {
            "macro-result": [["macro", "dm", [], inner], ["out", F(["call", N("dm"), [], []])]],
            "caller-result": [["macro", "dw", [], [["out", F(["call", N("caller"), [], []])]]],
                              ["callblock", [], ["call", N("dw"), [], []], inner]],
            "set-block-value": [["setblock", "sb", inner], ["out", F(N("sb"))]],
            "set-block-via-tilde": [["setblock", "sb", inner], ["out", ["bin", "~", F(N("sb")), C("<t>")]]],
            "macro-result-in-list-join": [["macro", "dm", [], inner],
                                          ["out", ["filter", ["list", [F(["call", N("dm"), [], []]), C("<x>")]],
                                                   "join", [C(",")], []]]],
        }
        for bi, (bname, body) in enumerate(bodies.items()):
            out.append({"kind": "stmt", "asts": {"main": body}, "main": "main",
                        "data": {"hd": HOT[(fi + bi) % len(HOT)]}, "globals": {},
                        "directed": f + ("(args)" if a or kw else "") + ":" + bname})
    return out


def run(ctx):
    for i, case in enumerate(directed_cases()):
        if ctx.mine(i):
            ctx.count("directed_neutral_filter_on_fragment")
            check_case(ctx, case, is_async=bool(i % 2))
    rng = ctx.rng("c16")
    opts = stmtgen.Opts(filterblocks=False, fragfilters=True)
    n = 1500 if ctx.tier == "quick" else 40000
    i = 0
    while ctx.more(i, n, floor=80):
        case = heat(corpus.gen_case(rng, stmt_opts=opts), rng)
        feature_counters(ctx, case)
        check_case(ctx, case, is_async=(i % 4 == 3))
        if i < 2:
            ctx.sample({"sources": corpus.sources(case), "data": case["data"]})
        i += 1


def replay(ctx, case):
    check_case(ctx, case["case"], case.get("async", False))
