"""C10 — all rendering entry points produce the same text; buffering rule."""
from __future__ import annotations

import io
import os
import shutil
import tempfile

from vt import util
from vt.gen import corpus, jast

PID = "C10"
LEVEL = "exploration"
TECHNIQUE = "differential monitor over entry points of the real engine + chunking oracle computed from the unbuffered piece sequence"
RULE = ("generated programs (expressions, statement programs, inheritance chains, include/import "
        "sets; non-ASCII text added) rendered through render, generate, stream (unbuffered and "
        "buffered n=2..8), dump to a path / text file / binary file with encoding / object without "
        "writelines, and str(make_module(vars)); all must equal render() (or raise the same class); "
        "buffered chunks must equal concat(nonempty[i:i+n]) of the unbuffered pieces; streams whose "
        "buffering is switched (other size / off / dump) after k chunks were read must still "
        "concatenate to render(). Configurations: a third of the programs run with output escaping on "
        "(Environment(autoescape=True), or the body inside {% autoescape true %}) and with markup-significant "
        "characters (< > & quotes, ready-made entities) in every template text, so that generate() yields "
        "str-subclass (Markup) pieces next to plain str pieces and buffered chunks combine both kinds. distinct = "
        "distinct program shapes that produced >= 3 pieces")
LEVEL_TEXT = "held on the generated programs and buffer sizes only"
ASSUMPTIONS = ["encodings utf-8 and utf-16 only", "data is not mutated between entry points (fresh iterators per call)"]
NSHARDS = {"quick": 16, "thorough": 16}
BUDGET_S = {"quick": 20, "thorough": 500}
FLOORS = {
    "quick": {"evaluations": 3000, "distinct": 300,
              "counters": {"buffer_rule_checks": 1500, "dump_checks": 800, "with_empty_pieces": 100,
                           "module_checks": 200, "module_history_steps": 300,
                           "buffer_switch_histories": 400, "dump_error_handler_checks": 800,
                           "escaping_cases": 200, "mixed_kind_chunks": 4500}},
    "thorough": {"evaluations": 60000, "distinct": 5000,
                 "counters": {"buffer_rule_checks": 30000, "dump_checks": 16000,
                              "with_empty_pieces": 2000, "module_checks": 4000, "module_history_steps": 6000,
                              "buffer_switch_histories": 8000, "dump_error_handler_checks": 16000,
                              "escaping_cases": 4000, "mixed_kind_chunks": 90000}},
}


class WriteOnly:
    def __init__(self):
        self.parts = []

    def write(self, s):
        self.parts.append(s)


def outcome_key(o):
    return ("ok", o.value) if o.ok else ("exc", type(o.exc).__name__)


MARKUP_CHARS = "<>&'\""


def is_safe_piece(p):
    """A piece that declares itself as markup through the documented __html__ protocol."""
    return hasattr(p, "__html__")


def check_case(ctx, case, tmpdir, is_async=False):
    kw = {"autoescape": True} if case.get("autoescape") else {}
    env = corpus.make_env(case, enable_async=is_async, **kw)
    data = lambda: corpus.realize_data(case, env)
    get = lambda: env.get_template(case["main"])
    base = util.capture(lambda: get().render(data()))
    ctx.ev()
    viol = lambda key, what: ctx.violation(key, what + f" | sources={corpus.sources(case)}",
                                           {"case": case, "async": is_async})
    pieces_o = util.capture(lambda: list(get().generate(data())))
    ctx.ev()
    if base.ok != pieces_o.ok or (not base.ok and type(base.exc) is not type(pieces_o.exc)):
        viol("entry:generate", f"render {base!r} vs generate {pieces_o!r}")
        return
    if not base.ok:
        ctx.count("render_raises")
        # stream/dump must raise the same class
        so = util.capture(lambda: list(get().stream(data())))
        if so.ok or type(so.exc) is not type(base.exc):
            viol("entry:stream-error", f"render {base!r} vs stream {so!r}")
        return
    text = base.value
    pieces = pieces_o.value
    if "".join(pieces) != text:
        viol("entry:generate", f"generate concat {''.join(pieces)!r} != render {text!r}")
        return
    nonempty = [p for p in pieces if p]
    if len(pieces) != len(nonempty):
        ctx.count("with_empty_pieces")
    if len(nonempty) >= 3:
        ctx.dist(corpus.shape(case) + [case.get("escaping")])
    # reach of the mixed-kind class: pieces of both kinds in this run, and buffered chunks that have to
    # combine a markup piece with a plain piece that carries markup-significant characters
    kinds = [is_safe_piece(p) for p in nonempty]
    if any(kinds):
        ctx.count("escaping_cases")
        plain_sig = [not k and any(ch in p for ch in MARKUP_CHARS) for k, p in zip(kinds, nonempty)]
        for n in range(2, 9):
            for i in range(0, len(nonempty), n):
                if any(kinds[i:i + n]) and any(plain_sig[i:i + n]):
                    ctx.count("mixed_kind_chunks")
    # unbuffered stream
    st = list(get().stream(data()))
    ctx.ev()
    if "".join(st) != text:
        viol("entry:stream", f"stream concat != render: {st!r} vs {text!r}")
    # buffered
    for n in range(2, 9):
        s = get().stream(data())
        s.enable_buffering(n)
        chunks = list(s)
        ctx.ev()
        ctx.count("buffer_rule_checks")
        exp = ["".join(nonempty[i:i + n]) for i in range(0, len(nonempty), n)]
        if chunks != exp:
            viol("buffering:size-rule", f"n={n} chunks {chunks!r} != expected {exp!r} (pieces {pieces!r})")
            break
    # disable_buffering returns to piecewise
    s = get().stream(data())
    s.enable_buffering(3)
    s.disable_buffering()
    if list(s) != pieces:
        viol("buffering:disable", "disable_buffering() does not restore unbuffered pieces")
    # switching the buffering mode in the middle of a stream loses and duplicates nothing
    for n, k, m in ((2, 1, 0), (3, 1, 2), (2, 2, 5), (4, 1, 0), (3, 2, 3)):
        if len(nonempty) < n * k + 1:
            continue
        s = get().stream(data())
        s.enable_buffering(n)
        got = [next(s) for _ in range(k)]
        if m:
            s.enable_buffering(m)
        else:
            s.disable_buffering()
        got += list(s)
        ctx.ev()
        ctx.count("buffer_switch_histories")
        rest = nonempty[n * k:]
        exp = (["".join(nonempty[i * n:(i + 1) * n]) for i in range(k)]
               + (["".join(rest[i:i + m]) for i in range(0, len(rest), m)] if m else None or []))
        if m and got != exp:
            viol("buffering:size-rule-after-switch",
                 f"enable_buffering({n}), {k} chunk(s) read, then enable_buffering({m}): chunks {got!r}, "
                 f"expected the rest in groups of {m}: {exp!r}")
            break
        if "".join(got) != text:
            viol("buffering:switch-mid-stream",
                 f"enable_buffering({n}), {k} chunk(s) read, then "
                 f"{'enable_buffering(%d)' % m if m else 'disable_buffering()'}: chunks {got!r} "
                 f"do not concatenate to render() {text!r} (pieces {pieces!r})")
            break
    # a buffered stream dumped after some chunks were read writes exactly the rest
    if len(nonempty) >= 3:
        s = get().stream(data())
        s.enable_buffering(2)
        first = next(s)
        buf = io.StringIO()
        s.dump(buf)
        ctx.count("buffer_switch_histories")
        if first + buf.getvalue() != text:
            viol("buffering:dump-after-read", f"next() + dump() gives {first + buf.getvalue()!r} != {text!r}")
    # dump targets
    path = os.path.join(tmpdir, "out.txt")
    for enc in ("utf-8", "utf-16"):
        get().stream(data()).dump(path, encoding=enc)
        ctx.count("dump_checks")
        ctx.ev()
        with open(path, "rb") as f:
            got = f.read().decode(enc)
        if got != text:
            viol("dump:path:" + enc, f"dump(path, {enc}) wrote {got!r} != {text!r}")
    buf = io.StringIO()
    get().stream(data()).dump(buf)
    ctx.count("dump_checks")
    if buf.getvalue() != text:
        viol("dump:textfile", f"dump(StringIO) {buf.getvalue()!r} != {text!r}")
    bbuf = io.BytesIO()
    get().stream(data()).dump(bbuf, encoding="utf-8")
    ctx.count("dump_checks")
    if bbuf.getvalue().decode("utf-8") != text:
        viol("dump:binaryfile", f"dump(BytesIO, utf-8) {bbuf.getvalue()!r} != {text!r}")
    # encodings that cannot represent the text, with every error handler the caller may pass
    for enc, errors in (("ascii", "xmlcharrefreplace"), ("ascii", "replace"), ("ascii", "ignore"),
                        ("latin-1", "backslashreplace"), ("ascii", "strict")):
        bb = io.BytesIO()
        r = util.capture(lambda: get().stream(data()).dump(bb, encoding=enc, errors=errors))
        want = util.capture(lambda: text.encode(enc, errors))
        ctx.count("dump_checks")
        ctx.count("dump_error_handler_checks")
        if want.ok != r.ok or (want.ok and bb.getvalue() != want.value) or \
                (not want.ok and type(r.exc) is not type(want.exc)):
            viol("dump:encoding-errors:" + errors,
                 f"dump(BytesIO, {enc!r}, {errors!r}) -> {r!r} / {bb.getvalue()[:80]!r}; "
                 f"render().encode({enc!r}, {errors!r}) -> {want!r}")
            break
    wo = WriteOnly()
    get().stream(data()).dump(wo)
    ctx.count("dump_checks")
    if "".join(wo.parts) != text:
        viol("dump:writeonly", f"dump(object without writelines) {wo.parts!r} != {text!r}")
    for enc in ("utf-8", "utf-16"):
        wo = WriteOnly()
        r = util.capture(lambda: get().stream(data()).dump(wo, encoding=enc))
        ctx.count("dump_checks")
        if not r.ok:
            viol("dump:writeonly-encoded", f"encoded dump({enc}) to an object without writelines raised {r!r}")
        elif not all(isinstance(x, bytes) for x in wo.parts):
            viol("dump:writeonly-encoded", f"encoded dump({enc}) wrote non-bytes pieces {[type(x).__name__ for x in wo.parts[:4]]}")
        elif b"".join(wo.parts).decode(enc) != text:
            viol("dump:writeonly-encoded", f"encoded dump({enc}) to object without writelines differs")
    # module
    if not is_async:
        mo = util.capture(lambda: str(get().make_module(data())))
        ctx.count("module_checks")
        ctx.ev()
        if not mo.ok or mo.value != text:
            viol("module:str", f"str(make_module(vars)) {mo!r} != render {text!r}")
        # entry points stay in agreement across a history: the default module gets cached
        # (template.module, imports), then a global the template reads changes
        t = get()
        seq = []
        for step in range(3):
            a = util.capture(lambda: t.render())
            b = util.capture(lambda: str(t.make_module()))
            c = util.capture(lambda: "".join(t.generate()))
            d = util.capture(lambda: str(t.module)) if step == 0 else None
            ctx.ev(3)
            ctx.count("module_history_steps")
            if not (outcome_key(a) == outcome_key(b) == outcome_key(c)):
                viol("module:stale-after-global-change" if step else "module:no-vars",
                     f"step {step}: render() {a!r} / str(make_module()) {b!r} / generate {c!r}")
                break
            # change every global the set of templates may read
            for gname in list(env.globals):
                if isinstance(env.globals[gname], str):
                    env.globals[gname] = env.globals[gname] + f"#{step}"
            env.globals["g"] = f"G{step}"
            t.globals["p"] = f"tp{step}"


def add_unicode(case):
    main = "t0" if case["kind"] == "inherit" else case["main"]
    case["asts"][main] = [["text", "ü✓"]] + case["asts"][main]
    return case


MARKUP_TEXTS = ["<b>", "</b>", " & ", "&amp;", "<a href=\"x\">", "'q'", "<br/>", "&lt;i&gt;", "\"", " > "]


def add_markup(case, rng, mode):
    """Output-escaping configuration: every template text gets markup-significant characters and escaping
    is switched on, through the environment option ('env') or an {% autoescape true %} block around the
    body ('block'; single-template programs only, otherwise the environment option)."""
    def deco(st):
        if st[0] == "text":
            st[1] = st[1] + MARKUP_TEXTS[rng.randrange(len(MARKUP_TEXTS))]
    for name in sorted(case["asts"]):
        jast.walk_stmts(case["asts"][name], deco)
    if mode == "block" and len(case["asts"]) == 1:
        main = case["main"]
        case["asts"][main] = [["text", "<p>"], ["autoescape", ["const", True], case["asts"][main]], ["text", "</p>"]]
        case["escaping"] = "block"
    else:
        case["autoescape"] = True
        case["escaping"] = "env"
    return case


def run(ctx):
    rng = ctx.rng("c10")
    rng_m = ctx.rng("c10-markup")
    tmpdir = tempfile.mkdtemp(prefix="vt_c10_")
    try:
        n = 800 if ctx.tier == "quick" else 20000
        i = 0
        while ctx.more(i, n, floor=60):
            case = add_unicode(corpus.gen_case(rng))
            if i % 3 == 1:
                case = add_markup(case, rng_m, "block" if i % 6 == 1 else "env")
            check_case(ctx, case, tmpdir, is_async=(i % 5 == 4))
            ctx.count("kind_" + case["kind"])
            if case.get("escaping"):
                ctx.count("escaping_" + case["escaping"])
            if i < 2:
                ctx.sample({"sources": corpus.sources(case), "main": case["main"]})
            i += 1
    finally:
        shutil.rmtree(tmpdir, ignore_errors=True)


def replay(ctx, case):
    tmpdir = tempfile.mkdtemp(prefix="vt_c10_")
    try:
        check_case(ctx, case["case"], tmpdir, case.get("async", False))
    finally:
        shutil.rmtree(tmpdir, ignore_errors=True)
