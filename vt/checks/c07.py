"""C07 — loop variable state for every iterable form and query pattern."""
from __future__ import annotations

import itertools

from vt import util
from vt.gen import jast
from vt.gen.stmtgen import C, N, F
from vt.model import interp as M

PID = "C07"
LEVEL = "exploration"
TECHNIQUE = "reference loop-state model over exhaustively enumerated (iterable form, length, query script) triples"
RULE = ("lengths 0-6 x {list, tuple, iter(list), generator, unsized iterable, async generator} x "
        "query scripts: every ordered sequence of <=3 queries over {index,index0,revindex,revindex0,"
        "first,last,length,previtem,nextitem} (+ cycle/changed/depth probes), the script optionally "
        "differing between first / middle / last iterations, with and without loop filters and else; "
        "loop.cycle argument patterns: every call shape {literal args, one context variable per arg, "
        "*args from a context list} x arity 1 (every value kind: str, int, none, bool, non-empty/one-element/"
        "empty list, tuple, empty tuple, dict, nested list) and arity 2 (all ordered pairs of six kinds), "
        "arity 3-4 sampled, oracle args[index0 % len(args)]; "
        "recursive loops over random trees; rendered text compared with vt.model.interp.MLoop computed "
        "from the materialised list. distinct = (form, length, script, filter) tuples whose script "
        "queries a look-ahead attribute (revindex*, last, length, nextitem) on a non-sized form, or any "
        "tuple with a filter / recursion, or a cycle argument pattern on a non-empty iterable")
LEVEL_TEXT = "exhaustive for the uniform scripts; sampled for per-iteration-varying scripts and recursive trees"
ASSUMPTIONS = ["items are small ints; the loop body never mutates the iterable"]
NSHARDS = {"quick": 16, "thorough": 16}
BUDGET_S = {"quick": 25, "thorough": 600}
FLOORS = {
    "quick": {"evaluations": 30000, "distinct": 8000,
              "counters": {"lookahead_on_iterator": 5000, "else_taken": 1000, "filtered": 2000,
                           "recursive": 100, "recursive_in_recursive": 15, "async_iterable": 1000, "wrapped_queries": 300,
                           "iterables_with_undefined_elements": 30,
                           "cycle_arg_patterns": 1500, "cycle_container_args": 1100, "cycle_single_arg": 450}},
    "thorough": {"evaluations": 300000, "distinct": 60000,
                 "counters": {"lookahead_on_iterator": 50000, "else_taken": 10000, "filtered": 20000,
                              "recursive": 2000, "recursive_in_recursive": 300, "async_iterable": 10000, "wrapped_queries": 3000,
                              "iterables_with_undefined_elements": 1000,
                              "cycle_arg_patterns": 3000, "cycle_container_args": 2000, "cycle_single_arg": 700}},
}

ATTRS = ["index", "index0", "revindex", "revindex0", "first", "last", "length", "previtem", "nextitem"]
LOOKAHEAD = {"revindex", "revindex0", "last", "length", "nextitem"}
FORMS = ["list", "tuple", "iter", "gen", "unsized", "agen"]


class Unsized:
    def __init__(self, xs):
        self.xs = xs

    def __iter__(self):
        return iter(list(self.xs))


def with_undefined(xs):
    """Replace the marker -1 by an undefined object of the engine."""
    import jinja2

    return [jinja2.Undefined(name="hole") if x == -1 else x for x in xs]


def make_iterable(form, xs):
    xs = with_undefined(xs)
    if form == "list":
        return list(xs)
    if form == "tuple":
        return tuple(xs)
    if form == "iter":
        return iter(list(xs))
    if form == "gen":
        return (x for x in list(xs))
    if form == "unsized":
        return Unsized(xs)
    if form == "agen":
        async def ag():
            for x in list(xs):
                yield x
        return ag()
    raise ValueError(form)


# ---- loop.cycle argument patterns -------------------------------------------------------------
# A query token "cycle~<shape>~<kind>,<kind>,..." calls loop.cycle with one argument per kind.
# shape: lit = arguments written as literals in the template, var = one context variable per
# argument, star = loop.cycle(*cargs) with cargs a context list holding the arguments.
# The oracle is the documented formula args[index0 % len(args)] (vt.model.interp.MLoop.cycle),
# whatever the type of the individual arguments.
CYCLE_VALUES = {
    "str": "a", "str2": "xy", "int": 4, "none": None, "bool": True,
    "list": ["r", "g", "b"], "list1": ["q"], "elist": [],
    "tuple": ("odd", "even"), "etuple": (), "dict": {"k": 1}, "nested": [["n", "m"], "o"],
}
CYCLE_KINDS = list(CYCLE_VALUES)
CYCLE_KINDS_PAIR = ["str", "int", "none", "list", "tuple", "elist"]
CYCLE_SHAPES = ["lit", "var", "star"]
_COARSE = {"list": "seq", "list1": "seq", "tuple": "seq", "nested": "seq", "elist": "emptyseq",
           "etuple": "emptyseq", "dict": "mapping"}


def cycle_token(shape, kinds):
    return "cycle~" + shape + "~" + ",".join(kinds)


def cycle_parts(a):
    _, shape, kinds = a.split("~")
    return shape, kinds.split(",")


def is_cycle_token(a):
    return a.startswith("cycle~")


def value_expr(v):
    if isinstance(v, list):
        return ["list", [value_expr(x) for x in v]]
    if isinstance(v, tuple):
        return ["tuple", [value_expr(x) for x in v]]
    if isinstance(v, dict):
        return ["dict", [[value_expr(k), value_expr(x)] for k, x in v.items()]]
    return C(v)


def cycle_context(scripts):
    """Context variables needed by the cycle tokens of the scripts (fresh objects every call)."""
    import copy

    out = {}
    for s in scripts:
        for a in s:
            if not is_cycle_token(a):
                continue
            shape, kinds = cycle_parts(a)
            if shape == "var":
                for kd in kinds:
                    out["cv_" + kd] = copy.deepcopy(CYCLE_VALUES[kd])
            elif shape == "star":
                out["ca_" + "_".join(kinds)] = [copy.deepcopy(CYCLE_VALUES[kd]) for kd in kinds]
    return out


def cycle_class(scripts):
    """Coarse mechanism class of the cycle argument patterns in the scripts, for violation keys."""
    cls = []
    for s in scripts:
        for a in s:
            if is_cycle_token(a):
                shape, kinds = cycle_parts(a)
                c = f"{len(kinds)}," + "+".join(sorted({_COARSE.get(kd, "scalar") for kd in kinds}))
                if c not in cls:
                    cls.append(c)
    return sorted(cls)


def q_expr(a):
    if is_cycle_token(a):
        shape, kinds = cycle_parts(a)
        if shape == "lit":
            args = [value_expr(CYCLE_VALUES[kd]) for kd in kinds]
        elif shape == "var":
            args = [N("cv_" + kd) for kd in kinds]
        else:
            args = [["star", N("ca_" + "_".join(kinds))]]
        return ["call", ["attr", N("loop"), "cycle"], args, []]
    if a in ("previtem", "nextitem"):
        return F(["attr", N("loop"), a], "default", C("U"))
    if a == "cycle":
        return ["call", ["attr", N("loop"), "cycle"], [C("a"), C("b"), C("c")], []]
    if a == "changed":
        return ["call", ["attr", N("loop"), "changed"], [["bin", "//", N("x"), C(2)]], []]
    if a == "changed0":
        # no values at all: still "true when called for the first time"
        return ["call", ["attr", N("loop"), "changed"], [], []]
    if a == "changed2":
        return ["call", ["attr", N("loop"), "changed"], [["bin", "//", N("x"), C(3)], C("k")], []]
    if a == "changedstar":
        return ["call", ["attr", N("loop"), "changed"], [["star", ["list", []]]], []]
    return ["attr", N("loop"), a]


def script_stmts(script):
    out = []
    for a in script:
        out += [["out", q_expr(a)], ["text", "|"]]
    return out


WRAPS = [None, "if", "with", "setblock", "filterblock", "callblock", "nested", "scopedblock", "if-scopedblock", "with-scopedblock"]


def wrap_stmts(inner, wrap):
    """Put the loop-attribute queries inside another construct, so that the
    only references to `loop` in the loop body are nested in it."""
    if wrap is None:
        return inner
    if wrap == "if":
        return [["if", [[["const", True], inner]], None]]
    if wrap == "with":
        return [["with", [["wv", C(1)]], inner]]
    if wrap == "setblock":
        return [["setblock", "sb", inner], ["out", N("sb")]]
    if wrap == "filterblock":
        return [["filterblock", "trim", [], inner]]
    if wrap == "callblock":
        return [["callblock", [], ["call", N("wrapmacro"), [], []], inner]]
    if wrap == "scopedblock":
        return [["block", "lb", inner, True, False]]
    if wrap == "if-scopedblock":
        return [["if", [[["const", True], [["block", "lb", inner, True, False]]]], None]]
    if wrap == "with-scopedblock":
        return [["with", [["wv", C(1)]], [["block", "lb", inner, True, False]]]]
    if wrap == "nested":
        return [["if", [[["const", True], [["callblock", [], ["call", N("wrapmacro"), [], []],
                                              [["with", [["wv", C(1)]], inner]]]]]], None]]
    raise ValueError(wrap)


def loop_ast(scripts, filt, with_else, wrap=None):
    """scripts: one script (uniform) or three (first, middle, last-by-counter)."""
    if len(scripts) == 1:
        inner = wrap_stmts(script_stmts(scripts[0]), wrap)
        pre = []
        if wrap in ("callblock", "nested"):
            pre = [["macro", "wrapmacro", [], [["out", ["call", N("caller"), [], []]]]]]
    else:
        pre = [["set", "ns", ["call", N("namespace"), [], [["i", C(0)]]]]]
        inner = [["if", [[["cmp", ["attr", N("ns"), "i"], [["==", C(0)]]], script_stmts(scripts[0])],
                         [["cmp", ["attr", N("ns"), "i"], [["==", C(1)]]], script_stmts(scripts[1])]],
                  script_stmts(scripts[2])],
                 ["setns", "ns", "i", ["bin", "+", ["attr", N("ns"), "i"], C(1)]]]
    body = [["text", "["]] + inner + [["text", ":"], ["out", N("x")], ["text", "]"]]
    f = None
    if filt == "odd":
        f = ["test", N("x"), "odd", [], False]
    elif filt == "gt":
        f = ["cmp", N("x"), [[">", N("k")]]]
    return pre + [["for", ["x"], N("seq"), body, [["text", "E"]] if with_else else None, f, False],
                  ["text", "."]]


_cache = {}


def get_templates(envs, key, body):
    t = _cache.get(key)
    if t is None:
        src = jast.ps(body)
        t = {n: e.from_string(src) for n, e in envs.items()}
        if len(_cache) > 3000:
            _cache.clear()
        _cache[key] = t
    return t


def check(ctx, envs, scripts, filt, with_else, form, xs, k=2, wrap=None):
    body = loop_ast(scripts, filt, with_else, wrap)
    key = (tuple(tuple(s) for s in scripts), filt, with_else, wrap)
    if wrap:
        ctx.count("wrapped_queries")
    tm = get_templates(envs, key, body)
    it = M.Interp({"t": body})
    mo = util.capture(lambda: it.render("t", dict(cycle_context(scripts), seq=with_undefined(list(xs)), k=k)))
    case = {"scripts": [list(s) for s in scripts], "filt": filt, "else": with_else, "form": form,
            "xs": list(xs), "k": k, "wrap": wrap}
    for en, t in tm.items():
        if form == "agen" and en != "async":
            continue
        eo = util.capture(lambda: t.render(dict(cycle_context(scripts), seq=make_iterable(form, xs), k=k)))
        ctx.ev()
        bad = None
        if mo.ok and eo.ok:
            if mo.value != eo.value:
                bad = f"engine {eo.value!r} != model {mo.value!r}"
        elif not (not mo.ok and not eo.ok and util.same_error(mo.exc, eo.exc)):
            bad = f"engine {eo!r} / model {mo!r}"
        if bad:
            la = sorted({a for s in scripts for a in s} & LOOKAHEAD)
            key2 = "loop:" + form + ":" + ("+".join(la) or "nolookahead") + (":filter" if filt else "") + \
                (":varying" if len(scripts) > 1 else "") + (":in-" + wrap if wrap else "") + \
                "".join(":cycle(" + c + ")" for c in cycle_class(scripts))
            ctx.violation(key2, f"{bad} | {jast.ps(body)!r} seq={list(xs)} form={form} env={en}", case)
    allq = {a for s in scripts for a in s}
    disted = False
    if form in ("iter", "gen", "unsized", "agen") and allq & LOOKAHEAD:
        ctx.count("lookahead_on_iterator")
        ctx.dist([form, len(xs), key[0], filt])
        disted = True
    elif filt:
        ctx.dist([form, len(xs), key[0], filt])
        disted = True
    cyc = [cycle_parts(a) for a in sorted(allq) if is_cycle_token(a)]
    if cyc and len(xs) > 0:
        # non-trivial only when the body runs at least once
        ctx.count("cycle_arg_patterns")
        if any(_COARSE.get(kd) for _, kinds in cyc for kd in kinds):
            ctx.count("cycle_container_args")
        if any(len(kinds) == 1 for _, kinds in cyc):
            ctx.count("cycle_single_arg")
        if not disted:
            ctx.dist([form, len(xs), key[0], filt])
    if form == "agen":
        ctx.count("async_iterable")
    if filt:
        ctx.count("filtered")
    if mo.ok and mo.value.endswith("E."):
        ctx.count("else_taken")


def recursive_case(ctx, envs, rng):
    def tree(d):
        return [{"v": rng.randint(0, 9), "c": tree(d - 1) if d > 0 and rng.random() < 0.7 else []}
                for _ in range(rng.randint(0, 3))]

    data = tree(3)
    q = rng.sample(["depth", "depth0", "index", "revindex", "first", "last", "length"], 3)
    inner = []
    if rng.random() < 0.35:
        # a recursive loop directly in the body of a recursive loop: each has its own `loop`
        ctx.count("recursive_in_recursive")
        inner = [["for", ["m"], ["attr", N("n"), "c"],
                  [["text", "<"], ["out", ["attr", N("m"), "v"]], ["out", ["attr", N("loop"), rng.choice(q)]],
                   ["out", ["call", N("loop"), [["attr", N("m"), "c"]], []]], ["text", ">"]],
                  None, None, True]]
    body = [["for", ["n"], N("tree"),
             [["text", "("], ["out", ["attr", N("n"), "v"]], ["text", ":"]]
             + sum([[["out", ["attr", N("loop"), a]], ["text", ","]] for a in q], [])
             + inner
             + [["out", ["call", N("loop"), [["attr", N("n"), "c"]], []]], ["text", ")"]],
             [["text", "E"]] if rng.random() < 0.5 else None, None, True]]
    src = jast.ps(body)
    it = M.Interp({"t": body})
    mo = util.capture(lambda: it.render("t", {"tree": data}))
    for en, e in envs.items():
        eo = util.capture(lambda: e.from_string(src).render(tree=data))
        ctx.ev()
        ctx.count("recursive")
        if not (mo.ok and eo.ok and mo.value == eo.value):
            ctx.violation("loop:recursive:" + "+".join(sorted(q)),
                          f"engine {eo!r} != model {mo!r} | {src!r}", {"recursive": body, "tree": data})
    ctx.dist(["rec", src, str(data)])


def run(ctx):
    envs = util.make_envs(["default", "async"])
    rng = ctx.rng("c07")
    quick = ctx.tier == "quick"
    # ---- exhaustive uniform scripts
    scripts = [()]
    for L in (1, 2, 3):
        scripts += list(itertools.product(ATTRS, repeat=L))
    idx = 0
    maxlen = 6
    for s in scripts:
        idx += 1
        if not ctx.mine(idx):
            continue
        for n in range(0, maxlen + 1):
            xs = [(7 * i + 3) % 10 for i in range(n)]
            forms = FORMS if (not quick or n in (0, 1, 2, 3, 6)) else ["gen", "list", "agen"]
            for form in forms:
                check(ctx, envs, [s], None, n % 2 == 0, form, xs)
        if ctx.elapsed() > ctx.budget_s * 2.5:
            ctx.inconc("uniform-script enumeration did not finish in 2.5x budget")
            return
    ctx.exhaustive = True
    # ---- every single query inside every wrapper construct
    j = 0
    for a in ATTRS + ["cycle", "changed", "changed0", "changed2", "changedstar", "depth"]:
        for wrap in WRAPS[1:]:
            j += 1
            if not ctx.mine(j):
                continue
            for n in (0, 1, 3):
                for form in ("list", "gen", "agen"):
                    check(ctx, envs, [(a,)], None, True, form, [(7 * i + 3) % 10 for i in range(n)], wrap=wrap)

    def rand_cycle_token():
        ar = rng.choice([1, 1, 2, 3, 4])
        return cycle_token(rng.choice(CYCLE_SHAPES), [rng.choice(CYCLE_KINDS) for _ in range(ar)])

    # ---- probes with cycle/changed/depth, filters, varying scripts (sampled)
    extra = ATTRS + ["cycle", "changed", "changed0", "changed2", "changedstar", "depth", "depth0"]
    n_rand = 1500 if quick else 60000
    i = 0
    while ctx.more(i, n_rand, floor=300):
        i += 1
        n = rng.randint(0, 6)
        xs = [rng.randint(0, 9) for _ in range(n)]
        form = rng.choice(FORMS)
        holes = False
        if n and rng.random() < 0.2:
            # some elements are undefined values: they are ordinary items for the loop
            for _ in range(rng.randint(1, 2)):
                xs[rng.randrange(n)] = -1
            holes = True
            ctx.count("iterables_with_undefined_elements")
        if rng.random() < 0.5:
            sc = [tuple(rng.choice(extra) for _ in range(rng.randint(0, 3)))]
            if rng.random() < 0.3:
                sc = [sc[0][:2] + (rand_cycle_token(),)]
                if rng.random() < 0.5:
                    sc = [sc[0][::-1]]
        else:
            sc = [tuple(rng.choice(ATTRS) for _ in range(rng.randint(0, 2))) for _ in range(3)]
            ctx.count("varying_scripts")
        filt = None if holes else rng.choice([None, "odd", "gt"])
        if holes:
            sc = [tuple(a for a in s_ if not a.startswith("changed")) for s_ in sc]
        wrap = rng.choice(WRAPS) if len(sc) == 1 and rng.random() < 0.5 else None
        check(ctx, envs, sc, filt, rng.random() < 0.6, form, xs, k=rng.randint(0, 9), wrap=wrap)
        if i % 10 == 0:
            recursive_case(ctx, envs, rng)
    # ---- loop.cycle argument patterns: every shape x arity 1 (all kinds) and arity 2 (pairs).
    # Enumerated completely (not time-boxed); placed after the sampled phase so that phase keeps its time.
    ctoks = [cycle_token(sh, [kd]) for sh in CYCLE_SHAPES for kd in CYCLE_KINDS]
    ctoks += [cycle_token(sh, [k1, k2]) for sh in CYCLE_SHAPES for k1 in CYCLE_KINDS_PAIR for k2 in CYCLE_KINDS_PAIR]
    for tok in ctoks:
        j += 1
        if not ctx.mine(j):
            continue
        for n in ((0, 1, 2, 3, 6) if quick else range(0, maxlen + 1)):
            xs = [(7 * i + 3) % 10 for i in range(n)]
            for form in FORMS:
                check(ctx, envs, [(tok,)], None, n % 2 == 0, form, xs)
        # together with a look-ahead query before / after the call, and inside a wrapper
        la = sorted(LOOKAHEAD)[j % len(LOOKAHEAD)]
        for sc_ in ((la, tok), (tok, la)):
            for form in ("gen", "agen", "list"):
                check(ctx, envs, [sc_], None, True, form, [3, 0, 7])
        check(ctx, envs, [(tok,)], None, True, ("list", "gen", "agen")[j % 3], [3, 0, 7, 4],
              wrap=WRAPS[1 + j % (len(WRAPS) - 1)])
    if ctx.shard == 0:
        ctx.sample({"template": jast.ps(loop_ast([("nextitem", "length", "index")], "odd", True)),
                    "seq": [3, 0, 7], "form": "gen"})


def replay(ctx, case):
    envs = util.make_envs(["default", "async"])
    if "recursive" in case:
        return
    check(ctx, envs, [tuple(s) for s in case["scripts"]], case["filt"], case["else"], case["form"],
          case["xs"], case["k"], case.get("wrap"))
