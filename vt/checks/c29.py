"""C29 — rendering is repeatable, side-effect free and thread-safe."""
from __future__ import annotations

import random
import sys
import threading
import time

from vt import util
from vt.gen import corpus, exprgen, jast

PID = "C29"
LEVEL = "exploration"
TECHNIQUE = "differential monitor against an isolated render + deep typed input fingerprints (generated programs and an enumerated filter x arguments x environment-flavour x container-value matrix); concurrent stress with sys.monitoring LINE-event yield injection inside jinja2 code"
RULE = ("generated programs (autoescape on for 40% of them) plus stateful templates (imported modules with "
        "module-level namespace / cycler / joiner, loop.changed, loop.cycle): (a) data, environment globals, "
        "template globals and policies deep-fingerprinted (values AND exact element classes: [1] != ['1'] != "
        "[Markup('1')]) before and after every render; (b) the same template rendered repeatedly, "
        "interleaved with the other templates of its set, must equal the render in a fresh isolated "
        "environment; (c) 8-16 threads render a shared pool of templates (also compiling them "
        "concurrently) with switch interval 1e-6 and random sleep(0) injected at LINE events of "
        "jinja2 code; every output must equal the isolated one; (d) filter matrix: EVERY filter registered "
        "in a default environment x 24 generic argument forms (none, container-valued data argument, numbers, "
        "strings, attribute names, test names, filter names, keyword forms) - result printed, consumed by "
        "|list and consumed by a loop - x 7 environment flavours (plain, autoescape, async, autoescape+async, "
        "sandboxed+autoescape, immutable sandbox, modified policies+autoescape) x 16 values (lists of "
        "numbers / strings / Markup / mixed scalars / nested lists / dicts / pairs / objects, tuples, set, "
        "dicts, str, int) supplied in rotation as render data, environment global or template global, "
        "fingerprinted before and after each render (most combinations raise: an execution as well). "
        "distinct = program shapes (a,b) + distinct thread-switch signatures (c) + (filter, argument form, "
        "flavour, value) combinations that rendered without error (d)")
LEVEL_TEXT = "held on the generated programs, orders, observed interleavings and the enumerated filter matrix only"
ASSUMPTIONS = ["data objects provide no mutating callables", "thread interleavings are sampled, not enumerated",
               "the filter matrix is statically partitioned over the shards; in the quick tier each shard runs at "
               "least half of its (filter, argument form) templates even when the time box is exceeded, and half "
               "of the values per (template, flavour)",
               "template.globals is the documented ChainMap view over the environment globals, so one fingerprint "
               "of it covers both in the matrix"]
NSHARDS = {"quick": 16, "thorough": 16}
BUDGET_S = {"quick": 22, "thorough": 500}
_FLAVOURS = ("plain", "autoescape", "async", "autoescape+async", "sandbox+autoescape", "immutable-sandbox",
             "policies+autoescape")
_SRC = ("data", "env.globals", "template.globals")
FLOORS = {
    "quick": {"evaluations": 3000, "distinct": 300,
              "counters": dict({"fingerprint_checks": 1500, "repeat_compares": 1500, "thread_renders": 1500,
                                "yield_injections": 500, "stateful_templates": 50, "autoescape_cases": 90,
                                "late_template_globals_steps": 16, "async_env_cases_rendered_through_sync_api": 15,
                                "matrix_templates": 300, "matrix_renders": 9000, "matrix_renders_ok": 1500},
                               **{"matrix_renders:" + f: 1200 for f in _FLAVOURS},
                               **{"matrix_source:" + f: 3000 for f in _SRC})},
    "thorough": {"evaluations": 60000, "distinct": 5000,
                 "counters": dict({"fingerprint_checks": 30000, "repeat_compares": 30000,
                                   "thread_renders": 40000, "yield_injections": 20000,
                                   "stateful_templates": 1000, "autoescape_cases": 1000,
                                   "late_template_globals_steps": 16,
                                   "async_env_cases_rendered_through_sync_api": 300,
                                   "matrix_templates": 1000, "matrix_renders": 70000, "matrix_renders_ok": 12000},
                                  **{"matrix_renders:" + f: 10000 for f in _FLAVOURS},
                                  **{"matrix_source:" + f: 12000 for f in _SRC})},
}


def fp(v, depth=0):
    if depth > 8:
        return "..."
    if isinstance(v, dict):
        return {"$d": [[fp(k, depth + 1), fp(x, depth + 1)] for k, x in v.items()]}
    if isinstance(v, (list, tuple)):
        return [type(v).__name__] + [fp(x, depth + 1) for x in v]
    if isinstance(v, (set, frozenset)):
        return [type(v).__name__] + sorted((fp(x, depth + 1) for x in v), key=repr)
    if isinstance(v, exprgen.Obj) or type(v).__module__.startswith("vt."):
        return {"$obj": type(v).__name__, "d": fp(getattr(v, "__dict__", {}), depth + 1)}
    if isinstance(v, (str, bytes, int, float, bool)) or v is None:
        # the exact class is part of the value: 1 / '1' / True / Markup('1') all differ
        return [type(v).__name__, v]
    return repr(type(v))


STATEFUL = [
    # (templates, main, key)
    ({"m": "{% set ns = namespace(c=0) %}{% macro bump() %}{% set ns.c = ns.c + 1 %}{{ ns.c }}{% endmacro %}",
      "main": "{% import 'm' as m %}{{ m.bump() }}{{ m.bump() }}"}, "main", "cached-import-module-retains-state"),
    ({"m": "{% set cy = cycler('a', 'b', 'c') %}{% macro nxt() %}{{ cy.next() }}{% endmacro %}",
      "main": "{% from 'm' import nxt %}{{ nxt() }}{{ nxt() }}"}, "main", "cached-import-module-retains-state"),
    ({"m": "{% set j = joiner('|') %}{% macro sep() %}{{ j() }}x{% endmacro %}",
      "main": "{% import 'm' as m %}{{ m.sep() }}{{ m.sep() }}"}, "main", "cached-import-module-retains-state"),
    ({"main": "{% set ns = namespace(c=0) %}{% for i in range(3) %}{% set ns.c = ns.c + i %}{% endfor %}{{ ns.c }}"},
     "main", "state:top-level-namespace"),
    ({"main": "{% for i in [1, 1, 2] %}{{ loop.changed(i) }}{{ loop.cycle('x', 'y') }}{% endfor %}"},
     "main", "state:loop-changed-cycle"),
    ({"main": "{% set cy = cycler(1, 2) %}{{ cy.next() }}{{ cy.next() }}{{ cy.next() }}"}, "main", "state:cycler"),
    ({"inc": "{% set ns = namespace(c=0) %}{% set ns.c = ns.c + 1 %}{{ ns.c }}",
      "main": "{% include 'inc' %}{% include 'inc' without context %}"}, "main", "state:include-namespace"),
    ({"m": "{% set ns = namespace(c=0) %}{% macro bump() %}{% set ns.c = ns.c + 1 %}{{ ns.c }}{% endmacro %}",
      "main": "{% import 'm' as m with context %}{{ m.bump() }}{{ m.bump() }}"}, "main", "state:import-with-context"),
    # per-call filter arguments must not stick to the environment / process
    ({"main": "{{ {'a': [1, 2], 'b': {'c': 3}}|tojson }}",
      "other": "{{ {'a': [1, 2]}|tojson(indent=2) }}", "third": "{{ [1, {'x': 2}]|tojson(4) }}"},
     "main", "state:filter-argument-sticks:tojson"),
    ({"main": "{{ 'aaa bbb ccc ddd eee fff'|wordwrap }}|{{ 'x'|indent }}|{{ 'abc'|center }}|{{ 1234567|filesizeformat }}",
      "other": "{{ 'aaa bbb ccc ddd eee fff'|wordwrap(7, false, '/') }}|{{ 'x\ny'|indent(2, true) }}|{{ 'abc'|center(9) }}|{{ 1234567|filesizeformat(true) }}"},
     "main", "state:filter-argument-sticks:text"),
    ({"main": "{{ 'a b c d e f g h i j k l'|truncate(9) }}|{{ [3, 1, 2]|sort }}|{{ 'x'|urlize }}|{{ 2.5|round }}",
      "other": "{{ 'a b c d e f g h i j k l'|truncate(9, true, '!', 0) }}|{{ [3, 1, 2]|sort(reverse=true) }}|{{ 'http://a.b'|urlize(5, true, '_blank', 'x') }}|{{ 2.5|round(1, 'floor') }}"},
     "main", "state:filter-argument-sticks:misc"),
]

STATEFUL += [
    # a namespace built from render data / without arguments is a private object of that render
    ({"main": "{% set ns = namespace(d) %}{% set ns.x = ns.x|default(0) + 1 %}{% set ns.extra = 1 %}{{ ns.x }}{{ d|length }}"},
     "main", "state:namespace-from-data-dict", {"d": {"x": 5, "y": 6}}),
    ({"main": "{% set ns = namespace() %}{% set ns.x = ns.x|default(0) + 1 %}{{ ns.x }}"
              "{% set other = namespace() %}{{ other.x|default('none') }}"}, "main", "state:namespace-no-arguments"),
    ({"main": "{% set ns = namespace(rows[0]) %}{% set ns.total = ns.total + 1 %}{{ ns.total }}{{ rows[0].total }}"},
     "main", "state:namespace-from-data-row", {"rows": [{"total": 1}, {"total": 2}]}),
    ({"main": "{% set ns = namespace(a=1) %}{% for i in range(2) %}{% set ns.a = ns.a + i %}{% endfor %}{{ ns.a }}"
              "{% set l = xs|list %}{% set m = xs|sort %}{{ l|length }}{{ xs|length }}"}, "main", "state:copies", {"xs": [3, 1, 2]}),
]

WORDS = "alpha beta gamma delta epsilon zeta eta theta iota kappa lambda mu nu xi omicron pi rho sigma tau"


def filter_stress_cases():
    """Templates that call the same filters with DIFFERENT arguments, for the
    concurrent part: shared helper objects inside a filter show up as one
    thread's arguments applied to another thread's call."""
    out = []
    for i, w in enumerate((7, 11, 16, 23, 31, 40)):
        tpl = ("{% for i in range(12) %}{{ text|wordwrap(" + str(w) + ", " + ("true" if i % 2 else "false") +
               ") }}|{{ text|truncate(" + str(w + 3) + ") }}|{{ text|indent(" + str(i) + ") }}|{{ text|center(" +
               str(60 + w) + ") }}|{{ text|batch(" + str(i + 2) + ")|list|length }}|{{ nums|sort(reverse=" +
               ("true" if i % 2 else "false") + ")|join(',') }}|{{ d|tojson(" + str(i) + ") }}{% endfor %}")
        out.append({"kind": "stateful", "raw": {"main": tpl}, "main": "main", "key": "state:filter-stress",
                    "data": {}, "globals": {},
                    "rawdata": {"text": WORDS, "nums": [5, 3, 9, 1, 7], "d": {"k": [1, 2, {"z": i}]}}})
    return out


def stateful_case(i):
    ent = STATEFUL[i % len(STATEFUL)]
    tpls, main, key = ent[:3]
    c = {"kind": "stateful", "raw": dict(tpls), "main": main, "data": {}, "globals": {}, "key": key}
    if len(ent) > 3:
        c["rawdata"] = ent[3]
    return c


def importer_globals_check(ctx):
    """One library imported (without context) by two importers that were loaded with
    template-level globals of the SAME names but DIFFERENT values: each importer's macros
    see that importer's globals, in any order and repeatedly."""
    import jinja2

    lib = "{% macro show() %}[{{ k }}|{{ j|default('-') }}]{% endmacro %}{% set v = k %}"
    for variant, imp in (("import", "{% import 'lib' as m %}{{ m.show() }}{{ m.v }}"),
                         ("from", "{% from 'lib' import show, v %}{{ show() }}{{ v }}"),
                         ("include", "{% include 'lib2' without context %}")):
        srcs = {"lib": lib, "imp": imp, "lib2": "{{ k }}{{ j|default('-') }}"}
        want = {}
        for val in ("one", "two", "three"):
            e = jinja2.Environment(loader=jinja2.DictLoader(srcs))
            want[val] = util.capture(lambda: e.get_template("imp", globals={"k": val, "j": val.upper()}).render())
        for val in ("one", "two", "three"):
            srcs["imp_" + val] = imp   # one importer per set of globals (globals stick to a cached template)
        for order, cs in ((("one", "two", "one", "three", "two"), 400), (("two", "one", "two"), 400),
                          (("one", "two", "one"), 0)):
            e = jinja2.Environment(loader=jinja2.DictLoader(srcs), cache_size=cs)
            for val in order:
                o = util.capture(lambda: e.get_template("imp_" + val, globals={"k": val, "j": val.upper()}).render())
                ctx.ev()
                ctx.count("importer_globals_steps")
                if not same(want[val], o):
                    ctx.violation("state:importer-globals:" + variant,
                                  f"importer loaded with globals k={val!r} rendered {o!r}, alone {want[val]!r} (order {order}) | {srcs}",
                                  {"kind": "importer-globals"})
                    break


def late_globals_check(ctx):
    """Template-level globals that arrive AFTER a template was loaded (documented:
    get_template(name, globals=...) on a cache hit updates that template's globals; so does
    template.globals[...] = ...) stay with that template: environment globals are untouched and
    other templates render as they do alone."""
    import jinja2

    srcs = {"a": "{{ k|default('-') }}", "b": "[{{ k|default('-') }}]"}
    for how in ("get_template-cache-hit", "template.globals-setitem", "from_string", "Template()"):
        if how == "Template()":
            mk = lambda src: jinja2.Template(src)
            env = mk("x").environment
        else:
            env = jinja2.Environment(loader=jinja2.DictLoader(srcs))
            mk = env.from_string
        before = fp(dict(env.globals))
        if how == "get_template-cache-hit":
            first = util.capture(lambda: env.get_template("a").render())
            second = util.capture(lambda: env.get_template("a", globals={"k": "late"}).render())
            other = util.capture(lambda: env.get_template("b").render())
        else:
            t = env.get_template("a") if how == "template.globals-setitem" else mk(srcs["a"])
            first = util.capture(lambda: t.render())
            t.globals["k"] = "late"
            second = util.capture(lambda: t.render())
            other = util.capture(lambda: (env.get_template("b") if how == "template.globals-setitem"
                                          else mk(srcs["b"])).render())
        ctx.ev(3)
        ctx.count("late_template_globals_steps")
        after = fp(dict(env.globals))
        got = (outcome_of(first), outcome_of(second), outcome_of(other))
        if got != (("ok", "-"), ("ok", "late"), ("ok", "[-]")) or before != after:
            ctx.violation("state:late-template-globals:" + how,
                          f"renders (before, after adding template global k, other template) = {got}, expected "
                          f"'-', 'late', '[-]'; environment globals changed: {before != after} ({sorted(env.globals)})",
                          {"kind": "late-globals"})
        env.globals.pop("k", None)   # the spontaneous environment of Template() is process-wide


def outcome_of(o):
    return ("ok", o.value) if o.ok else ("exc", type(o.exc).__name__)


# ---------------------------------------------------------------------------
# (d) the built-in filters over container data, in every environment flavour
# ---------------------------------------------------------------------------
class Rec:
    """Plain record object (attributes only) used as container element."""

    def __init__(self, **kw):
        self.__dict__.update(kw)

    def __repr__(self):
        return "Rec(%s)" % ",".join(sorted(self.__dict__))


def matrix_values():
    """name -> factory of a FRESH container (or scalar) value under the filter."""
    from markupsafe import Markup

    return [
        ("list-num", lambda: [1, 2, 3.5]),
        ("list-int-unsorted", lambda: [3, 1, 2, 1]),
        ("list-str", lambda: ["b", "a <x>", "C c"]),
        ("list-markup-mixed", lambda: [Markup("<b>"), 1, "<i>"]),
        ("list-mixed-scalars", lambda: [None, 0, "", 1.5, True]),
        ("list-nested", lambda: [[1, 2], [3, [4, 5]], []]),
        ("list-of-dicts", lambda: [{"k": 2, "n": [1]}, {"k": 1, "n": []}, {"k": 2, "n": [3]}]),
        ("list-of-pairs", lambda: [["b", 2], ["a", [1]]]),
        ("list-of-objects", lambda: [Rec(k=2, n=[1]), Rec(k=1, n=[]), exprgen.Obj({"k": 3}, {"k": 4})]),
        ("tuple-num", lambda: (2, 1, 3)),
        ("tuple-of-tuples", lambda: (("b", 2), ("a", 1))),
        ("set-num", lambda: {3, 1, 2}),
        ("dict-nested", lambda: {"k": [2, 1], "b": {"c": 3}, "a": 1}),
        ("dict-scalars", lambda: {"b": 2, "A": 1, "c": "<x>"}),
        ("str", lambda: "a <b> http://x.y/ c d"),
        ("int", lambda: 3),
    ]


def matrix_arg_values():
    return [("list", lambda: [1, 2]), ("dict", lambda: {"k": [0], "z": 1}), ("tuple", lambda: (9, "s")),
            ("str", lambda: ", "), ("nested", lambda: [[7], {"q": [8]}])]


# argument forms tried with EVERY filter (most combinations raise - that is an execution too);
# `a` is a second, container-valued piece of render data
ARG_FORMS = ["", "a", "2", "','", "'k'", "attribute='k'", "',', 'k'", "2, a", "'k', a", "'k', default=a",
             "'in', a", "'odd'", "'k', 'in', a", "'list'", "'join', ','", "'default', a", "start=a",
             "true", "reverse=true", "'%s', a", "'k', 'equalto', 2", "1, 'k'", "fill_with=a", "a, a"]
# one template per (filter, arguments): the result printed, consumed by |list and consumed by a loop
# (lazy filters only touch their input when consumed)
USE_FORM = "{{ v|%s }}|{{ v|%s|list }}|{%% for x in v|%s %%}{{ x }};{%% endfor %%}"
SOURCES = ["data", "env.globals", "template.globals"]


def matrix_configs():
    from jinja2.sandbox import ImmutableSandboxedEnvironment, SandboxedEnvironment

    pol = {"json.dumps_kwargs": {"sort_keys": False, "indent": 1}, "truncate.leeway": 0,
           "urlize.rel": "nofollow", "urlize.extra_schemes": ["x:"]}
    return [("plain", None, {}, None), ("autoescape", None, {"autoescape": True}, None),
            ("async", None, {"enable_async": True}, None),
            ("autoescape+async", None, {"autoescape": True, "enable_async": True}, None),
            ("sandbox+autoescape", SandboxedEnvironment, {"autoescape": True}, None),
            ("immutable-sandbox", ImmutableSandboxedEnvironment, {}, None),
            ("policies+autoescape", None, {"autoescape": True}, pol)]


def matrix_env(cfg):
    import copy

    import jinja2

    _, cls, kw, pol = cfg
    env = (cls or jinja2.Environment)(extensions=corpus.EXTENSIONS, **kw)
    if pol:
        env.policies.update(copy.deepcopy(pol))
    return env


def matrix_render(env, t, vname, aname, source):
    """One observed render of the compiled template t; returns (outcome, before, after) with
    fingerprints of the data, the value, the globals and the policies."""
    vals, args = dict(matrix_values()), dict(matrix_arg_values())
    v, a = vals[vname](), args[aname]()
    data = {"a": a, "other": [1, "x"]}
    if source == "data":
        data["v"] = v
    elif source == "env.globals":
        env.globals["v"] = v
    else:
        t.globals["v"] = v
    try:
        # template.globals is a view over the environment globals too (documented ChainMap)
        snap = lambda: (fp(data), fp(dict(t.globals)), fp(dict(env.policies)))
        before = snap()
        o = util.capture(lambda: t.render(data))
        after = snap()
    finally:
        env.globals.pop("v", None)
        t.globals.pop("v", None)
    return o, before, after


def matrix_verdict(ctx, f, cfgname, src, vname, aname, source, o, before, after):
    if before == after:
        return
    k = [k for k in range(3) if before[k] != after[k]][0]
    w = "data" if k == 0 else "env.policies" if k == 2 else source if source != "data" else "globals"
    ctx.violation(f"mutates:{w}:filter:{f}/{cfgname}",
                  f"{src!r} rendered in a {cfgname} environment with v={vname} (from {source}), "
                  f"a={aname} changed {w}: {before[k]} -> {after[k]} (outcome {o!r})",
                  {"kind": "filter-matrix", "src": src, "cfg": cfgname, "value": vname,
                   "arg": aname, "source": source, "filter": f})


def check_filter_matrix(ctx, rng, share=0.4):
    """Every filter registered in a default environment x argument forms x environment flavours x
    container values, the value coming from render data, environment globals or template globals;
    everything reachable from the inputs is fingerprinted (values AND element types) before and
    after each render."""
    import jinja2

    names = sorted(jinja2.Environment().filters)
    cfgs = matrix_configs()
    vals, args = matrix_values(), matrix_arg_values()
    jobs = [(f, ai) for f in names for ai in range(len(ARG_FORMS))]
    mine = [i for i in range(len(jobs)) if ctx.mine(i)]
    rng.shuffle(mine)           # the time box must not always cut the same filters
    envs = [matrix_env(c) for c in cfgs]
    deadline = ctx.budget_s * share
    thorough = ctx.tier != "quick"
    for done, i in enumerate(mine):
        if done >= len(mine) // 2 and ctx.elapsed() > deadline:
            ctx.count("matrix_timeboxed_stop")
            break
        f, ai = jobs[i]
        call = f + ("(" + ARG_FORMS[ai] + ")" if ARG_FORMS[ai] else "")
        src = USE_FORM % (call, call, call)
        ctx.count("matrix_templates")
        for ci, cfg in enumerate(cfgs):
            env = envs[ci]
            t = util.capture(lambda: env.from_string(src))
            if not t.ok:
                ctx.count("matrix_compile_errors")
                continue
            for vi, (vname, _) in enumerate(vals):
                if not thorough and (vi + i + ci) % 2:
                    continue            # quick: half of the values per (template, flavour)
                source = SOURCES[(i + vi // 2 + ci) % 3]
                # forms that pass the second piece of data get two different kinds of it per value
                shifts = (0, 2) if "a" in ARG_FORMS[ai].replace("'", " ").replace("=", " ").replace(",", " ").split() else (0,)
                for shift in shifts:
                    aname = args[(i + vi + shift) % len(args)][0]
                    o, before, after = matrix_render(env, t.value, vname, aname, source)
                    ctx.ev()
                    ctx.count("matrix_renders")
                    ctx.count("fingerprint_checks")
                    ctx.count("matrix_renders:" + cfg[0])
                    ctx.count("matrix_source:" + source)
                    if o.ok:
                        ctx.count("matrix_renders_ok")
                        ctx.dist(["matrix", f, ARG_FORMS[ai], cfg[0], vname])
                    matrix_verdict(ctx, f, cfg[0], src, vname, aname, source, o, before, after)


def env_for(case):
    import jinja2

    ae = bool(case.get("autoescape"))
    # async-enabled environments are rendered through the same synchronous API
    asy = bool(case.get("async_env"))
    if "raw" in case:
        return jinja2.Environment(loader=jinja2.DictLoader(case["raw"]), extensions=corpus.EXTENSIONS,
                                  autoescape=ae, enable_async=asy)
    return corpus.make_env(case, autoescape=ae, enable_async=asy)


def names_of(case):
    return list(case["raw"]) if "raw" in case else list(case["asts"])


def data_for(case, env):
    if "raw" in case:
        import copy

        return copy.deepcopy(case.get("rawdata", {}))
    return corpus.realize_data(case, env)


def isolated(case, name=None):
    env = env_for(case)
    return util.capture(lambda: env.get_template(name or case["main"]).render(data_for(case, env)))


def same(a, b):
    return (a.ok and b.ok and a.value == b.value) or (not a.ok and not b.ok and type(a.exc) is type(b.exc))


def check_sequential(ctx, case, rng):
    env = env_for(case)
    names = names_of(case)
    base = {n: isolated(case, n) for n in names}
    order = [case["main"]] * 3 + [rng.choice(names) for _ in range(4)]
    rng.shuffle(order)
    key0 = case.get("key")
    for n in order:
        data = data_for(case, env)
        t = util.capture(lambda: env.get_template(n))
        if not t.ok:
            continue
        before = (fp(data), fp(dict(env.globals)), fp(dict(t.value.globals)), fp(dict(env.policies)))
        o = util.capture(lambda: t.value.render(data))
        after = (fp(data), fp(dict(env.globals)), fp(dict(t.value.globals)), fp(dict(env.policies)))
        ctx.ev()
        ctx.count("fingerprint_checks")
        ctx.count("repeat_compares")
        rec = {"case": case, "order": order}
        if before != after:
            which = ["data", "env.globals", "template.globals", "env.policies"][
                [i for i in range(4) if before[i] != after[i]][0]]
            ctx.violation("mutates:" + which, f"{which} changed by rendering {n!r}: {before} -> {after}", rec)
            return
        if not same(base[n], o):
            ctx.violation(key0 or ("repeat:" + case["kind"]),
                          f"render of {n!r} in a used environment {o!r} != isolated {base[n]!r} "
                          f"(order {order}) | sources={case.get('raw') or corpus.sources(case)}", rec)
            return


class YieldInjector:
    """sleep(0) at random LINE events inside jinja2 code (sys.monitoring)."""

    TOOL = 4

    def __init__(self, seed, rate=0.02):
        self.rate = rate
        self.rng = random.Random(seed)
        self.count = 0
        self.sig = []
        self.lock = threading.Lock()

    def __enter__(self):
        m = sys.monitoring
        m.use_tool_id(self.TOOL, "vt.yield")
        m.register_callback(self.TOOL, m.events.LINE, self.on_line)
        m.set_events(self.TOOL, m.events.LINE)
        return self

    def __exit__(self, *a):
        m = sys.monitoring
        m.set_events(self.TOOL, 0)
        m.register_callback(self.TOOL, m.events.LINE, None)
        m.free_tool_id(self.TOOL)

    def on_line(self, code, line):
        fn = code.co_filename
        if "/jinja2/" not in fn and not fn.startswith("<template"):
            return sys.monitoring.DISABLE
        if self.rng.random() < self.rate:
            self.count += 1
            if len(self.sig) < 40:
                self.sig.append((threading.get_ident() % 997, code.co_name, line))
            time.sleep(0)
        return None


def check_threads(ctx, cases, rng, nthreads, per_thread, inject):
    envs = [env_for(c) for c in cases]
    bases = [isolated(c) for c in cases]
    errors = []
    plan = [[rng.randrange(len(cases)) for _ in range(per_thread)] for _ in range(nthreads)]
    start = threading.Barrier(nthreads)

    def worker(tid):
        try:
            start.wait(10)
        except Exception:
            pass
        for ci in plan[tid]:
            c, env = cases[ci], envs[ci]
            o = util.capture(lambda: env.get_template(c["main"]).render(data_for(c, env)))
            if not same(bases[ci], o):
                errors.append((ci, repr(o), repr(bases[ci])))

    old = sys.getswitchinterval()
    sys.setswitchinterval(1e-6)
    try:
        inj = YieldInjector(rng.random()) if inject else None
        if inj:
            inj.__enter__()
        try:
            ths = [threading.Thread(target=worker, args=(i,)) for i in range(nthreads)]
            for t in ths:
                t.start()
            for t in ths:
                t.join(120)
        finally:
            if inj:
                inj.__exit__()
    finally:
        sys.setswitchinterval(old)
    n = nthreads * per_thread
    ctx.ev(n)
    ctx.count("thread_renders", n)
    ctx.count("thread_rounds")
    if inj:
        ctx.count("yield_injections", inj.count)
        ctx.dist(["sig", inj.sig])
    for ci, got, exp in errors[:3]:
        c = cases[ci]
        ctx.violation(c.get("key") and ("threads:" + c["key"]) or ("threads:" + c["kind"]),
                      f"concurrent render {got} != isolated {exp} | sources={c.get('raw') or corpus.sources(c)}",
                      {"cases": cases, "nthreads": nthreads})


def run(ctx):
    rng = ctx.rng("c29")
    quick = ctx.tier == "quick"
    n = 500 if quick else 12000
    i = 0
    pool = []
    importer_globals_check(ctx)
    late_globals_check(ctx)
    check_filter_matrix(ctx, ctx.rng("c29-matrix"))
    while ctx.more(i, n, floor=60):
        if i % 6 == 5:
            case = stateful_case(rng.randrange(100))
            ctx.count("stateful_templates")
        else:
            case = corpus.gen_case(rng)
        if rng.random() < 0.4:
            case["autoescape"] = True
            ctx.count("autoescape_cases")
        if rng.random() < 0.3:
            case["async_env"] = True
            ctx.count("async_env_cases_rendered_through_sync_api")
        check_sequential(ctx, case, rng)
        if "raw" not in case:
            ctx.dist(corpus.shape(case))
        pool.append(case)
        if len(pool) >= 8:
            # thread-safe cases only: stateful imports are judged by the sequential part
            tcases = [c for c in pool if "raw" not in c or c["key"].startswith("state:")]
            tcases += filter_stress_cases()
            if tcases:
                check_threads(ctx, tcases, rng, nthreads=rng.choice([8, 12, 16]),
                              per_thread=6 if quick else 10, inject=True)
            pool = []
        if i < 2 and "raw" not in case:
            ctx.sample({"sources": corpus.sources(case)})
        i += 1


def replay(ctx, case):
    rng = random.Random(0)
    if case.get("kind") == "importer-globals":
        importer_globals_check(ctx)
    elif case.get("kind") == "filter-matrix":
        cfg = [c for c in matrix_configs() if c[0] == case["cfg"]][0]
        env = matrix_env(cfg)
        o, before, after = matrix_render(env, env.from_string(case["src"]), case["value"], case["arg"],
                                         case["source"])
        matrix_verdict(ctx, case["filter"], cfg[0], case["src"], case["value"], case["arg"], case["source"],
                       o, before, after)
    elif "cases" in case:
        for _ in range(20):
            check_threads(ctx, case["cases"], rng, case["nthreads"], 8, True)
    else:
        check_sequential(ctx, case["case"], rng)
